// C16 — a compiled template is interchangeable with its source.
//
// Two exhaustively enumerated grids against the real library:
//
//	rt  serialise -> deserialise of CompiledTemplate values: every name x every source x every
//	    LastModified x every CompileTime x every AST section of the lists below (sizes on both sides
//	    of every power-of-256 boundary of the 32-bit length prefixes that is reachable; empty, binary,
//	    non-UTF-8, NUL, data that itself looks like a serialisation). Name, source, both timestamps
//	    and the AST bytes must come back exactly; an earlier result must not change when a later
//	    value is serialised (the encoder works in a pooled buffer).
//	rd  render twins: every source of the corpus (and, so that failing sources are covered too, every
//	    distance-1 lexeme mutation of it) x every way of loading the compiled form
//	    (LoadFromCompiledData, RegisterCompiledTemplate of the deserialised and of the original
//	    value, Template.SaveCompiled bytes, CompiledLoader.SaveCompiled -> file -> fresh engine
//	    LoadAll) x engine configuration x whether the templates it includes / extends / imports are
//	    themselves compiled or source x template name. The twin must render exactly like an engine
//	    that was given the source, on three contexts: same bytes, or an error in both.
//
// Two history families: hist.go (sequences of serialisations, all results held) and save.go
// (sequences of CompiledLoader.SaveCompiled of one name into one directory with a changing source
// and every relation between the template's and the file's modification time).
//
// Three aliasing families (alias.go): the byte slice handed to DeserializeCompiledTemplate /
// LoadFromCompiledData belongs to the caller and is overwritten or reused for the next file
// afterwards; what was deserialised / registered from it must not change.
//
// One content family (magic.go): sources and names that start with / contain / end with the magic
// numbers of compression and container formats and of the compiled format itself, short and long,
// compressible and not - what a reader that recognises a packed field by its content gets wrong.
package main

import (
	"bytes"
	"fmt"
	"math"
	"os"
	"path/filepath"
	"strings"

	"github.com/semihalev/twig"

	"verif/lib/vlib"
)

// ---------------------------------------------------------------------------------------------
// rt: serialise / deserialise

type named struct {
	id string
	s  string
}

func rep(s string, n int) string { return strings.Repeat(s, n) }

func allBytes() string {
	b := make([]byte, 256)
	for i := range b {
		b[i] = byte(i)
	}
	return string(b)
}

func rtNames(thorough bool) []named {
	n := []named{
		{"empty", ""}, {"t", "t"}, {"path", "dir/sub/t.twig"}, {"nul", "a\x00b"}, {"bad-utf8", "\xff\xfe\x80n"}, {"space", "a b"}, {"uml", "ü"}, {"dots", "../.."},
		{"255", rep("n", 255)}, {"256", rep("n", 256)}, {"257", rep("/", 257)}, {"65535", rep("n", 65535)}, {"65536", rep("\x00", 65536)}, {"65537", rep("ü", 32768) + "n"},
		{"all-bytes", allBytes()},
	}
	if thorough {
		n = append(n, named{"2^24-1", rep("n", 1<<24-1)}, named{"2^24", rep("n", 1<<24)})
	}
	return n
}

func rtSources(thorough bool) []named {
	ser, _ := twig.SerializeCompiledTemplate(&twig.CompiledTemplate{Name: "inner", Source: "{{ x }}", LastModified: 1, CompileTime: 2})
	s := []named{
		{"empty", ""}, {"x", "x"}, {"tag", "{{ a }}"}, {"all-bytes", allBytes()}, {"bad-utf8", "\xff\xfe\x00bin{{ a }}\x80"}, {"nuls", rep("\x00", 300)},
		{"looks-serialised", string(ser)}, {"ff", rep("\xff", 1000)},
		{"255", rep("p", 255)}, {"256", rep("p", 256)}, {"257", rep("p", 250) + "{{ a }}"}, {"4096", rep("p", 4096)}, {"4097", rep("p", 4090) + "{{ a }}"},
		{"65535", rep("p", 65535)}, {"65536", rep("p", 65536)}, {"65537", rep("{{ a }}", 9362) + "ppp"}, {"70000", rep("p", 69993) + "{{ a }}"},
		{"1MiB", rep("0123456789abcdef", 65536)}, {"1MiB+1", rep("\xc3\xa9", 524288) + "x"},
	}
	if thorough {
		s = append(s, named{"2^24-1", rep("s", 1<<24-1)}, named{"2^24", rep("s", 1<<24)}, named{"2^24+1", rep("s", 1<<24+1)}, named{"64MiB", rep("0123456789abcdef", 4<<20)})
	}
	return s
}

var rtLastModified = []int64{0, 1, -1, math.MaxInt64, math.MinInt64, 1700000000, 0x0102030405060708}
var rtCompileTime = []int64{0, -1, math.MaxInt64, 0x1112131415161718}

func rtASTs() []named {
	return []named{{"nil", ""}, {"real", "\x13\x7f\x03\x01\x01\x08RootNode\x01\xff\x80\x00\x00\x00"}, {"255", rep("\xff", 255)}, {"256", rep("\x00", 256)}, {"65536", rep("a", 65536)}}
}

func runRT(t *vlib.T) {
	names, srcs, asts := rtNames(t.Thorough()), rtSources(t.Thorough()), rtASTs()
	for _, src := range srcs {
		for _, name := range names {
			limit := 2 << 20
			if !t.Thorough() {
				limit = 512 << 10
			}
			big := len(src.s) > limit || len(name.s) > limit
			for li, lm := range rtLastModified {
				for ci, ct := range rtCompileTime {
					for ai, ast := range asts {
						if big && (li+ci+ai)%3 != 0 { // the largest values (quick: >512 KiB, thorough: >2 MiB): a third of the small dimensions
							continue
						}
						if t.Stopped() {
							return
						}
						key := fmt.Sprintf("rt|%s|%s|%d|%d|%s", src.id, name.id, lm, ct, ast.id)
						src, name, lm, ct, ast := src, name, lm, ct, ast
						t.Case(key, func() *vlib.Outcome { return rtCase(src, name, lm, ct, ast) })
					}
				}
			}
		}
	}
}

func sizeClass(n int) string {
	switch {
	case n == 0:
		return "0"
	case n < 256:
		return "<2^8"
	case n < 65536:
		return "<2^16"
	case n < 1<<24:
		return "<2^24"
	}
	return ">=2^24"
}

func short(s string) string {
	if len(s) > 40 {
		return fmt.Sprintf("%q…(%d bytes)", s[:40], len(s))
	}
	return fmt.Sprintf("%q", s)
}

func rtCase(src, name named, lm, ctime int64, ast named) *vlib.Outcome {
	o := &vlib.Outcome{Nontrivial: len(src.s)+len(name.s) > 0, Counters: map[string]int64{"roundtrips": 1}}
	o.Class = "rt:name" + sizeClass(len(name.s)) + ",src" + sizeClass(len(src.s)) + ",ast" + sizeClass(len(ast.s))
	var astb []byte
	if ast.id != "nil" {
		astb = []byte(ast.s)
	}
	in := &twig.CompiledTemplate{Name: name.s, Source: src.s, LastModified: lm, CompileTime: ctime, AST: astb}
	fail := func(f string, a ...interface{}) *vlib.Outcome {
		o.Violation = fmt.Sprintf("name %s (%s) source %s (%s) LastModified %d CompileTime %d AST %s: ", short(name.s), name.id, short(src.s), src.id, lm, ctime, ast.id) + fmt.Sprintf(f, a...)
		return o
	}
	data, err := twig.SerializeCompiledTemplate(in)
	if err != nil {
		return fail("SerializeCompiledTemplate failed: %v", err)
	}
	keep := append([]byte{}, data...)
	// a second, different value goes through the encoder (and its pooled buffer) in between
	other := &twig.CompiledTemplate{Name: src.s, Source: rep("~", len(data)) + name.s, LastModified: ^lm, CompileTime: ^ctime, AST: []byte("zzzz")}
	odata, err := twig.SerializeCompiledTemplate(other)
	if err != nil {
		return fail("SerializeCompiledTemplate of a second value failed: %v", err)
	}
	if !bytes.Equal(data, keep) {
		return fail("the bytes returned by SerializeCompiledTemplate changed when another template was serialised afterwards")
	}
	cmp := func(what string, got, want *twig.CompiledTemplate) string {
		switch {
		case got.Name != want.Name:
			return fmt.Sprintf("%s: name came back as %s (%d bytes), want %d bytes", what, short(got.Name), len(got.Name), len(want.Name))
		case got.Source != want.Source:
			return fmt.Sprintf("%s: source came back as %s (%d bytes), want %d bytes", what, short(got.Source), len(got.Source), len(want.Source))
		case got.LastModified != want.LastModified:
			return fmt.Sprintf("%s: LastModified came back as %d, want %d", what, got.LastModified, want.LastModified)
		case got.CompileTime != want.CompileTime:
			return fmt.Sprintf("%s: CompileTime came back as %d, want %d", what, got.CompileTime, want.CompileTime)
		case !bytes.Equal(got.AST, want.AST):
			return fmt.Sprintf("%s: AST section came back with %d bytes, want %d", what, len(got.AST), len(want.AST))
		}
		return ""
	}
	back, err := twig.DeserializeCompiledTemplate(data)
	if err != nil {
		return fail("DeserializeCompiledTemplate of the serialised bytes failed: %v", err)
	}
	if d := cmp("round trip", back, in); d != "" {
		return fail("%s", d)
	}
	oback, err := twig.DeserializeCompiledTemplate(odata)
	if err != nil {
		return fail("DeserializeCompiledTemplate of the second value failed: %v", err)
	}
	if d := cmp("round trip of the second value", oback, other); d != "" {
		return fail("%s", d)
	}
	// serialising what came back gives the same bytes (the encoding is canonical)
	again, err := twig.SerializeCompiledTemplate(back)
	if err != nil || !bytes.Equal(again, data) {
		return fail("re-serialising the deserialised value gives different bytes (err=%v)", err)
	}
	if in.Size() != back.Size() {
		return fail("Size() differs after the round trip: %d vs %d", in.Size(), back.Size())
	}
	return o
}

// ---------------------------------------------------------------------------------------------
// rd: render twins

var helpers = [][2]string{
	{"s", "S{{ x }}{% block b %}sb{% endblock %}{% macro m(a) %}sm{{ a }}{% endmacro %}"},
	{"base", "<{% block b %}B0{% endblock %}|{% block c %}C0{{ x }}{% endblock %}>"},
	{"lib", "{% macro m(a, b = 'd') %}[{{ a }}{{ b }}]{% endmacro %}{% macro n() %}N{% endmacro %}"},
}

var ctxs = []map[string]interface{}{
	{"x": []interface{}{1, "s", map[string]interface{}{"s": 1}}, "y": map[string]interface{}{"s": "v"}, "z": 0},
	{"x": map[string]interface{}{"s": "v", "y": 3}, "y": "abc", "z": []interface{}{}},
	nil,
}

// extra sources: sizes around the threshold of the second tokenizer, binary text, whitespace control
var extraSources = []string{
	"",
	"plain",
	"\xff\xfe\x00bin{{ x.s }}\x80",
	rep("p", 4090) + "{{ x.s }}{% if y %}Y{% endif %}",
	rep("{{ x.s }}-", 700) + "{%- if z -%} z {%- else -%} nz {%- endif -%}",
	rep("p", 70000) + "{% for i in x %}{{ loop.index }}{% endfor %}",
	"{% extends 'base' %}{% block b %}" + rep("q", 5000) + "{{ parent() }}{% endblock %}",
	"{% import 'lib' as l %}" + rep("{{ l.m(1) }}", 400),
	"{% block b %}1{% endblock %}{% block c %}{{ block('b') }}{% endblock %}",
	"{{ x|json_encode }}{{ y|length }}{{ z is empty ? 'e' : 'n' }}",
	" \n\t lead {{ x.s }} trail \t\n ",
	" \n ",
	"\n{% if y %}Y{% endif %}\n",
	"{% if %}",
	"{{ x",
	"{% for i in x %}",
}

type cfg struct {
	id    string
	apply func(e *twig.Engine)
}

var cfgs = []cfg{
	{"default", func(e *twig.Engine) {}},
	{"strict", func(e *twig.Engine) { e.SetStrictVars(true) }},
	{"autoreload", func(e *twig.Engine) { e.SetAutoReload(true) }},
	{"preloaded", func(e *twig.Engine) {
		// the engine already holds other templates under the same names
		e.RegisterString("main", "OLD-main")
		e.RegisterString("dir/sub/t.twig", "OLD-t")
		e.RegisterString("ü b", "OLD-u")
		e.RegisterString("base", "OLD-base")
	}},
	{"sandbox", func(e *twig.Engine) { e.EnableSandbox(twig.NewDefaultSecurityPolicy()) }},
}

var paths = []string{"data", "deser", "direct", "tmplsave", "loader"}
var tnames = []string{"main", "dir/sub/t.twig", "ü b"}

type result struct {
	regErr bool
	out    [3]string
	err    [3]bool
}

func (r result) String() string {
	if r.regErr {
		return "registration failed"
	}
	var p []string
	for i := range r.out {
		if r.err[i] {
			p = append(p, "error")
		} else {
			p = append(p, short(r.out[i]))
		}
	}
	return strings.Join(p, " | ")
}

func renderAll(e *twig.Engine, name string) (r result) {
	for i, c := range ctxs {
		out, err := e.Render(name, c)
		r.out[i], r.err[i] = out, err != nil
		if err != nil {
			r.out[i] = ""
		}
	}
	return r
}

// compileOn: the compiled form of (name, src), produced on a throw-away engine. ok=false when the
// source does not parse; then the form is assembled by hand (a file or a cache entry written by an
// older version may well hold a source that no longer parses).
func compileOn(name, src string) (ct *twig.CompiledTemplate, parsed bool) {
	e := twig.New()
	if err := e.RegisterString(name, src); err != nil {
		return &twig.CompiledTemplate{Name: name, Source: src, LastModified: 5, CompileTime: 6}, false
	}
	c, err := e.CompileTemplate(name)
	if err != nil || c == nil {
		return &twig.CompiledTemplate{Name: name, Source: src, LastModified: 5, CompileTime: 6}, false
	}
	return c, true
}

// load puts the compiled form of (name, src) on engine e in the given way. dir is the private
// directory of the case (loader path). It returns whether registration reported an error.
func load(e *twig.Engine, way, name, src, dir string) (regErr bool, note string) {
	ct, parsed := compileOn(name, src)
	switch way {
	case "data": // bytes -> LoadFromCompiledData
		data, err := twig.SerializeCompiledTemplate(ct)
		if err != nil {
			return true, "serialise: " + err.Error()
		}
		return e.LoadFromCompiledData(data) != nil, ""
	case "deser": // bytes -> Deserialize -> RegisterCompiledTemplate
		data, err := twig.SerializeCompiledTemplate(ct)
		if err != nil {
			return true, "serialise: " + err.Error()
		}
		back, err := twig.DeserializeCompiledTemplate(data)
		if err != nil {
			return true, "deserialise: " + err.Error()
		}
		return e.RegisterCompiledTemplate(back) != nil, ""
	case "direct": // RegisterCompiledTemplate of the value Compile returned
		return e.RegisterCompiledTemplate(ct) != nil, ""
	case "tmplsave": // Template.SaveCompiled bytes
		if !parsed {
			data, _ := twig.SerializeCompiledTemplate(ct)
			return e.LoadFromCompiledData(data) != nil, ""
		}
		src2 := twig.New()
		src2.RegisterString(name, src)
		tm, err := src2.Load(name)
		if err != nil {
			return true, "load: " + err.Error()
		}
		data, err := tm.SaveCompiled()
		if err != nil {
			return true, "SaveCompiled: " + err.Error()
		}
		return e.LoadFromCompiledData(data) != nil, ""
	case "loader": // CompiledLoader.SaveCompiled -> file -> LoadAll on e
		cl := twig.NewCompiledLoader(dir)
		if parsed {
			src2 := twig.New()
			src2.RegisterString(name, src)
			if err := os.MkdirAll(filepath.Dir(filepath.Join(dir, name)), 0o755); err != nil {
				return true, "mkdir: " + err.Error()
			}
			if err := cl.SaveCompiled(src2, name); err != nil {
				return true, "CompiledLoader.SaveCompiled: " + err.Error()
			}
			// the file holds exactly what the engine's template is
			fdata, err := os.ReadFile(filepath.Join(dir, name+".twig.compiled"))
			if err != nil {
				return true, "the compiled loader did not write " + name + ".twig.compiled: " + err.Error()
			}
			fct, err := twig.DeserializeCompiledTemplate(fdata)
			if err != nil {
				return true, "the file written by the compiled loader does not deserialise: " + err.Error()
			}
			if fct.Name != name || fct.Source != src || fct.LastModified != ct0LastModified(src2, name) {
				return true, fmt.Sprintf("the file written by the compiled loader holds name %s source %s LastModified %d, want %s %s %d", short(fct.Name), short(fct.Source), fct.LastModified, short(name), short(src), ct0LastModified(src2, name))
			}
		} else {
			// a file whose stored source does not parse
			data, _ := twig.SerializeCompiledTemplate(ct)
			os.MkdirAll(filepath.Dir(filepath.Join(dir, name)), 0o755)
			if err := os.WriteFile(filepath.Join(dir, name+".twig.compiled"), data, 0o644); err != nil {
				return true, "write: " + err.Error()
			}
		}
		cl2 := twig.NewCompiledLoader(dir)
		if err := cl2.LoadAll(e); err != nil {
			return true, "LoadAll: " + err.Error()
		}
		// loading is lazy or eager as the loader pleases; a source that does not parse shows as an error
		// at the latest when the template is asked for
		_, err := e.Load(name)
		return err != nil, ""
	}
	panic("unknown way " + way)
}

func ct0LastModified(e *twig.Engine, name string) int64 {
	c, err := e.CompileTemplate(name)
	if err != nil {
		return -12345
	}
	return c.LastModified
}

func usesHelpers(src string) bool {
	return strings.Contains(src, "'s'") || strings.Contains(src, "'base'") || strings.Contains(src, "'lib'")
}

func rdCase(src string, c cfg, way string, helpersCompiled bool, name string) *vlib.Outcome {
	o := &vlib.Outcome{Counters: map[string]int64{}}
	dir := ""
	if way == "loader" { // a private directory per case
		d := alTempDir("verif-c16-") // under the run's scratch directory
		defer os.RemoveAll(d)
		dir = d
	}

	// reference: an engine that was given the sources
	reference := func() (want result) {
		ref := twig.New()
		c.apply(ref)
		for _, h := range helpers {
			ref.RegisterString(h[0], h[1])
		}
		want.regErr = ref.RegisterString(name, src) != nil
		if !want.regErr {
			want = renderAll(ref, name)
		}
		return want
	}
	want := reference()
	if again := reference(); again != want {
		// two engines given the same SOURCE disagree (a mutated template that prints a macro object or
		// another value holding a pointer shows a memory address): the source has no single rendering
		// to be interchangeable with. That is C03's subject (KF-C03-1), not this property's.
		o.Class = "rd:source-render-not-repeatable"
		o.Counters["skipped_unrepeatable_source"] = 1
		return o
	}

	// twin: an engine that was given the compiled form
	tw := twig.New()
	c.apply(tw)
	var notes []string
	for _, h := range helpers {
		if helpersCompiled {
			if bad, note := load(tw, way, h[0], h[1], dir); bad {
				o.Violation = fmt.Sprintf("helper template %q could not be loaded from its compiled form via %s: %s", h[0], way, note)
				return o
			}
		} else {
			tw.RegisterString(h[0], h[1])
		}
	}
	var got result
	bad, note := load(tw, way, name, src, dir)
	if note != "" {
		notes = append(notes, note)
	}
	got.regErr = bad
	if !got.regErr {
		got = renderAll(tw, name)
	}
	o.Counters["renders_compared"] = 3
	okRenders := 0
	for i := range want.err {
		if !want.regErr && !want.err[i] {
			okRenders++
		}
	}
	o.Nontrivial = okRenders > 0
	o.Class = fmt.Sprintf("rd:%s:reg=%v,ok=%d,helpers=%v", way, !want.regErr, okRenders, usesHelpers(src))
	if got != want {
		o.Violation = fmt.Sprintf("source %s as template %s, engine %s, compiled form loaded via %s (included templates compiled: %v): the engine given the source renders [%s], the engine given the compiled form renders [%s] %s",
			short(src), short(name), c.id, way, helpersCompiled, want, got, strings.Join(notes, "; "))
		o.Detail = map[string]interface{}{"source": src, "name": name, "engine": c.id, "way": way, "helpers_compiled": helpersCompiled, "want": want.String(), "got": got.String()}
	}
	return o
}

func runRD(t *vlib.T) {
	seen := map[string]bool{}
	var srcs []string
	add := func(s string) {
		if !seen[s] {
			seen[s] = true
			srcs = append(srcs, s)
		}
	}
	for _, s := range extraSources {
		add(s)
	}
	for _, c := range corpus {
		add(c)
		add(strings.ReplaceAll(c, " ", ""))
		add(" \n" + c + "\n ") // white space at both ends is part of the source
	}
	nOrig := len(srcs)
	for _, c := range corpus {
		lex := strings.Split(c, " ")
		for i := range lex {
			add(strings.Join(append(append([]string{}, lex[:i]...), lex[i+1:]...), " ")) // deletion
			if t.Thorough() {
				add(strings.Join(append(append(append([]string{}, lex[:i+1]...), lex[i]), lex[i+1:]...), " ")) // duplication
				if i+1 < len(lex) {
					w := append([]string{}, lex...)
					w[i], w[i+1] = w[i+1], w[i]
					add(strings.Join(w, " "))         // swap
					add(strings.Join(lex[:i+1], " ")) // truncation
				}
			}
		}
	}
	for si, src := range srcs {
		for _, c := range cfgs {
			for _, way := range paths {
				for _, hc := range []bool{false, true} {
					if hc && !usesHelpers(src) {
						continue
					}
					// a template that is already cached is not replaced by adding a loader (that is the
					// cache's contract, C15), so "preloaded" has no loader variant
					if c.id == "preloaded" && way == "loader" {
						continue
					}
					for ni, name := range tnames {
						// mutated sources: one name, two configurations (thorough: everything)
						if si >= nOrig && !t.Thorough() && (ni > 0 || (c.id != "default" && c.id != "preloaded")) {
							continue
						}
						if t.Stopped() {
							return
						}
						key := fmt.Sprintf("rd|%s|%s|%v|%s|%s", c.id, way, hc, name, src)
						if len(src) > 200 {
							key = fmt.Sprintf("rd|%s|%s|%v|%s|#%d:%d:%s", c.id, way, hc, name, si, len(src), src[len(src)-60:])
						}
						src, c, way, hc, name := src, c, way, hc, name
						t.Case(key, func() *vlib.Outcome { return rdCase(src, c, way, hc, name) })
					}
				}
			}
		}
	}
}

func main() {
	vlib.Main(vlib.Spec{
		ID: "C16", Level: "exploration",
		Rule: "bounded-exhaustive: (rt) the full product of 15 names x 19 sources x 7 LastModified x 4 CompileTime x 5 AST sections (lengths 0, 1, 255, 256, 257, 4096, 4097, 65535, 65536, 65537, 70000, 1 MiB, thorough also 2^24-1, 2^24, 2^24+1, 64 MiB; all 256 byte values, NUL, non-UTF-8, '/', data that looks like a serialisation) through Serialize -> Deserialize with a second value serialised in between; (rd) every corpus source (spaced and tight) and every single-lexeme mutation of it x 5 engine configurations x 5 ways of loading the compiled form x included templates source/compiled x 3 names, rendered on 3 contexts and compared with an engine given the source; (hist) every sequence of 2-4 (thorough 5) serialisations over 8 sizes with all results held; (sv) every history of 2 or 3 different versions of one template name (4 sources, neighbours differ) saved by CompiledLoader.SaveCompiled into ONE directory x 3 ways the first version reaches the engine x 14 ways per later version (RegisterString again / new engine with a time-reporting loader / loader without times; template modification time older, equal, newer than the existing file's or zero; file left as written or moved in time with os.Chtimes) x 2 names (quick: 3-version histories under one name) - after every save the file, CompiledLoader.Load and two fresh engines on the directory must give the version saved last; (al) the compiled bytes lie in a buffer of the caller that is overwritten after loading: 3 ways of loading (Deserialize then register afterwards / Deserialize + Register / LoadFromCompiledData on two engines) x overwritten at once or after a first render x 5 overwrites (zero, '#', complement, shifted by one byte, the next compiled file of the same size) x 3 source shapes (text only, tags at start/middle/end, dense tags) x source sizes 10, 4095, 4096, 4097, 8192, 65536 (thorough 13 sizes up to 1 MiB) x name sizes short, 4095, 4096, 8192 (thorough also 4097, 65536) - afterwards the deserialised value must still hold name, source and both timestamps, and the engine must render the three contexts like the source and compile back to the source; (alseq) ONE read buffer for several compiled files in a row, nothing overwritten on purpose: every sequence of 2-3 (thorough 4) files over those six sizes x Deserialize / LoadFromCompiledData x short / 4096+i-byte names, everything held and checked after the last file; (alldr) the same sequences written by CompiledLoader.SaveCompiled and read back by ONE CompiledLoader value and one engine; (mg) values that carry the magic numbers of compression / container formats and of the compiled format itself: 49 signatures (gzip 1f 8b bare / 3 bytes / valid header / complete streams of OTHER template text at two levels, with a file name, of the empty string, of 5000 bytes, cut short, doubled; zlib 78 01/5e/9c/da and a complete stream, a raw deflate stream; zstd magic, skippable frame, empty and complete frame; bzip2 BZh, block magic, empty and complete stream; xz, lz4, snappy, compress, lzip, zip, 7z signatures and complete xz / lz4 streams; byte order marks; this library's version byte 01 / 00 / 02, a complete, a cut and a version-2 compiled file, a bare length prefix; the old gob encoding of a compiled template, its type header, the gob AST section) x position (the whole value / at the start / in the middle / at the end) x filling (compressible text with print tags / incompressible noise with print tags) x total size (short, 1023, 1024, 1025, 5000, 70000; thorough 16 sizes 255 ... 1 MiB, the last through the round trip only) x where (source / name / both) x {Serialize -> Deserialize field-wise with 2 timestamp patterns; render twins via LoadFromCompiledData, Deserialize + Register, Template.SaveCompiled, the compiled loader's file (names a directory entry can hold) on the default engine (thorough: 4 configurations)}; (ru) ONE *CompiledTemplate value registered more than once: every ordered sequence of 2 or 3 different engines out of 4 (differing in a global, a custom filter and function, strict variables, the templates include / extends / import resolve to; two configured alike) x 9 sources x 3 origins of the value (CompileTemplate, Deserialize, hand-built struct), every engine compared with an identically configured engine given the source after all registrations; and every history of 2 or 3 (name, source) pairs (2 names x 3 sources, neighbours differ) written into the value's exported fields between registrations on one engine x 3 origins x 2 engines, compared after every registration with an engine given the same pairs by RegisterString. Non-trivial = rt: name or source non-empty; rd: the source parses and at least one of the three reference renders succeeds (so output bytes are compared, not just error-ness); hist and sv: every case (each holds >= 2 results / overwrites a file at least once); al: at least one reference render succeeds and the overwrite changed the buffer (asserted); alseq and alldr: every case (>= 2 files through one buffer / loader); ru: at least one reference render succeeds (every case registers one value >= 2 times); mg: rt every case (the value is never empty), rd as above",
		Assumptions: []string{
			"sources and names of 4 GiB and more (beyond the 32-bit length prefix) are not explored",
			"the error TEXT of a failing render / registration is not compared, only that both sides fail",
			"registration on an engine whose cache is switched off is a no-op for source and compiled templates alike and is left out (C15 treats it as unspecified)",
			"mg family: a name that holds NUL or a path separator or is longer than 200 bytes is not taken through the compiled loader's file (no directory entry can hold it); the other three loading paths and the round trip get every name",
			"names with a path separator are saved by the compiled loader only into an existing sub-directory (the check creates it); saving into a missing one returns an error and writes no file, which the statement does not cover",
			"CompileTime of a file written by CompiledLoader.SaveCompiled is the wall clock and is not compared",
			"aliasing families: the AST section of a deserialised value is not looked at after the caller's buffer was overwritten (the statement names name, source and timestamps; whether that byte slice may share memory with the input is left open); that deserialising leaves the caller's bytes untouched is only demanded as far as 'the same bytes load on a second engine'; concurrent use of the buffer is not generated",
			"save histories: an unchanged source saved twice, an engine with auto-reload whose loader changes under it (what the engine holds then is C15's subject) and concurrent saves are not generated; modification times are steered with os.Chtimes and harness loaders, never by waiting",
		},
		QuickDeadline: 150, ThoroughDeadline: 840,
		Run: func(t *vlib.T) {
			// C16_FAMILIES=rd,rt,mg,al,alseq,hist,sv,ru restricts a development run to some families
			// (alseq includes alldr); unset = everything, which is what run.sh does
			want := func(f string) bool {
				v := os.Getenv("C16_FAMILIES")
				return v == "" || strings.Contains(","+v+",", ","+f+",")
			}
			for _, f := range []struct {
				id  string
				run func(*vlib.T)
			}{{"rd", runRD}, {"rt", runRT}, {"mg", runMagic}, {"al", runAlias}, {"alseq", runAliasSeq}, {"hist", runHist}, {"sv", runSave}, {"ru", runReuse}} {
				if want(f.id) {
					f.run(t)
				}
			}
		},
	})
}
