package main

// Aliasing between the byte slice a caller hands to DeserializeCompiledTemplate /
// LoadFromCompiledData and what comes out of it (families "al", "alseq", "alldr").
//
// The bytes belong to the caller: a read buffer that is filled with the next file, a pooled slice,
// a mapping that goes away. What was deserialised from them (name, source, timestamps) and the
// template that was registered from them must stay what they were when the caller goes on using its
// slice — "reproduces name, source and timestamps exactly" and "renders exactly like the original
// source" have no "until the caller touches its buffer again" in them.
//
//	al     ONE blob in a buffer of the caller: way of loading x when the buffer is overwritten x how
//	       it is overwritten x shape of the source x source size x name size. After the overwrite the
//	       deserialised value is compared field by field with what was serialised, the registered
//	       template is rendered on the three contexts and compiled again.
//	alseq  the reverse direction — nothing is overwritten on purpose, the caller simply keeps ONE
//	       read buffer for several compiled files in a row: every sequence of 2-3 (thorough 4) blobs
//	       over the size alphabet x way x name size; everything is held and checked at the end.
//	alldr  the same through the library's own read path: the files are written with
//	       CompiledLoader.SaveCompiled into one directory and read back by ONE CompiledLoader value
//	       and one engine, one after the other; the sources it handed out and the templates the
//	       engine loaded are checked after the last one.
//
// Sizes lie on both sides of 4096 (the size from which the library's tokenizers switch strategy and
// from which the independent seeded change C16-G stopped copying) and of 65536.
//
// Added after C16-G was missed: every earlier family handed the library a slice that was never
// written to again.

import (
	"bytes"
	"fmt"
	"os"
	"path/filepath"
	"strings"

	"github.com/semihalev/twig"

	"verif/lib/vlib"
)

// ---------------------------------------------------------------------------------------------
// alphabet

func alSrcSizes(thorough bool) []int {
	if thorough {
		return []int{1, 10, 4094, 4095, 4096, 4097, 4098, 8192, 12288, 65535, 65536, 65537, 1 << 20}
	}
	return []int{10, 4095, 4096, 4097, 8192, 65536}
}

// sizes of the sequences (alseq, alldr)
func alSeqSizes(thorough bool) []int {
	return []int{10, 4095, 4096, 4097, 8192, 65536}
}

// name sizes: 0 stands for the short name
func alNameSizes(thorough bool) []int {
	if thorough {
		return []int{0, 4095, 4096, 4097, 8192, 65536}
	}
	return []int{0, 4095, 4096, 8192}
}

var alShapes = []string{"text", "mix", "dense"}

// ways of loading one blob
//
//	deser      back = Deserialize(buf); [overwrite]; back is compared; back is registered AFTERWARDS
//	deser-reg  back = Deserialize(buf); RegisterCompiledTemplate(back); [overwrite]; both are compared
//	data       LoadFromCompiledData(buf) on two engines in turn; [overwrite]
var alWays = []string{"deser", "deser-reg", "data"}

// when the buffer is overwritten: right after loading, or after the template has been rendered once
var alWhens = []string{"at-once", "after-render"}

// how the buffer is overwritten
//
//	zero    every byte 0
//	hash    every byte '#'
//	invert  every byte complemented
//	shift   the content moved up by one byte (what a reader does that compacts its buffer)
//	next    another compiled template of the same sizes is copied in (the next file of the same size)
var alClobbers = []string{"zero", "hash", "invert", "shift", "next"}

// alFiller: n bytes of text without template syntax whose content depends on the position in the
// string and on seed, so that a shifted, swapped or partly overwritten copy never looks right.
func alFiller(seed, n int) string {
	if n <= 0 {
		return ""
	}
	const alpha = "abcdefghijklmnopqrstuvwxyzABCDEFGHIJKLMNOPQRSTUVWXYZ0123456789 .,;:!?\n"
	var sb strings.Builder
	sb.Grow(n + 16)
	for i := 0; sb.Len() < n; i++ {
		if i%61 == 0 {
			fmt.Fprintf(&sb, "<%d/%d>", seed, i)
			continue
		}
		sb.WriteByte(alpha[(i*7+seed*13)%len(alpha)])
	}
	return sb.String()[:n]
}

// alSource: a source of exactly n bytes.
//
//	text   no tag at all (the render is the source)
//	mix    a tag at the very start, one in the middle, one at the very end, text in between
//	dense  print tags one after the other, text only as padding at the end
func alSource(shape string, seed, n int) string {
	head := "{{ x.s }}"
	if n < len(head) {
		return alFiller(seed, n)
	}
	switch shape {
	case "text":
		return alFiller(seed, n)
	case "mix":
		mid, tail := "{% if y %}Y{{ y.s }}{% else %}N{% endif %}", "{{ z is empty ? 'e' : 'n' }}"
		if n < len(head)+len(mid)+len(tail)+2 {
			return head + alFiller(seed, n-len(head))
		}
		room := n - len(head) - len(mid) - len(tail)
		return head + alFiller(seed, room/2) + mid + alFiller(seed+1, room-room/2) + tail
	case "dense":
		unit := "{{ x.s }}-{{ z }},"
		k := n / len(unit)
		if k > 600 { // keep the number of nodes moderate; the rest is text
			k = 600
		}
		s := strings.Repeat(unit, k)
		return s + alFiller(seed, n-len(s))
	}
	panic("unknown shape " + shape)
}

// alName: the short name, or a name of exactly n bytes (path-like, distinct per seed).
func alName(seed, n int) string {
	short := fmt.Sprintf("t%d", seed)
	if n == 0 {
		return short
	}
	s := short + "/" + strings.ReplaceAll(strings.ReplaceAll(alFiller(seed+100, n), "\n", "_"), "/", "-")
	return s[:n]
}

func alClass(n int) string {
	if n < 4096 {
		return "<4096"
	}
	if n < 65536 {
		return "<2^16"
	}
	return ">=2^16"
}

// alRef: what an engine that was given the SOURCE renders (twice, to be sure the source has one
// rendering), and whether the source registers at all.
func alRef(name, src string) (want result, ok bool) {
	mk := func() result {
		e := twig.New()
		if e.RegisterString(name, src) != nil {
			return result{regErr: true}
		}
		return renderAll(e, name)
	}
	want = mk()
	return want, want == mk()
}

func alOKRenders(r result) int {
	if r.regErr {
		return 0
	}
	n := 0
	for _, e := range r.err {
		if !e {
			n++
		}
	}
	return n
}

// alBlob: the compiled form of (name, src) as CompileTemplate on a throw-away engine gives it, with
// both timestamps set to values with eight different bytes, serialised.
func alBlob(name, src string, seed int) (*twig.CompiledTemplate, []byte, error) {
	ct, _ := compileOn(name, src)
	ct = &twig.CompiledTemplate{Name: ct.Name, Source: ct.Source, AST: ct.AST,
		LastModified: 0x0102030405060708 + int64(seed), CompileTime: 0x1112131415161718 + int64(seed)}
	if ct.Name != name || ct.Source != src {
		return nil, nil, fmt.Errorf("CompileTemplate returned name %s source %s for name %s source %s", short(ct.Name), short(ct.Source), short(name), short(src))
	}
	blob, err := twig.SerializeCompiledTemplate(ct)
	return ct, blob, err
}

func alDiff(what string, got *twig.CompiledTemplate, name, src string, lm, ctime int64, withCompileTime bool) string {
	switch {
	case got.Name != name:
		return fmt.Sprintf("%s: the name is now %s (%d bytes), it was %s (%d bytes; first difference at byte %d)", what, short(got.Name), len(got.Name), short(name), len(name), firstDiff(got.Name, name))
	case got.Source != src:
		d := firstDiff(got.Source, src)
		return fmt.Sprintf("%s: the source (%d bytes) is no longer the source that was serialised (%d bytes): first difference at byte %d, now %s, was %s", what, len(got.Source), len(src), d, short(tailFrom(got.Source, d)), short(tailFrom(src, d)))
	case got.LastModified != lm:
		return fmt.Sprintf("%s: LastModified is now %d, it was %d", what, got.LastModified, lm)
	case withCompileTime && got.CompileTime != ctime:
		return fmt.Sprintf("%s: CompileTime is now %d, it was %d", what, got.CompileTime, ctime)
	}
	return ""
}

func firstDiff(a, b string) int {
	n := len(a)
	if len(b) < n {
		n = len(b)
	}
	for i := 0; i < n; i++ {
		if a[i] != b[i] {
			return i
		}
	}
	return n
}

func tailFrom(s string, i int) string {
	if i > len(s) {
		i = len(s)
	}
	return s[i:]
}

// alCheckEngine: the template the engine holds under name renders like the source and compiles
// back to the source.
func alCheckEngine(o *vlib.Outcome, what string, e *twig.Engine, name, src string, lm int64, want result) string {
	return alCheckEngineLM(o, what, e, name, src, lm, true, want)
}

// withLM=false: the template came through a loader, its LastModified is the file's time
func alCheckEngineLM(o *vlib.Outcome, what string, e *twig.Engine, name, src string, lm int64, withLM bool, want result) string {
	o.Counters["renders_compared"] += 3
	if got := renderAll(e, name); got != want {
		return fmt.Sprintf("%s: the engine given the source renders [%s], the engine given the compiled bytes renders [%s]", what, want, got)
	}
	again, err := e.CompileTemplate(name)
	if err != nil {
		return fmt.Sprintf("%s: compiling the loaded template again failed: %v", what, err)
	}
	if !withLM {
		lm = again.LastModified
	}
	return alDiff(what+", compiled again", again, name, src, lm, 0, false)
}

// ---------------------------------------------------------------------------------------------
// al: one blob, the caller's buffer is overwritten

func runAlias(t *vlib.T) {
	for _, ssz := range alSrcSizes(t.Thorough()) {
		for _, nsz := range alNameSizes(t.Thorough()) {
			for _, shape := range alShapes {
				for _, way := range alWays {
					for _, when := range alWhens {
						for _, clob := range alClobbers {
							if t.Stopped() {
								return
							}
							key := fmt.Sprintf("al|%s|%s|%s|%s|src%d|name%d", way, when, clob, shape, ssz, nsz)
							ssz, nsz, shape, way, when, clob := ssz, nsz, shape, way, when, clob
							t.Case(key, func() *vlib.Outcome { return alCase(way, when, clob, shape, ssz, nsz) })
						}
					}
				}
			}
		}
	}
}

func alClobber(buf []byte, how string, next []byte) {
	switch how {
	case "zero":
		for i := range buf {
			buf[i] = 0
		}
	case "hash":
		for i := range buf {
			buf[i] = '#'
		}
	case "invert":
		for i := range buf {
			buf[i] = ^buf[i]
		}
	case "shift":
		copy(buf[1:], buf)
	case "next":
		copy(buf[:cap(buf)], next)
	default:
		panic("unknown clobber " + how)
	}
}

func alCase(way, when, clob, shape string, ssz, nsz int) *vlib.Outcome {
	o := &vlib.Outcome{Counters: map[string]int64{}}
	name, src := alName(1, nsz), alSource(shape, 1, ssz)
	o.Class = fmt.Sprintf("al:%s,%s,src%s,name%s", way, when, alClass(len(src)), alClass(len(name)))
	fail := func(f string, a ...interface{}) *vlib.Outcome {
		o.Violation = fmt.Sprintf("compiled form of a %d-byte %s source %s under a %d-byte name, handed over in a buffer of the caller via %s; the caller then overwrites its buffer (%s, %s): ", len(src), shape, short(src), len(name), way, clob, when) + fmt.Sprintf(f, a...)
		o.Detail = map[string]interface{}{"way": way, "when": when, "clobber": clob, "shape": shape, "source_bytes": len(src), "name_bytes": len(name)}
		return o
	}
	want, stable := alRef(name, src)
	if !stable || want.regErr {
		panic("harness: the aliasing family uses a source without a single rendering")
	}
	o.Nontrivial = alOKRenders(want) > 0
	ct, blob, err := alBlob(name, src, 1)
	if err != nil {
		return fail("preparing the compiled form failed: %v", err)
	}
	// the next file of the same size: same sizes, other content, other name
	var next []byte
	if clob == "next" {
		_, nb, err := alBlob(alName(2, nsz), alSource(shape, 2, ssz), 2)
		if err != nil {
			return fail("preparing the compiled form of the next file failed: %v", err)
		}
		next = nb
	}

	room := make([]byte, max(len(blob), len(next))) // the caller's buffer
	buf := room[:copy(room, blob)]

	var back *twig.CompiledTemplate
	var engines []*twig.Engine
	switch way {
	case "deser", "deser-reg":
		back, err = twig.DeserializeCompiledTemplate(buf)
		if err != nil {
			return fail("DeserializeCompiledTemplate failed: %v", err)
		}
		if way == "deser-reg" {
			e := twig.New()
			if err := e.RegisterCompiledTemplate(back); err != nil {
				return fail("RegisterCompiledTemplate failed: %v", err)
			}
			engines = append(engines, e)
		}
	case "data":
		// the same bytes go to two engines, one after the other
		for i := 0; i < 2; i++ {
			e := twig.New()
			if err := e.LoadFromCompiledData(buf); err != nil {
				return fail("LoadFromCompiledData on engine %d failed: %v", i+1, err)
			}
			engines = append(engines, e)
		}
	}
	if when == "after-render" {
		if way == "deser" { // nothing registered yet: register a twin deserialised from the same buffer
			b2, err := twig.DeserializeCompiledTemplate(buf)
			if err != nil {
				return fail("DeserializeCompiledTemplate (second time) failed: %v", err)
			}
			e := twig.New()
			if err := e.RegisterCompiledTemplate(b2); err != nil {
				return fail("RegisterCompiledTemplate failed: %v", err)
			}
			engines = append(engines, e)
		}
		for i, e := range engines {
			o.Counters["renders_compared"] += 3
			if got := renderAll(e, name); got != want {
				return fail("BEFORE the buffer is touched engine %d renders [%s], the engine given the source renders [%s]", i+1, got, want)
			}
		}
	}

	before := bytes.Clone(buf)
	alClobber(buf, clob, next)
	if bytes.Equal(before, buf) {
		panic("harness: the overwrite did not change the buffer")
	}

	if back != nil {
		if d := alDiff("the value DeserializeCompiledTemplate returned", back, name, src, ct.LastModified, ct.CompileTime, true); d != "" {
			return fail("%s", d)
		}
		if way == "deser" {
			e := twig.New()
			if err := e.RegisterCompiledTemplate(back); err != nil {
				return fail("RegisterCompiledTemplate of the deserialised value (after the overwrite) failed: %v", err)
			}
			engines = append(engines, e)
		}
	}
	for i, e := range engines {
		if d := alCheckEngine(o, fmt.Sprintf("engine %d", i+1), e, name, src, ct.LastModified, want); d != "" {
			return fail("%s", d)
		}
	}
	if clob == "next" {
		// the buffer now holds the next file: it loads as that file, and the first template is still itself
		n2, s2 := alName(2, nsz), alSource(shape, 2, ssz)
		want2, _ := alRef(n2, s2)
		e := engines[0]
		if err := e.LoadFromCompiledData(room[:len(next)]); err != nil {
			return fail("LoadFromCompiledData of the next file (same buffer) failed: %v", err)
		}
		if d := alCheckEngine(o, "the next file loaded from the same buffer", e, n2, s2, 0x0102030405060708+2, want2); d != "" {
			return fail("%s", d)
		}
		if d := alCheckEngine(o, "the first template after the next file was loaded from the same buffer", e, name, src, ct.LastModified, want); d != "" {
			return fail("%s", d)
		}
	}
	return o
}

// ---------------------------------------------------------------------------------------------
// alseq: one read buffer, several compiled files in a row

var alSeqWays = []string{"deser", "data"}

func runAliasSeq(t *vlib.T) {
	sizes := alSeqSizes(t.Thorough())
	maxLen := 3
	if t.Thorough() {
		maxLen = 4
	}
	for n := 2; n <= maxLen; n++ { // simplest first
		var rec func(seq []int)
		rec = func(seq []int) {
			if t.Stopped() {
				return
			}
			if len(seq) == n {
				s := append([]int{}, seq...)
				for _, bigNames := range []bool{false, true} {
					bigNames := bigNames
					for _, way := range alSeqWays {
						way := way
						t.Case(fmt.Sprintf("alseq|%s|bignames=%v|%v", way, bigNames, sizesIn(sizes, s)), func() *vlib.Outcome {
							return alSeqCase(t, way, bigNames, sizesIn(sizes, s))
						})
					}
					t.Case(fmt.Sprintf("alldr|nested=%v|%v", bigNames, sizesIn(sizes, s)), func() *vlib.Outcome {
						return alLoaderCase(t, bigNames, sizesIn(sizes, s))
					})
				}
				return
			}
			for i := range sizes {
				rec(append(seq, i))
			}
		}
		rec(nil)
	}
}

func sizesIn(alphabet []int, seq []int) []int {
	out := make([]int, len(seq))
	for i, s := range seq {
		out[i] = alphabet[s]
	}
	return out
}

type alItem struct {
	name, src string
	ct        *twig.CompiledTemplate
	blob      []byte
	want      result
	back      *twig.CompiledTemplate
}

// alItems: template #i of a sequence has source size sizes[i], shape by position, a short name or
// a name of 4096+i bytes, and content that depends on i.
func alItems(sizes []int, bigNames bool) ([]*alItem, error) {
	var items []*alItem
	for i, n := range sizes {
		nsz := 0
		if bigNames {
			nsz = 4096 + i
		}
		it := &alItem{name: alName(10+i, nsz), src: alSource(alShapes[(i+1)%len(alShapes)], 10+i, n)}
		var stable bool
		it.want, stable = alRef(it.name, it.src)
		if !stable || it.want.regErr {
			panic("harness: the aliasing family uses a source without a single rendering")
		}
		var err error
		it.ct, it.blob, err = alBlob(it.name, it.src, 10+i)
		if err != nil {
			return nil, err
		}
		items = append(items, it)
	}
	return items, nil
}

func alSeqCase(t *vlib.T, way string, bigNames bool, sizes []int) *vlib.Outcome {
	o := &vlib.Outcome{Nontrivial: true, Counters: map[string]int64{}}
	o.Class = fmt.Sprintf("alseq:%s,len%d,bignames=%v,first%s,last%s", way, len(sizes), bigNames, alClass(sizes[0]), alClass(sizes[len(sizes)-1]))
	fail := func(f string, a ...interface{}) *vlib.Outcome {
		o.Violation = fmt.Sprintf("compiled files with sources of %v bytes (names of 4096+ bytes: %v) read one after the other into ONE buffer of the caller and handed over via %s: ", sizes, bigNames, way) + fmt.Sprintf(f, a...)
		o.Detail = map[string]interface{}{"way": way, "big_names": bigNames, "source_bytes": sizes}
		return o
	}
	items, err := alItems(sizes, bigNames)
	if err != nil {
		return fail("preparing the compiled forms failed: %v", err)
	}
	maxLen := 0
	for _, it := range items {
		if len(it.blob) > maxLen {
			maxLen = len(it.blob)
		}
	}
	rbuf := make([]byte, maxLen) // the read buffer, as large as the largest file
	e := twig.New()
	for i, it := range items {
		t.Progress()
		n := copy(rbuf, it.blob) // "read the file"
		data := rbuf[:n]
		switch way {
		case "deser":
			it.back, err = twig.DeserializeCompiledTemplate(data)
			if err != nil {
				return fail("DeserializeCompiledTemplate of file #%d failed: %v", i+1, err)
			}
		case "data":
			if err := e.LoadFromCompiledData(data); err != nil {
				return fail("LoadFromCompiledData of file #%d failed: %v", i+1, err)
			}
		}
	}
	// only now everything is looked at
	for i, it := range items {
		t.Progress()
		if it.back != nil {
			if d := alDiff(fmt.Sprintf("the value deserialised from file #%d, after %d more files went through the buffer", i+1, len(items)-1-i), it.back, it.name, it.src, it.ct.LastModified, it.ct.CompileTime, true); d != "" {
				return fail("%s", d)
			}
			if err := e.RegisterCompiledTemplate(it.back); err != nil {
				return fail("RegisterCompiledTemplate of the value from file #%d failed: %v", i+1, err)
			}
		}
	}
	for i, it := range items {
		t.Progress()
		if d := alCheckEngine(o, fmt.Sprintf("template of file #%d, after %d more files went through the buffer", i+1, len(items)-1-i), e, it.name, it.src, it.ct.LastModified, it.want); d != "" {
			return fail("%s", d)
		}
	}
	return o
}

// ---------------------------------------------------------------------------------------------
// alldr: the library's own read path, one CompiledLoader for several files in a row

func alTempDir(prefix string) string {
	base := vlib.Scratch() // removed by the parent even when this worker is killed
	if base == "" {
		base = svTempBase()
	}
	d, err := os.MkdirTemp(base, prefix)
	if err != nil {
		panic("harness: " + err.Error())
	}
	return d
}

func alLoaderCase(t *vlib.T, nested bool, sizes []int) *vlib.Outcome {
	o := &vlib.Outcome{Nontrivial: true, Counters: map[string]int64{}}
	o.Class = fmt.Sprintf("alldr:len%d,nested=%v,first%s,last%s", len(sizes), nested, alClass(sizes[0]), alClass(sizes[len(sizes)-1]))
	fail := func(f string, a ...interface{}) *vlib.Outcome {
		o.Violation = fmt.Sprintf("templates with sources of %v bytes saved by CompiledLoader.SaveCompiled into one directory and read back one after the other by ONE CompiledLoader and one engine: ", sizes) + fmt.Sprintf(f, a...)
		o.Detail = map[string]interface{}{"nested_names": nested, "source_bytes": sizes}
		return o
	}
	dir := alTempDir("verif-c16-al-")
	defer os.RemoveAll(dir)
	// a path is limited to 4096 bytes and a component to 255, so names of 4096 bytes cannot reach a
	// file; the name dimension here is flat and short / nested with a 200-byte last component
	type ent struct {
		name, src string
		want      result
		handed    string
	}
	var ents []*ent
	src0 := twig.New()
	for i, n := range sizes {
		name := fmt.Sprintf("t%d", i)
		if nested {
			name = strings.Repeat(fmt.Sprintf("d%d/", i), 8) + rep("n", 200) // 224 bytes, 8 levels
		}
		en := &ent{name: name, src: alSource(alShapes[(i+1)%len(alShapes)], 20+i, n)}
		var stable bool
		en.want, stable = alRef(en.name, en.src)
		if !stable || en.want.regErr {
			panic("harness: the aliasing family uses a source without a single rendering")
		}
		if err := src0.RegisterString(en.name, en.src); err != nil {
			return fail("RegisterString failed: %v", err)
		}
		if err := os.MkdirAll(filepath.Dir(filepath.Join(dir, en.name)), 0o755); err != nil {
			panic("harness: " + err.Error())
		}
		ents = append(ents, en)
	}
	w := twig.NewCompiledLoader(dir)
	for i, en := range ents {
		t.Progress()
		if err := w.SaveCompiled(src0, en.name); err != nil {
			return fail("SaveCompiled of template #%d failed: %v", i+1, err)
		}
		o.Counters["saves"]++
	}
	// one loader, one engine, one file after the other; everything is held
	r := twig.NewCompiledLoader(dir)
	e := twig.New()
	e.RegisterLoader(r)
	for i, en := range ents {
		t.Progress()
		var err error
		if en.handed, err = r.Load(en.name); err != nil {
			return fail("CompiledLoader.Load of file #%d failed: %v", i+1, err)
		}
		if _, err := e.Load(en.name); err != nil {
			return fail("the engine cannot load template #%d through the loader: %v", i+1, err)
		}
	}
	for i, en := range ents {
		t.Progress()
		if en.handed != en.src {
			d := firstDiff(en.handed, en.src)
			return fail("the source CompiledLoader.Load handed out for file #%d is, after %d more files were read, no longer the source that was saved (first difference at byte %d: now %s, was %s)", i+1, len(ents)-1-i, d, short(tailFrom(en.handed, d)), short(tailFrom(en.src, d)))
		}
		if d := alCheckEngineLM(o, fmt.Sprintf("template of file #%d, after %d more files were read", i+1, len(ents)-1-i), e, en.name, en.src, 0, false, en.want); d != "" {
			return fail("%s", d)
		}
	}
	return o
}
