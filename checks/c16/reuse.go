package main

// Reuse family (ru): ONE *CompiledTemplate value is handed to RegisterCompiledTemplate more than
// once. "Registering the result on ANY engine gives a template that renders exactly like the
// original source" is demanded per engine, so the value must not carry anything of the engine it
// was registered on first (a memoised template, an environment, resolved includes) to the next one.
//
//	rue  the same value on every ordered sequence of 2 or 3 different engines out of 4 that differ in
//	     what the template touches (a global, a custom filter, a custom function, strict variables,
//	     the templates include / extends / import resolve to); after all registrations every engine
//	     must render like an identically configured engine that was given the source.
//	rum  the same value registered on one engine, its exported Name / Source fields changed, and
//	     registered again (1 or 2 changes); the engine must then hold what an engine holds that was
//	     given the same (name, source) pairs by RegisterString in the same order.
//
// Added after the independent seeded change C16-K (RegisterCompiledTemplate memoises the loaded
// template inside the CompiledTemplate value) was missed: every earlier case built a fresh value
// per registration.

import (
	"fmt"
	"strings"

	"github.com/semihalev/twig"

	"verif/lib/vlib"
)

var ruSources = []named{
	{"plain", "plain {{ v }}"},
	{"global", "g={{ site }}"},
	{"filter", "f={{ v|mark }}"},
	{"func", "fn={{ tagof(v) }}"},
	{"undef", "u={{ nope }}"},
	{"include", "i={% include 'part' %}"},
	{"extends", "{% extends 'rbase' %}{% block b %}c{{ v }}+{{ parent() }}{% endblock %}"},
	{"import", "{% import 'rlib' as l %}m={{ l.m(v) }}"},
	{"all", "{{ site }}:{% include 'part' %}:{{ v|mark }}:{{ tagof(1) }}"},
}

var ruCtxs = []map[string]interface{}{{"v": "n"}, {"v": 7, "site": "ctx-site"}, nil}

// ruEngines: the configurations. A and D are configured identically on purpose (reuse on an equal
// engine must work as well); B differs in everything; C differs in the helper templates and strictness only.
var ruEngines = []string{"A", "B", "C", "D"}

func ruNewEngine(id string) *twig.Engine {
	e := twig.New()
	tag := id
	if id == "D" {
		tag = "A"
	}
	ftag := tag
	if id == "C" {
		ftag = "A"
		e.SetStrictVars(true)
	}
	e.AddGlobal("site", "site-"+ftag)
	e.AddFilter("mark", func(v interface{}, args ...interface{}) (interface{}, error) {
		return fmt.Sprintf("%s(%v)", ftag, v), nil
	})
	e.AddFunction("tagof", func(args ...interface{}) (interface{}, error) {
		return fmt.Sprintf("%s<%v>", ftag, args), nil
	})
	e.RegisterString("part", "part-"+tag+"{{ v }}")
	e.RegisterString("rbase", "<"+tag+"{% block b %}B"+tag+"{% endblock %}>")
	e.RegisterString("rlib", "{% macro m(a) %}["+tag+"{{ a }}]{% endmacro %}")
	return e
}

type ruResult struct {
	out [3]string
	err [3]bool
}

func (r ruResult) String() string {
	var p []string
	for i := range r.out {
		if r.err[i] {
			p = append(p, "error")
		} else {
			p = append(p, short(r.out[i]))
		}
	}
	return strings.Join(p, " | ")
}

func ruRender(e *twig.Engine, name string) (r ruResult) {
	for i, c := range ruCtxs {
		out, err := e.Render(name, c)
		if err != nil {
			r.err[i] = true
		} else {
			r.out[i] = out
		}
	}
	return r
}

// ruValue: how the one value is obtained.
var ruOrigins = []string{"compile", "deser", "struct"}

func ruValue(origin, name, src string) (*twig.CompiledTemplate, error) {
	switch origin {
	case "struct": // a value built by hand (a plain struct with exported fields), no AST section
		return &twig.CompiledTemplate{Name: name, Source: src, LastModified: 5, CompileTime: 6}, nil
	}
	e := ruNewEngine("A")
	if err := e.RegisterString(name, src); err != nil {
		return nil, err
	}
	c, err := e.CompileTemplate(name)
	if err != nil {
		return nil, err
	}
	if origin == "compile" {
		return c, nil
	}
	data, err := twig.SerializeCompiledTemplate(c)
	if err != nil {
		return nil, err
	}
	return twig.DeserializeCompiledTemplate(data)
}

func ruEngineCase(src named, origin string, seq []string) *vlib.Outcome {
	o := &vlib.Outcome{Counters: map[string]int64{}}
	const name = "page"
	val, err := ruValue(origin, name, src.s)
	if err != nil {
		o.Violation = fmt.Sprintf("reuse: source %q could not be compiled (%s): %v", src.s, origin, err)
		return o
	}
	engines := make([]*twig.Engine, len(seq))
	for i, id := range seq {
		engines[i] = ruNewEngine(id)
		if err := engines[i].RegisterCompiledTemplate(val); err != nil {
			o.Violation = fmt.Sprintf("reuse: source %q (%s): registering the same compiled value on engine %s (registration %d of %v) failed: %v", src.s, origin, id, i+1, seq, err)
			return o
		}
	}
	if val.Name != name || val.Source != src.s {
		o.Violation = fmt.Sprintf("reuse: source %q (%s): registering changed the compiled value's name / source to %q / %q", src.s, origin, val.Name, val.Source)
		return o
	}
	ok, distinct := 0, map[string]bool{}
	// all registrations first, all renders afterwards (and then once more in reverse order)
	order := make([]int, 0, 2*len(seq))
	for i := range seq {
		order = append(order, i)
	}
	for i := len(seq) - 1; i >= 0; i-- {
		order = append(order, i)
	}
	for _, i := range order {
		ref := ruNewEngine(seq[i])
		if err := ref.RegisterString(name, src.s); err != nil {
			o.Violation = fmt.Sprintf("reuse: source %q does not register on the reference engine %s: %v", src.s, seq[i], err)
			return o
		}
		want, got := ruRender(ref, name), ruRender(engines[i], name)
		o.Counters["renders_compared"] += 3
		for k := range want.err {
			if !want.err[k] {
				ok++
				distinct[want.out[k]] = true
			}
		}
		if got != want {
			o.Violation = fmt.Sprintf("reuse: source %q; ONE compiled value (%s) registered on engines %v in this order; engine %s (registration %d) given the source renders [%s], the engine given the compiled value renders [%s]",
				src.s, origin, seq, seq[i], i+1, want, got)
			o.Detail = map[string]interface{}{"source": src.s, "origin": origin, "engines": seq, "engine": seq[i], "want": want.String(), "got": got.String()}
			return o
		}
	}
	o.Nontrivial = ok > 0
	o.Class = fmt.Sprintf("rue:%s:n=%d,distinct-outputs>1=%v", origin, len(seq), len(distinct) > 3)
	return o
}

// ---- rum: fields changed between registrations

type ruVersion struct{ name, src string }

var ruNames = []string{"one", "two"}
var ruMutSources = []string{"first {{ v }}", "second {{ v }}{{ site }}", "{% include 'part' %}third"}

func ruMutCase(origin, engine string, vs []ruVersion) *vlib.Outcome {
	o := &vlib.Outcome{Counters: map[string]int64{}}
	desc := fmt.Sprintf("%v", vs)
	val, err := ruValue(origin, vs[0].name, vs[0].src)
	if err != nil {
		o.Violation = fmt.Sprintf("reuse: %s could not be compiled (%s): %v", desc, origin, err)
		return o
	}
	tw, ref := ruNewEngine(engine), ruNewEngine(engine)
	for i, v := range vs {
		if i > 0 {
			if v.src != val.Source {
				// the AST section belongs to the old source; a caller who replaces the source drops it
				val.AST = nil
			}
			val.Name, val.Source = v.name, v.src
		}
		if err := tw.RegisterCompiledTemplate(val); err != nil {
			o.Violation = fmt.Sprintf("reuse: one compiled value (%s) taking the (name, source) pairs %s on engine %s: registration %d failed: %v", origin, desc, engine, i+1, err)
			return o
		}
		if err := ref.RegisterString(v.name, v.src); err != nil {
			o.Violation = fmt.Sprintf("reuse: reference RegisterString(%q, %q) failed: %v", v.name, v.src, err)
			return o
		}
		// after every registration: every name seen so far
		seen := map[string]bool{}
		for _, u := range vs[:i+1] {
			if seen[u.name] {
				continue
			}
			seen[u.name] = true
			want, got := ruRender(ref, u.name), ruRender(tw, u.name)
			o.Counters["renders_compared"] += 3
			if got != want {
				o.Violation = fmt.Sprintf("reuse: ONE compiled value (%s) registered on engine %s, its Name / Source changed and registered again, pairs in order %s: after registration %d template %q renders [%s] on the engine given the sources by RegisterString in the same order, [%s] on the engine given the compiled value",
					origin, engine, desc, i+1, u.name, want, got)
				o.Detail = map[string]interface{}{"origin": origin, "engine": engine, "versions": desc, "after": i + 1, "template": u.name, "want": want.String(), "got": got.String()}
				return o
			}
		}
	}
	o.Nontrivial = true
	o.Class = fmt.Sprintf("rum:%s:n=%d,name-changed=%v,source-changed=%v", origin, len(vs), vs[0].name != vs[len(vs)-1].name, vs[0].src != vs[len(vs)-1].src)
	return o
}

func runReuse(t *vlib.T) {
	// rue: ordered sequences of 2 or 3 different engines
	var seqs [][]string
	for _, a := range ruEngines {
		for _, b := range ruEngines {
			if a == b {
				continue
			}
			seqs = append(seqs, []string{a, b})
		}
	}
	for _, a := range ruEngines {
		for _, b := range ruEngines {
			for _, c := range ruEngines {
				if a == b || a == c || b == c {
					continue
				}
				seqs = append(seqs, []string{a, b, c})
			}
		}
	}
	for _, seq := range seqs {
		for _, src := range ruSources {
			for _, origin := range ruOrigins {
				if t.Stopped() {
					return
				}
				key := fmt.Sprintf("rue|%s|%s|%s", strings.Join(seq, ""), origin, src.id)
				seq, src, origin := seq, src, origin
				t.Case(key, func() *vlib.Outcome { return ruEngineCase(src, origin, seq) })
			}
		}
	}
	// rum: 2 or 3 versions, neighbours differ in name or source
	var all []ruVersion
	for _, n := range ruNames {
		for _, s := range ruMutSources {
			all = append(all, ruVersion{n, s})
		}
	}
	var hs [][]ruVersion
	for _, a := range all {
		for _, b := range all {
			if a == b {
				continue
			}
			hs = append(hs, []ruVersion{a, b})
			for _, c := range all {
				if c == b {
					continue
				}
				hs = append(hs, []ruVersion{a, b, c})
			}
		}
	}
	idx := func(v ruVersion) string {
		for i, u := range all {
			if u == v {
				return fmt.Sprint(i)
			}
		}
		return "?"
	}
	for _, h := range hs {
		for _, origin := range ruOrigins {
			for _, engine := range []string{"A", "B"} {
				if t.Stopped() {
					return
				}
				k := ""
				for _, v := range h {
					k += idx(v)
				}
				key := fmt.Sprintf("rum|%s|%s|%s", engine, origin, k)
				h, origin, engine := h, origin, engine
				t.Case(key, func() *vlib.Outcome { return ruMutCase(origin, engine, h) })
			}
		}
	}
}
