package main

// Save histories of the compiled loader (family "sv"): in ONE directory the same template name is
// saved from a first source, then the source changes and it is saved again, then (optionally) a
// third time. After EVERY save the file must read back as the template that was saved last, and a
// fresh engine with a CompiledLoader on that directory must render exactly like that source.
//
// Enumerated exhaustively: every sequence of 2 or 3 versions over four sources (neighbours differ;
// going back to the first source is included) x how the first version reaches the engine x for
// every later version: how it reaches the engine and how the template's modification time relates
// to the modification time of the file already in the directory (older / equal / newer / zero), for
// a save that follows at once (file left as written) and for a separated one (file times moved
// with os.Chtimes — no sleeping, no wall-clock oracle) x template name.
//
// Added after the independent seeded change C16-D was missed (SaveCompiled skipped the write when
// the file on disk was "not older" than the template): the rd grid only ever saved one version per
// directory.

import (
	"fmt"
	"os"
	"path/filepath"
	"sync"
	"time"

	"github.com/semihalev/twig"

	"verif/lib/vlib"
)

var svSources = []named{
	{"A", "first {{ x.s }}"},
	{"B", "second version {{ y|length }}! {% if z %}Z{% else %}nz{% endif %} and a longer tail"},
	{"E", ""},
	{"L", rep("p", 5000) + "{% for i in x %}{{ loop.index }}{% endfor %}"},
}

var svNames = []string{"page", "dir/sub/t.twig"}

// how the first version reaches the saving engine
var svFirst = []string{"reg", "ldr", "plain"}

// how a later version reaches the saving engine, and what its modification time is relative to the
// file that the previous save left in the directory
//
//	reg-asis     RegisterString on the engine that saved before (or a new one); file left as written
//	             (the save follows within the same second or the next one)
//	reg-older    file times moved one hour into the future: the template is older than the file
//	reg-equal    file times set to the moment of registration
//	reg-newer    file times moved one hour into the past
//	ldr-K-R      a new engine whose loader serves the new source and reports a modification time;
//	             K = now (file left as written) | sep (file times moved to a fixed earlier date),
//	             R = older | equal | newer (file time -100 s / same / +100 s) | zero (reports 0)
//	plain-K      a new engine whose loader knows no modification times (lastModified stays 0)
var svLater = []string{
	"reg-asis", "reg-older", "reg-equal", "reg-newer",
	"ldr-now-older", "ldr-now-equal", "ldr-now-newer", "ldr-now-zero",
	"ldr-sep-older", "ldr-sep-equal", "ldr-sep-newer", "ldr-sep-zero",
	"plain-now", "plain-sep",
}

const svFixedFileTime = 1_700_000_000 // where a "separated" earlier save is moved to
const svFirstModTime = 1_600_000_000  // what the loader of the first version reports

// svLoader serves one template; with times it is a twig.TimestampAwareLoader.
type svPlainLoader struct{ name, source string }

func (l *svPlainLoader) Load(name string) (string, error) {
	if name != l.name {
		return "", fmt.Errorf("%w: %s", twig.ErrTemplateNotFound, name)
	}
	return l.source, nil
}
func (l *svPlainLoader) Exists(name string) bool { return name == l.name }

type svTimedLoader struct {
	svPlainLoader
	mod int64
}

func (l *svTimedLoader) GetModifiedTime(name string) (int64, error) { return l.mod, nil }

// svTempBase: a memory-backed directory when the machine has one (the family makes ~10 file
// operations per save; on a journalling disk they dominate the run time), else the default.
var svTempBaseOnce sync.Once
var svTempBaseDir string

func svTempBase() string {
	svTempBaseOnce.Do(func() {
		if d, err := os.MkdirTemp("/dev/shm", "verif-c16-probe-"); err == nil {
			os.Remove(d)
			svTempBaseDir = "/dev/shm"
		}
	})
	return svTempBaseDir
}

func runSave(t *vlib.T) {
	var rec func(n int, name, first string, seq []int, later []string)
	rec = func(n int, name, first string, seq []int, later []string) {
		if t.Stopped() {
			return
		}
		if len(seq) == n {
			s, l := append([]int{}, seq...), append([]string{}, later...)
			ids := ""
			for _, i := range s {
				ids += svSources[i].id
			}
			key := fmt.Sprintf("sv|%s|%s|%s|%v", name, ids, first, l)
			t.Case(key, func() *vlib.Outcome { return svCase(t, name, first, s, l) })
			return
		}
		for i := range svSources {
			if len(seq) > 0 && seq[len(seq)-1] == i {
				continue // the source changes between two saves
			}
			if len(seq) == 0 {
				rec(n, name, first, append(seq, i), later)
				continue
			}
			for _, lt := range svLater {
				rec(n, name, first, append(seq, i), append(later, lt))
			}
		}
	}
	// simplest first: all two-version histories, then the three-version ones
	for n := 2; n <= 3; n++ {
		for ni, name := range svNames {
			if n == 3 && ni > 0 && !t.Thorough() {
				continue // quick: three-version histories under the first name only
			}
			for _, first := range svFirst {
				rec(n, name, first, nil, nil)
			}
		}
	}
}

func svCase(t *vlib.T, name, first string, seq []int, later []string) *vlib.Outcome {
	o := &vlib.Outcome{Nontrivial: true, Counters: map[string]int64{}}
	o.Class = fmt.Sprintf("sv:len%d,first=%s,last=%s", len(seq), first, later[len(later)-1])
	dir, err := os.MkdirTemp(svTempBase(), "verif-c16-sv-")
	if err != nil {
		panic("harness: " + err.Error())
	}
	defer os.RemoveAll(dir)
	file := filepath.Join(dir, name+".twig.compiled")
	if err := os.MkdirAll(filepath.Dir(file), 0o755); err != nil {
		panic("harness: " + err.Error())
	}
	history := ""
	fail := func(f string, a ...interface{}) *vlib.Outcome {
		o.Violation = fmt.Sprintf("template %q saved into one directory, history [%s ]: ", name, history) + fmt.Sprintf(f, a...)
		o.Detail = map[string]interface{}{"name": name, "first": first, "later": later, "sources": seq}
		return o
	}
	cl := twig.NewCompiledLoader(dir)
	var regEngine *twig.Engine // the engine that RegisterString steps share
	for step, si := range seq {
		t.Progress()
		src := svSources[si].s
		how := first
		if step > 0 {
			how = later[step-1]
		}
		history += fmt.Sprintf(" %d:%s(%s)", step+1, svSources[si].id, how)

		// the file the previous save left behind (only for later steps)
		var fileTime int64
		if step > 0 {
			switch how {
			case "ldr-sep-older", "ldr-sep-equal", "ldr-sep-newer", "ldr-sep-zero", "plain-sep":
				ft := time.Unix(svFixedFileTime, 0)
				if err := os.Chtimes(file, ft, ft); err != nil {
					panic("harness: " + err.Error())
				}
			}
			st, err := os.Stat(file)
			if err != nil {
				return fail("the file of the previous save is gone: %v", err)
			}
			fileTime = st.ModTime().Unix()
		}

		// the engine that holds the version to be saved
		var eng *twig.Engine
		switch how {
		case "reg", "reg-asis", "reg-older", "reg-equal", "reg-newer":
			if regEngine == nil {
				regEngine = twig.New()
			}
			eng = regEngine
			if err := eng.RegisterString(name, src); err != nil {
				return fail("RegisterString failed: %v", err)
			}
			now := time.Now()
			switch how {
			case "reg-older":
				now = now.Add(time.Hour)
			case "reg-newer":
				now = now.Add(-time.Hour)
			}
			if how != "reg" && how != "reg-asis" {
				if err := os.Chtimes(file, now, now); err != nil {
					panic("harness: " + err.Error())
				}
			}
		case "plain", "plain-now", "plain-sep":
			eng = twig.New()
			eng.RegisterLoader(&svPlainLoader{name, src})
		default:
			mod := int64(svFirstModTime)
			switch how {
			case "ldr-now-older", "ldr-sep-older":
				mod = fileTime - 100
			case "ldr-now-equal", "ldr-sep-equal":
				mod = fileTime
			case "ldr-now-newer", "ldr-sep-newer":
				mod = fileTime + 100
			case "ldr-now-zero", "ldr-sep-zero":
				mod = 0
			}
			eng = twig.New()
			eng.RegisterLoader(&svTimedLoader{svPlainLoader{name, src}, mod})
		}

		// what the saving engine holds, and what an engine given the source renders
		held, err := eng.CompileTemplate(name)
		if err != nil {
			return fail("the saving engine cannot compile its template: %v", err)
		}
		if held.Source != src {
			panic("harness: the saving engine holds another source than the one it was given")
		}
		ref := twig.New()
		if err := ref.RegisterString(name, src); err != nil {
			return fail("RegisterString on the reference engine failed: %v", err)
		}
		want := renderAll(ref, name)

		if err := cl.SaveCompiled(eng, name); err != nil {
			return fail("CompiledLoader.SaveCompiled failed: %v", err)
		}
		o.Counters["saves"]++

		// 1. the file holds the template that was saved
		fdata, err := os.ReadFile(file)
		if err != nil {
			return fail("after save #%d there is no file: %v", step+1, err)
		}
		fct, err := twig.DeserializeCompiledTemplate(fdata)
		if err != nil {
			return fail("after save #%d the file does not deserialise: %v", step+1, err)
		}
		if fct.Name != name || fct.Source != src || fct.LastModified != held.LastModified {
			return fail("after save #%d (SaveCompiled returned nil) the file holds name %s source %s LastModified %d; the engine that saved holds %s %s %d",
				step+1, short(fct.Name), short(fct.Source), fct.LastModified, short(name), short(src), held.LastModified)
		}
		// 2. the loader hands out that source
		rd := twig.NewCompiledLoader(dir)
		got, err := rd.Load(name)
		if err != nil || got != src {
			return fail("after save #%d CompiledLoader.Load returns %s (err=%v), want %s", step+1, short(got), err, short(src))
		}
		// 3. fresh engines on that directory render like the source
		e1 := twig.New()
		if err := twig.NewCompiledLoader(dir).LoadAll(e1); err != nil {
			return fail("after save #%d LoadAll on a fresh engine failed: %v", step+1, err)
		}
		e2 := twig.New()
		e2.RegisterLoader(twig.NewCompiledLoader(dir))
		for i, e := range []*twig.Engine{e1, e2} {
			if _, err := e.Load(name); err != nil {
				return fail("after save #%d a fresh engine (%d) cannot load the template from the directory: %v", step+1, i+1, err)
			}
			o.Counters["renders_compared"] += 3
			if r := renderAll(e, name); r != want {
				return fail("after save #%d a fresh engine on the directory (%s) renders [%s], an engine given the source saved last renders [%s]",
					step+1, []string{"LoadAll", "RegisterLoader"}[i], r, want)
			}
		}
	}
	return o
}
