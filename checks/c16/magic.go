// Family mg — sources and names that start with, contain or end with the MAGIC NUMBERS of
// compression / container formats and of the compiled format itself.
//
// A serialiser that packs, escapes or versions a field and recognises the packed form BY CONTENT on
// the way back (in-band signalling) goes wrong exactly for the values that look packed without
// being so. The statement says "reproduces name, source and timestamps exactly, for ... binary and
// non-UTF-8 sources alike", so such values are inside it. The grids in main.go held binary sources
// (all 256 byte values in ascending order, FF runs, NULs, a complete serialisation) but none that
// BEGINS with the signature of a well-known format.
//
// Full product of: signature (mgMagics: bare magic numbers, valid headers, complete valid streams of
// OTHER text for gzip / zlib / raw deflate / zstd / bzip2 / xz / lz4, further container signatures,
// the version byte / complete / truncated / future-version serialisations of this library, the old
// gob encoding) x position (the whole value, at the start, in the middle, at the end) x filling
// (compressible text with print tags, incompressible noise with print tags) x total size (short,
// 1023, 1024, 1025, 5000, 70 000; thorough more) x where (source, name, both) x operation
// (Serialize -> Deserialize field-wise with two timestamp patterns; render twins through
// LoadFromCompiledData, Deserialize + Register, Template.SaveCompiled and the compiled loader's
// file).
package main

import (
	"bytes"
	"compress/flate"
	"compress/gzip"
	"compress/zlib"
	"encoding/gob"
	"fmt"
	"io"
	"strings"
	"sync"

	"github.com/semihalev/twig"

	"verif/lib/vlib"
)

const mgInner = "inner template {{ y.s }}"

type mgMagic struct {
	id, fam, s string
}

func mgGzip(s string, level int, name string) string {
	var b bytes.Buffer
	zw, err := gzip.NewWriterLevel(&b, level)
	if err != nil {
		panic("harness: " + err.Error())
	}
	zw.Name = name
	io.WriteString(zw, s)
	zw.Close()
	return b.String()
}

func mgZlib(s string) string {
	var b bytes.Buffer
	zw := zlib.NewWriter(&b)
	io.WriteString(zw, s)
	zw.Close()
	return b.String()
}

func mgFlate(s string) string {
	var b bytes.Buffer
	zw, _ := flate.NewWriter(&b, flate.DefaultCompression)
	io.WriteString(zw, s)
	zw.Close()
	return b.String()
}

// the shape of twig.CompiledTemplate, for the old gob encoding of such a value
type mgGobShape struct {
	Name         string
	Source       string
	LastModified int64
	CompileTime  int64
	AST          []byte
}

func mgGob(v interface{}) string {
	var b bytes.Buffer
	if err := gob.NewEncoder(&b).Encode(v); err != nil {
		panic("harness: " + err.Error())
	}
	return b.String()
}

var (
	mgOnce sync.Once
	mgList []mgMagic
)

// mgMagics: every signature of the family. Complete streams hold OTHER template text (mgInner), so a
// reader that unpacks them shows a different source and a different rendering.
func mgMagics() []mgMagic {
	mgOnce.Do(func() {
		ser, _ := twig.SerializeCompiledTemplate(&twig.CompiledTemplate{Name: "inner", Source: mgInner, LastModified: 1, CompileTime: 2, AST: []byte("\x13\x7f\x03\x01\x01\x08RootNode\x01\xff\x80\x00\x00\x00")})
		gz := mgGzip(mgInner, gzip.DefaultCompression, "")
		mgList = []mgMagic{
			// gzip (RFC 1952)
			{"gz-2", "gzip", "\x1f\x8b"},
			{"gz-3", "gzip", "\x1f\x8b\x08"},
			{"gz-hdr", "gzip", "\x1f\x8b\x08\x00\x00\x00\x00\x00\x00\xff"},
			{"gz-stream", "gzip", gz},
			{"gz-stream-speed", "gzip", mgGzip(mgInner, gzip.BestSpeed, "")},
			{"gz-stream-fname", "gzip", mgGzip(mgInner, gzip.DefaultCompression, "t.twig")},
			{"gz-stream-empty", "gzip", mgGzip("", gzip.DefaultCompression, "")},
			{"gz-stream-5000", "gzip", mgGzip(rep("<i>{{ y.s }}</i>", 312)+"12345678", gzip.DefaultCompression, "")},
			{"gz-stream-cut", "gzip", gz[:len(gz)-5]},
			{"gz-stream-x2", "gzip", gz + gz},
			// zlib (RFC 1950) and raw deflate
			{"zlib-7801", "zlib", "\x78\x01"},
			{"zlib-785e", "zlib", "\x78\x5e"},
			{"zlib-789c", "zlib", "\x78\x9c"},
			{"zlib-78da", "zlib", "\x78\xda"},
			{"zlib-stream", "zlib", mgZlib(mgInner)},
			{"flate-stream", "zlib", mgFlate(mgInner)},
			// zstd (RFC 8878)
			{"zstd-4", "zstd", "\x28\xb5\x2f\xfd"},
			{"zstd-skippable", "zstd", "\x50\x2a\x4d\x18\x04\x00\x00\x00abcd"},
			{"zstd-empty-frame", "zstd", "\x28\xb5\x2f\xfd\x20\x00\x01\x00\x00"},
			{"zstd-frame", "zstd", "\x28\xb5\x2f\xfd\x20\x18\xc1\x00\x00" + mgInner},
			// bzip2
			{"bz-3", "bzip2", "BZh"},
			{"bz-block", "bzip2", "BZh91AY&SY"},
			{"bz-empty-stream", "bzip2", "BZh9\x17\x72\x45\x38\x50\x90\x00\x00\x00\x00"},
			{"bz-stream", "bzip2", "\x42\x5a\x68\x39\x31\x41\x59\x26\x53\x59\x6b\x7b\x15\x23\x00\x00\x04\x91\x80\x40\x01\x22\x27\x5c\x2a\x20\x00\x22\x26\x9a\x68\x68\x7e\x94\x29\x80\x00\xa2\x7a\x50\xde\x4b\x50\x28\x12\x61\xe9\xfe\x2e\xe4\x8a\x70\xa1\x20\xd6\xf6\x2a\x46"},
			// other compression / container signatures
			{"xz-6", "other", "\xfd7zXZ\x00"},
			{"xz-stream", "other", "\xfd\x37\x7a\x58\x5a\x00\x00\x04\xe6\xd6\xb4\x46\x04\xc0\x1c\x18\x21\x01\x16\x00\x00\x00\x00\x00\x00\x00\x00\x00\x1a\xed\x1f\x76\x01\x00\x17" + mgInner + "\x00\x04\xc4\xa3\x03\x52\xdc\xd9\x05\x00\x01\x38\x18\x86\x91\x75\x24\x1f\xb6\xf3\x7d\x01\x00\x00\x00\x00\x04\x59\x5a"},
			{"lz4-4", "other", "\x04\x22\x4d\x18"},
			{"lz4-frame", "other", "\x04\x22\x4d\x18\x64\x40\xa7\x18\x00\x00\x80" + mgInner + "\x00\x00\x00\x00\x57\xdd\x5b\x6a"},
			{"snappy-framed", "other", "\xff\x06\x00\x00sNaPpY"},
			{"lzw-compress", "other", "\x1f\x9d\x90"},
			{"lzip", "other", "LZIP\x01"},
			{"zip-local", "other", "PK\x03\x04\x14\x00\x00\x00\x08\x00"},
			{"zip-empty", "other", "PK\x05\x06" + rep("\x00", 18)},
			{"7z", "other", "7z\xbc\xaf\x27\x1c"},
			{"utf8-bom", "other", "\xef\xbb\xbf"},
			{"utf16-bom", "other", "\xff\xfe"},
			// the compiled format of this library: version byte, complete / cut / future-version files
			{"tw-version", "twig", "\x01"},
			{"tw-version0", "twig", "\x00"},
			{"tw-version2", "twig", "\x02"},
			{"tw-empty-name", "twig", "\x01\x00\x00\x00\x00"},
			{"tw-file", "twig", string(ser)},
			{"tw-file-cut", "twig", string(ser[:len(ser)/2])},
			{"tw-file-v2", "twig", "\x02" + string(ser[1:])},
			{"tw-len-prefix", "twig", "\x18\x00\x00\x00" + mgInner},
			// gob: the old encoding of a compiled template, its type header, the AST section twig writes
			{"gob-file", "gob", mgGob(mgGobShape{Name: "inner", Source: mgInner, LastModified: 1, CompileTime: 2})},
			{"gob-file-twigtype", "gob", mgGob(twig.CompiledTemplate{Name: "inner", Source: mgInner, LastModified: 1, CompileTime: 2})},
			{"gob-header", "gob", mgGob(mgGobShape{Name: "inner"})[:24]},
			{"gob-ast", "gob", "\x13\x7f\x03\x01\x01\x08RootNode\x01\xff\x80\x00\x00\x00"},
			{"gob-string", "gob", mgGob(mgInner)},
		}
		seen := map[string]bool{}
		for _, m := range mgList {
			if seen[m.id] || seen["="+m.s] || len(m.s) == 0 || len(m.s) > 900 {
				panic("harness: signature list: " + m.id)
			}
			seen[m.id], seen["="+m.s] = true, true
		}
	})
	return mgList
}

// mgNoise: n deterministic bytes gzip / zlib / zstd cannot shrink (xorshift32; the four bytes that
// open or close template tags are replaced). mgNoise(n) is a prefix of mgNoise(m) for n <= m.
var (
	mgNoiseOnce sync.Once
	mgNoiseBuf  []byte
)

func mgNoise(n int) string {
	mgNoiseOnce.Do(func() {
		mgNoiseBuf = make([]byte, 1<<20+64)
		x := uint32(2463534242)
		for i := range mgNoiseBuf {
			x ^= x << 13
			x ^= x >> 17
			x ^= x << 5
			c := byte(x >> 11)
			if c == '{' || c == '}' || c == '%' || c == '#' {
				c = '_'
			}
			mgNoiseBuf[i] = c
		}
	})
	return string(mgNoiseBuf[:n])
}

const (
	mgUnit = "<i>{{ x.s }}</i>" // 16 bytes
	mgTag  = "{{ x.s }}{{ y.s }}"
)

// mgFill: n bytes of filling in two parts (before / after a signature in the middle); both parts
// together hold at least one print tag, no part cuts a tag
func mgFill(kind string, n int) (a, b string) {
	switch kind {
	case "text":
		k := n / len(mgUnit)
		return rep(mgUnit, k/2), rep(mgUnit, k-k/2) + rep(".", n%len(mgUnit))
	case "noise":
		body := mgNoise(n - len(mgTag))
		return body[:len(body)/2], body[len(body)/2:] + mgTag
	}
	panic("unknown filling " + kind)
}

const mgShortFill = " bin {{ x.s }}{{ y.s }}! " // "short": the signature plus these 25 bytes

// mgValue builds the value: signature m at position pos inside a filling of the given kind, total
// bytes in all (total 0 = "short")
func mgValue(m mgMagic, pos, kind string, total int) string {
	if pos == "only" {
		return m.s
	}
	var a, b string
	if total == 0 {
		a, b = mgShortFill[:5], mgShortFill[5:]
	} else {
		a, b = mgFill(kind, total-len(m.s))
	}
	switch pos {
	case "start":
		return m.s + a + b
	case "mid":
		return a + m.s + b
	case "end":
		return a + b + m.s
	}
	panic("unknown position " + pos)
}

// a name the compiled loader can turn into one file name inside its directory
func mgFileName(name string) bool {
	return len(name) > 0 && len(name) <= 200 && !strings.ContainsAny(name, "/\x00") && name != "." && name != ".."
}

var mgTimestamps = [][2]int64{
	{0x0102030405060708, 0x1112131415161718}, // every byte different
	{0x00088b1f, 0x2ffdb528789c8b1f},         // little-endian bytes 1f 8b 08 00 ... / 1f 8b 9c 78 28 b5 fd 2f
}

const (
	mgPlainSource = "N{{ x.s }}|{{ y.s }}|{{ z is empty ? 'e' : 'n' }}"
	mgPlainName   = "magic.twig"
)

func runMagic(t *vlib.T) {
	sizes := []int{0, 1023, 1024, 1025, 5000, 70000}
	ways := []string{"data", "deser", "tmplsave", "loader"}
	mcfgs := []cfg{cfgs[0]}
	if t.Thorough() {
		sizes = []int{0, 255, 256, 257, 1023, 1024, 1025, 4095, 4096, 4097, 5000, 65535, 65536, 65537, 70000, 1 << 20}
		mcfgs = []cfg{cfgs[0], cfgs[1], cfgs[2], cfgs[4]} // default, strict, auto-reload, sandbox
	}
	type shape struct {
		pos, kind string
		total     int
	}
	shapes := []shape{{"only", "-", 0}}
	for _, total := range sizes { // simplest first: short values before long ones
		for _, pos := range []string{"start", "mid", "end"} {
			for _, kind := range []string{"text", "noise"} {
				if total == 0 && kind == "noise" { // the short filling is one fixed text
					continue
				}
				shapes = append(shapes, shape{pos, kind, total})
			}
		}
	}
	for _, sh := range shapes {
		for _, m := range mgMagics() {
			for _, where := range []string{"src", "name", "both"} {
				sh, m, where := sh, m, where
				build := func() (name, src string) {
					v := mgValue(m, sh.pos, sh.kind, sh.total)
					switch where {
					case "src":
						return mgPlainName, v
					case "name":
						return v, mgPlainSource
					}
					return v, v
				}
				id := fmt.Sprintf("%s|%s|%s|%s|%d", where, m.id, sh.pos, sh.kind, sh.total)
				class := fmt.Sprintf("mg:%s,%s,%s,", m.fam, sh.pos, where)
				for ti, ts := range mgTimestamps {
					if t.Stopped() {
						return
					}
					ts := ts
					t.Case(fmt.Sprintf("mg|rt|%d|%s", ti, id), func() *vlib.Outcome {
						name, src := build()
						o := rtCase(named{"mg-" + id, src}, named{"mg-" + id, name}, ts[0], ts[1], named{"real", "\x13\x7f\x03\x01\x01\x08RootNode\x01\xff\x80\x00\x00\x00"})
						o.Class = class + "rt"
						o.Nontrivial = true
						return o
					})
				}
				// the file of the compiled loader is named after the template: only names a directory entry can hold
				fileName := where == "src" || (sh.total <= 200 && mgFileName(mgValue(m, sh.pos, sh.kind, sh.total)))
				for _, c := range mcfgs {
					if sh.total >= 1<<20 { // the largest values (thorough only): round trip only
						break
					}
					for _, way := range ways {
						if way == "loader" && !fileName {
							continue
						}
						if t.Stopped() {
							return
						}
						c, way := c, way
						t.Case(fmt.Sprintf("mg|rd|%s|%s|%s", c.id, way, id), func() *vlib.Outcome {
							name, src := build()
							o := rdCase(src, c, way, false, name)
							if strings.HasPrefix(o.Class, "rd:source-render-not-repeatable") {
								return o
							}
							o.Class = class + "rd"
							return o
						})
					}
				}
			}
		}
	}
}
