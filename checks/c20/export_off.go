//go:build blackbox

package main

import "reflect"

const exportAvailable = false

type attrEntry struct {
	Type        reflect.Type
	Attr        string
	FieldIndex  int
	FieldPath   []int
	IsMethod    bool
	MethodIndex int
	PtrMethod   bool
	AccessCount int
	LastAccess  int64
}

func cacheReset()                        {}
func cacheSetMax(n int)                  {}
func cacheDump() ([]attrEntry, int, int) { return nil, 0, 0 }
