package main

// Held answers: an answer obtained from one lookup is kept (in a variable, a list or a hash literal,
// a macro argument) while further lookups run — the same name on another value of the same type,
// on a pointer to it, on another type — and is then looked into. What it shows must be what the
// same chain shows when nothing happens in between ("the answer never depends on which other types
// and attribute names were looked up earlier"). The oracle is differential: held == immediate, so
// it needs no opinion on attributes the statement leaves open (pointer-receiver methods reached
// through a struct value): if they resolve to nothing, both sides are empty.

import (
	"fmt"
	"strings"

	"verif/lib/vlib"
)

type HInner struct {
	Name string
	City string
}

type HUser struct {
	Name string
	In   HInner
	Tags []string
}

func (u HUser) V() HInner         { return u.In }
func (u HUser) VP() *HInner       { return &u.In }
func (u *HUser) P() *HInner       { return &u.In }
func (u *HUser) Self() *HUser     { return u }
func (u *HUser) PT() []string     { return u.Tags }
func (u *HUser) PV() HInner       { return u.In }
func (u HUser) VS() HUser         { return u }
func (u *HUser) PArr() *[2]string { a := [2]string{u.In.Name, u.In.City}; return &a }

type HOther struct {
	Name string
	In   HInner
}

func (o *HOther) P() *HInner { return &o.In }
func (o HOther) V() HInner   { return o.In }

func heldObjects() map[string]interface{} {
	return map[string]interface{}{
		"u1": HUser{"alice", HInner{"Alice", "Oslo"}, []string{"a1", "a2"}},
		"u2": HUser{"bob", HInner{"Bob", "Rome"}, []string{"b1", "b2"}},
		"p1": &HUser{"carol", HInner{"Carol", "Bern"}, []string{"c1", "c2"}},
		"p2": &HUser{"dave", HInner{"Dave", "Kiev"}, []string{"d1", "d2"}},
		"o1": HOther{"erin", HInner{"Erin", "Lima"}},
		"m1": map[string]interface{}{"In": HInner{"Mia", "Riga"}, "P": HInner{"Mip", "Rip"}},
	}
}

// first step (from the object), second step (into the held answer)
var heldFirst = []string{"In", "V", "VP", "P", "Self", "PT", "PV", "VS", "PArr"}

func heldSecond(first string) []string {
	switch first {
	case "Self", "VS":
		return []string{".Name", ".In.City", ".P.Name"}
	case "PT":
		return []string{"[0]", "[1]", "|join(',')"}
	case "PArr":
		return []string{"[0]", "[1]"}
	}
	return []string{".Name", ".City"}
}

var heldEngineN int

func heldRender(src string) string {
	heldEngineN++
	name := fmt.Sprintf("held%d", heldEngineN)
	if err := engine.RegisterString(name, src); err != nil {
		return "REGISTER-ERR " + err.Error()
	}
	out, err := engine.Render(name, heldObjects())
	if err != nil {
		return "ERR " + err.Error()
	}
	return out
}

func heldCases(t *vlib.T) {
	vars := []string{"u1", "u2", "p1", "p2", "o1", "m1"}
	for _, first := range heldFirst {
		for _, xa := range vars {
			for _, xb := range vars {
				if xa == xb {
					continue
				}
				first, xa, xb := first, xa, xb
				t.Case(fmt.Sprintf("held/%s/%s/%s", first, xa, xb), func() *vlib.Outcome {
					o := &vlib.Outcome{Nontrivial: true, Class: "held", Counters: map[string]int64{}}
					if exportAvailable {
						cacheReset()
						cacheSetMax(1000)
					}
					var imm, immB []string
					for _, s := range heldSecond(first) {
						imm = append(imm, fmt.Sprintf("{{ %s.%s%s }}", xa, first, s))
						immB = append(immB, fmt.Sprintf("{{ %s.%s%s }}", xb, first, s))
					}
					wantA := heldRender(strings.Join(imm, "/"))
					wantB := heldRender(strings.Join(immB, "/"))
					o.Counters["lookups_executed"] += int64(2 * len(imm))
					if strings.Trim(wantA, "/") != "" {
						o.Class = "held-resolves"
					}
					var seconds []string
					for _, s := range heldSecond(first) {
						seconds = append(seconds, "{{ a"+s+" }}")
					}
					useA := strings.Join(seconds, "/")
					useB := strings.ReplaceAll(useA, "{{ a", "{{ b")
					shapes := map[string]string{
						"set":     fmt.Sprintf("{%% set a = %s.%s %%}{%% set b = %s.%s %%}%s#%s", xa, first, xb, first, useA, useB),
						"set3":    fmt.Sprintf("{%% set a = %s.%s %%}{%% set b = %s.%s %%}{%% set c = %s.%s %%}%s#%s", xa, first, xb, first, xb, first, useA, useB),
						"list":    fmt.Sprintf("{%% for a in [%s.%s, %s.%s] %%}%s{%% if loop.first %%}#{%% endif %%}{%% endfor %%}", xa, first, xb, first, useA),
						"hash":    fmt.Sprintf("{%% set h = {'a': %s.%s, 'b': %s.%s} %%}{%% set a = h.a %%}{%% set b = h.b %%}%s#%s", xa, first, xb, first, useA, useB),
						"macro":   fmt.Sprintf("{%% macro m(a, b) %%}%s#%s{%% endmacro %%}{{ m(%s.%s, %s.%s) }}", useA, useB, xa, first, xb, first),
						"between": fmt.Sprintf("{%% set a = %s.%s %%}{{ %s.%s ? '' : '' }}{{ %s.Name ? '' : '' }}{%% set b = %s.%s %%}%s#%s", xa, first, xb, first, xb, xb, first, useA, useB),
						"loop":    fmt.Sprintf("{%% set a = %s.%s %%}{%% for i in [1, 2, 3] %%}{%% set b = %s.%s %%}{%% endfor %%}{%% set b = %s.%s %%}%s#%s", xa, first, xb, first, xb, first, useA, useB),
					}
					for _, sh := range []string{"set", "set3", "list", "hash", "macro", "between", "loop"} {
						got := heldRender(shapes[sh])
						o.Counters["executions"]++
						o.Counters["lookups_executed"] += int64(2 + 2*len(imm))
						if want := wantA + "#" + wantB; got != want {
							o.Violation = fmt.Sprintf("held answers, shape %s: %s renders %q; the same chains evaluated immediately render %q", sh, shapes[sh], got, want)
							o.Detail = map[string]string{"template": shapes[sh], "got": got, "want": want}
							return o
						}
					}
					return o
				})
			}
		}
	}
}
