//go:build !blackbox

package main

import "github.com/semihalev/twig"

const exportAvailable = true

func cacheReset()                                  { twig.VerifAttrCacheReset() }
func cacheSetMax(n int)                            { twig.VerifAttrCacheSetMax(n) }
func cacheDump() ([]twig.VerifAttrEntry, int, int) { return twig.VerifAttrCacheDump() }
