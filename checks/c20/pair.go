package main

// Several lookups inside ONE render: `{{ a.X }}|{{ b.Y }}|{{ a.X }}` for every ordered pair of
// lookups of the quick alphabet (which holds the same name on different types, maps of three key
// types, and pointers of different types that share an address). Each lookup must answer what it
// answers when it is the only lookup of a render — whatever the render looked up just before.

import (
	"fmt"

	"verif/lib/vlib"
)

var pairRegistered = map[string]bool{}

func pairRender(x, y string, a, b interface{}) string {
	name := "pair_" + x + "_" + y
	if !pairRegistered[name] {
		engine.RegisterString(name, "{{ a."+x+" }}|{{ b."+y+" }}|{{ a."+x+" }}|{{ b."+y+" }}")
		pairRegistered[name] = true
	}
	out, err := engine.Render(name, map[string]interface{}{"a": a, "b": b})
	if err != nil {
		return "ERR " + err.Error()
	}
	return out
}

func pairCases(t *vlib.T) {
	objs := objects()
	alpha := alphabet(t.Thorough())
	for _, l1 := range alpha {
		for _, l2 := range alpha {
			if l1.Sub || l2.Sub {
				continue
			}
			l1, l2 := l1, l2
			t.Case(fmt.Sprintf("pair/%v/%v", l1, l2), func() *vlib.Outcome {
				o := &vlib.Outcome{Nontrivial: l1.Obj != l2.Obj, Class: "pair", Counters: map[string]int64{}}
				if exportAvailable {
					cacheReset()
					cacheSetMax(1000)
				}
				for rep := 0; rep < 2; rep++ { // cold cache, then warm
					got := pairRender(l1.Attr, l2.Attr, objs[l1.Obj].v, objs[l2.Obj].v)
					s1, s2 := doLookup(l1, objs), doLookup(l2, objs)
					o.Counters["executions"]++
					o.Counters["lookups_executed"] += 6
					if want := s1 + "|" + s2 + "|" + s1 + "|" + s2; got != want {
						o.Violation = fmt.Sprintf("one render looking up %v, %v, %v, %v prints %q; each lookup alone prints %q and %q", l1, l2, l1, l2, got, s1, s2)
						o.Detail = map[string]interface{}{"first": l1, "second": l2}
						return o
					}
					if w, ok := want(objs[l1.Obj].v, l1.Attr); ok && s1 != w {
						o.Violation = fmt.Sprintf("lookup %v returned %q, want %q", l1, s1, w)
						return o
					}
				}
				return o
			})
		}
	}
}
