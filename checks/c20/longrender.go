package main

// One render that looks a pair up more than once, then looks up enough OTHER pairs to evict it, and
// ends; afterwards the pair is looked up again in a new render. Whatever bookkeeping the engine
// defers to the end of a render (batched hit counters, write-backs) must not bring a stale or empty
// entry back: every lookup answers what it answers alone.

import (
	"fmt"
	"reflect"
	"strings"

	"verif/lib/vlib"
)

func fillerValue(i int) interface{} {
	st, ok := fillerTypes[i]
	if !ok {
		st = reflect.StructOf([]reflect.StructField{
			{Name: "F0", Type: reflect.TypeOf(0)},
			{Name: "F1", Type: reflect.TypeOf("")},
			{Name: fmt.Sprintf("X%d", i), Type: reflect.TypeOf(0)},
		})
		fillerTypes[i] = st
	}
	v := reflect.New(st).Elem()
	v.Field(0).SetInt(int64(i))
	v.Field(1).SetString("s")
	return v.Interface()
}

var longRegistered = map[string]bool{}

func longRenderCases(t *vlib.T) {
	objs := objects()
	ks := []int{4, 40}
	limit := 6
	if !exportAvailable {
		ks = []int{600} // black box: the real limit of 1000 pairs
		limit = 1000
	}
	for _, l := range alphabet(false) {
		if l.Sub {
			continue
		}
		for _, k := range ks {
			for _, reps := range []int{2, 70, -2} { // 70: more hits in one render than any batch size up to 64; -2: no lookup after the fillers
				l, k, reps := l, k, reps
				tail := reps > 0
				if reps < 0 {
					reps = -reps
				}
				t.Case(fmt.Sprintf("longrender/%v/k%d/r%d/tail%v", l, k, reps, tail), func() *vlib.Outcome {
					o := &vlib.Outcome{Nontrivial: true, Class: "longrender", Counters: map[string]int64{}}
					if exportAvailable {
						cacheReset()
						cacheSetMax(limit)
					}
					name := fmt.Sprintf("long_%s_%d_%d_%v", l.Attr, k, reps, tail)
					if !longRegistered[name] {
						var sb strings.Builder
						for r := 0; r < reps; r++ {
							sb.WriteString("{{ o." + l.Attr + " }}|")
						}
						for j := 0; j < k; j++ {
							fmt.Fprintf(&sb, "{{ f%d.F0 }}{{ f%d.F1 }}", j, j)
						}
						if tail {
							sb.WriteString("|{{ o." + l.Attr + " }}")
						}
						engine.RegisterString(name, sb.String())
						longRegistered[name] = true
					}
					alone := doLookup(l, objs)
					if exportAvailable {
						cacheReset()
						cacheSetMax(limit)
					}
					ctx := map[string]interface{}{"o": objs[l.Obj].v}
					wantOut := strings.Repeat(alone+"|", reps)
					for j := 0; j < k; j++ {
						ctx[fmt.Sprintf("f%d", j)] = fillerValue(7000 + j)
						wantOut += fmt.Sprintf("%ds", 7000+j)
					}
					if tail {
						wantOut += "|" + alone
					}
					for round := 0; round < 2; round++ {
						out, err := engine.Render(name, ctx)
						if err != nil {
							out = "ERR " + err.Error()
						}
						o.Counters["executions"]++
						o.Counters["lookups_executed"] += int64(reps + 2*k + 1)
						if out != wantOut {
							o.Violation = fmt.Sprintf("round %d: one render looking up %v %d times, then %d other pairs (limit %d), then %v again prints %.200q, want %.200q", round+1, l, reps, 2*k, limit, l, out, wantOut)
							return o
						}
						if after := doLookup(l, objs); after != alone {
							o.Violation = fmt.Sprintf("round %d: after a render that looked up %v %d times and then %d other pairs (limit %d), %v alone answers %q; before it answered %q", round+1, l, reps, 2*k, limit, l, after, alone)
							return o
						}
					}
					if w, ok := want(objs[l.Obj].v, l.Attr); ok && alone != w {
						o.Violation = fmt.Sprintf("lookup %v returned %q, want %q", l, alone, w)
					}
					return o
				})
			}
		}
	}
}
