// C20 — attribute access returns the right member whatever was looked up before.
//
// Explicit enumeration of lookup histories against the process-wide attribute cache, with the cache
// limit lowered to a handful of entries (overlay export), the eviction's map-iteration order owned
// by the explorer (map rewrite) and a logical clock (time rewrite). Every lookup of every history
// is compared with a stateless reference computed with reflect; after every lookup the cache
// contents must be coherent (each entry encodes what a fresh resolution gives) and within its limit.
package main

import (
	"encoding/json"
	"fmt"
	"reflect"
	"sort"
	"strings"

	"github.com/semihalev/twig"
	"github.com/semihalev/twig/vmap"
	"github.com/semihalev/twig/vtime"

	"verif/lib/vlib"
)

// ---- crafted types

type In struct{ P string }

func (In) IM() string { return "im" }

type T1 struct {
	A string
	B string
}
type T2 struct {
	B string
	A string
}
type T3 struct {
	In
	Q string
	a string
}
type T4 struct {
	In
	P int // shadows In.P
}
type Deep struct{ T3 }
type T5 struct {
	X  int
	A  string
	Y  int
	M5 string
}

func (T1) M() string        { return "T1.M" }
func (*T1) PM() string      { return "T1.PM" }
func (T2) M() string        { return "T2.M" }
func (T1) Arg(x int) string { return "called-with-arg" }
func (T5) M() string        { return "T5.M" }

// T6: a pointer method that sorts before a value method, so the method indices of T6 and *T6 differ
type T6 struct{ K string }

func (*T6) Aa() string { return "T6.Aa" }
func (T6) Zz() string  { return "T6.Zz" }

// Lang: a named string type as map key
type Lang string

// Doc/Head: &doc and &doc.Head are pointers of different types with the same address; Z1/Z2: pointers
// to distinct zero-size types may share an address too
type Head struct {
	Name string
	K    string
}
type Doc struct {
	Head Head
	Name string
	B    string
}
type Z1 struct{}
type Z2 struct{}

func (Z1) M() string { return "Z1.M" }
func (Z2) M() string { return "Z2.M" }

// two distinct types whose String() is the same ("main.L"), with different layouts
func localA() interface{} {
	type L struct{ A, B string }
	return L{"la", "lb"}
}
func localB() interface{} {
	type L struct{ B, A string }
	return L{"lb2", "la2"}
}

type obj struct {
	name string
	v    interface{}
}

func objects() []obj {
	doc := &Doc{Head{"inner", "hk"}, "outer", "db"}
	return []obj{
		{"*Doc", doc}, {"*Head", &doc.Head}, {"*Z1", &Z1{}}, {"*Z2", &Z2{}},
		{"mlang", map[Lang]string{"A": "la", "Q": "lq", "Name": "ln"}},
		{"T1", T1{"a1", "b1"}}, {"*T1", &T1{"a1p", "b1p"}},
		{"T2", T2{"b2", "a2"}}, {"*T2", &T2{"b2p", "a2p"}},
		{"T3", T3{In{"p3"}, "q3", "x"}}, {"*T3", &T3{In{"p3p"}, "q3p", "x"}},
		{"T4", T4{In{"p4"}, 7}},
		{"Deep", Deep{T3{In{"pd"}, "qd", "x"}}},
		{"T5", T5{1, "a5", 2, "m5"}},
		{"T6", T6{"k6"}}, {"*T6", &T6{"k6p"}},
		{"LA", localA()}, {"LB", localB()},
		{"map", map[string]interface{}{"A": "ma", "B": "mb", "M": "mm"}},
		{"msi", map[string]string{"A": "sa", "Q": "sq"}},
		{"mii", map[interface{}]interface{}{"A": "ia", "Q": "iq", 1: "one", true: "yes"}},
	}
}

var attrNames = []string{"A", "B", "M", "PM", "P", "IM", "Q", "a", "Arg", "Nope", "M5", "Zz", "Aa", "K", "Name"}

// want: the stateless reference, from reflect only. ok=false: the statement leaves the case open.
func want(v interface{}, name string) (string, bool) {
	rv := reflect.ValueOf(v)
	if rv.Kind() == reflect.Map {
		kv := reflect.ValueOf(name)
		if rv.Type().Key().Kind() == reflect.String {
			kv = kv.Convert(rv.Type().Key())
		}
		mv := rv.MapIndex(kv)
		if !mv.IsValid() {
			return "", true
		}
		return fmt.Sprint(mv.Interface()), true
	}
	isPtr := rv.Kind() == reflect.Ptr
	sv := rv
	if isPtr {
		sv = rv.Elem()
	}
	st := sv.Type()
	if f, ok := st.FieldByName(name); ok {
		if !f.IsExported() {
			return "", true
		}
		return fmt.Sprint(sv.FieldByIndex(f.Index).Interface()), true
	}
	// methods of the dynamic type
	if m, ok := rv.Type().MethodByName(name); ok {
		if m.Type.NumIn() != 1 {
			return "", true // needs arguments: must not be called
		}
		return fmt.Sprint(rv.MethodByName(name).Call(nil)[0].Interface()), true
	}
	if !isPtr {
		// a pointer-receiver method looked up on a value: not in the dynamic type's method set;
		// whether it is reachable is left open by the statement
		if _, ok := reflect.PtrTo(st).MethodByName(name); ok {
			return "", false
		}
	}
	return "", true
}

type lookup struct {
	Obj  int    `json:"obj"`
	Attr string `json:"attr"`
	Sub  bool   `json:"subscript"` // x['name'] instead of x.name (maps only)
}

func (l lookup) String() string {
	o := objects()[l.Obj]
	if l.Sub {
		return fmt.Sprintf("%s['%s']", o.name, l.Attr)
	}
	return o.name + "." + l.Attr
}

var engine *twig.Engine

func setupEngine() {
	engine = twig.New()
	for _, n := range attrNames {
		engine.RegisterString("dot_"+n, "{{ o."+n+" }}")
		engine.RegisterString("sub_"+n, "{{ o['"+n+"'] }}")
	}
	engine.RegisterString("fill", "{{ o.F0 }}{{ o.F1 }}")
}

func doLookup(l lookup, objs []obj) string {
	tpl := "dot_" + l.Attr
	if l.Sub {
		tpl = "sub_" + l.Attr
	}
	out, err := engine.Render(tpl, map[string]interface{}{"o": objs[l.Obj].v})
	if err != nil {
		return "ERR " + err.Error()
	}
	return out
}

var fillerTypes = map[int]reflect.Type{}

// filler performs lookups on fresh struct types to push distinct (type, name) pairs into the cache
func filler(i int) string {
	st, ok := fillerTypes[i]
	if !ok {
		st = reflect.StructOf([]reflect.StructField{
			{Name: "F0", Type: reflect.TypeOf(0)},
			{Name: "F1", Type: reflect.TypeOf("")},
			{Name: fmt.Sprintf("X%d", i), Type: reflect.TypeOf(0)},
		})
		fillerTypes[i] = st
	}
	v := reflect.New(st).Elem()
	v.Field(0).SetInt(int64(i))
	v.Field(1).SetString("s")
	out, err := engine.Render("fill", map[string]interface{}{"o": v.Interface()})
	if err != nil {
		return "ERR " + err.Error()
	}
	if out != fmt.Sprintf("%ds", i) {
		return fmt.Sprintf("filler %d rendered %q", i, out)
	}
	return ""
}

// coherence: every cache entry encodes what a fresh resolution of (type, attr) gives
func coherence() (string, string) {
	if !exportAvailable {
		return "", ""
	}
	ents, cur, max := cacheDump()
	if cur != len(ents) {
		return fmt.Sprintf("cache size counter %d != number of entries %d", cur, len(ents)), ""
	}
	if len(ents) > max {
		return fmt.Sprintf("cache holds %d entries, limit is %d", len(ents), max), ""
	}
	var keys []string
	for _, e := range ents {
		keys = append(keys, fmt.Sprintf("%v.%s#%d", e.Type, e.Attr, e.AccessCount))
		f, found := e.Type.FieldByName(e.Attr)
		if found {
			if !reflect.DeepEqual(e.FieldPath, f.Index) && e.FieldIndex >= 0 {
				// an entry may legitimately encode the field differently only if it still reaches it
				return fmt.Sprintf("stale/incoherent entry for %v.%s: field path %v, fresh resolution %v", e.Type, e.Attr, e.FieldPath, f.Index), ""
			}
			if e.FieldIndex < 0 {
				return fmt.Sprintf("entry for %v.%s says 'no field' but the type has one", e.Type, e.Attr), ""
			}
		} else if e.FieldIndex >= 0 {
			return fmt.Sprintf("entry for %v.%s names field index %d but the type has no such field", e.Type, e.Attr, e.FieldIndex), ""
		}
		if m, ok := e.Type.MethodByName(e.Attr); ok && m.Type.NumIn() == 1 {
			if !e.IsMethod || e.PtrMethod || e.MethodIndex != m.Index {
				return fmt.Sprintf("entry for %v.%s does not encode value method #%d", e.Type, e.Attr, m.Index), ""
			}
		}
	}
	sort.Strings(keys)
	return "", strings.Join(keys, ",")
}

type hres struct {
	viol    string
	choices []vmap.Choice
	states  map[string]bool
	lookups int
}

// runHistory: reset the cache, prefill with `prefill` filler pairs, run the lookups.
func runHistory(limit, prefill int, seq []lookup, prefix []int, objs []obj) hres {
	r := hres{states: map[string]bool{}}
	if exportAvailable {
		cacheReset()
		cacheSetMax(limit)
	}
	vtime.Reset()
	vmap.X = &vmap.Explorer{Prefix: prefix, Active: true}
	defer func() { vmap.X = &vmap.Explorer{} }()
	for h := 0; h < fillerHeat; h++ { // heat: how often every filler pair is looked up
		for i := 0; i < prefill/2; i++ { // each filler render looks up two names
			if v := filler(i); v != "" {
				r.viol = v
				return r
			}
		}
	}
	for i, l := range seq {
		got := doLookup(l, objs)
		r.lookups++
		w, ok := want(objs[l.Obj].v, l.Attr)
		if ok && got != w {
			r.viol = fmt.Sprintf("lookup #%d %v returned %q, want %q", i+1, l, got, w)
			break
		}
		if v, st := coherence(); v != "" {
			r.viol = fmt.Sprintf("after lookup #%d %v: %s", i+1, l, v)
			break
		} else if st != "" {
			r.states[st] = true
		}
	}
	r.choices = vmap.X.Choices
	return r
}

func alphabet(thorough bool) []lookup {
	objs := objects()
	var a []lookup
	add := func(on string, attrs ...string) {
		for i, o := range objs {
			if o.name == on {
				for _, at := range attrs {
					a = append(a, lookup{Obj: i, Attr: at})
				}
			}
		}
	}
	// same names on types with different layouts; promoted and shadowed fields; methods
	add("T1", "A", "M")
	add("T2", "A")
	add("*T1", "A", "PM")
	add("T3", "P", "Q")
	add("T4", "P")
	add("T5", "A", "M")
	add("map", "A")
	add("T6", "Zz")
	add("*T6", "Zz")
	add("LA", "A")
	add("LB", "A")
	// pointer-receiver methods reached through a struct VALUE: their own answer is left open, but
	// they must not change what the pointer (or anything else) answers afterwards
	add("T1", "PM")
	add("T6", "Aa")
	// the same name on maps of three key types, and on two pointers that share an address
	add("mlang", "A")
	add("msi", "A")
	add("mii", "A")
	add("*Doc", "Name")
	add("*Head", "Name")
	if thorough {
		add("*T6", "Aa", "K")
		add("T1", "B", "Arg", "Nope")
		add("T2", "B", "M")
		add("*T2", "A")
		add("T3", "IM", "a")
		add("*T3", "P")
		add("Deep", "P", "Q")
		add("T5", "M5")
		add("msi", "Q")
		add("mlang", "Q")
		add("*Z1", "M")
		add("*Z2", "M")
		for i, o := range objs {
			if o.name == "map" {
				a = append(a, lookup{Obj: i, Attr: "B", Sub: true})
			}
			if o.name == "mii" {
				a = append(a, lookup{Obj: i, Attr: "Q", Sub: true})
			}
		}
	}
	return a
}

func main() {
	vlib.Main(vlib.Spec{
		ID:    "C20",
		Level: "model_checking",
		Rule: "every sequence of attribute lookups over the alphabet up to the depth bound, from an empty attribute cache and from caches pre-filled to just below / at the (lowered) limit, " +
			"crossed with every eviction-order alternative within the deviation bound; plus every (object, name) pair and every short sequence after pre-filling past the real limit of 1000; plus, for 9 first steps (field, value/pointer-receiver methods returning values, pointers, slices, the receiver itself) x every ordered pair of 6 objects x 7 holding shapes (set, list and hash literals, macro arguments, intervening lookups, loops), an answer held across later lookups of the same name on other values must show what the same chain shows immediately; plus every ordered pair of alphabet lookups inside ONE render (cold and warm cache), each answering what it answers alone; plus one render that looks a pair up 2 / 70 times, then enough other pairs to evict it, and ends, after which the pair is looked up again; non-trivial = the history repeats a name on a different type or crosses the eviction threshold",
		Assumptions: []string{
			"the cache limit is lowered through an overlay-only accessor added to package twig at build time (black-box mode with the real limit if that file does not compile against the tree)",
			"eviction order: the map iteration inside the eviction is an explorer choice (rotations, reversal, transpositions of the canonical order for more than 4 entries); time is a logical clock",
			"a pointer-receiver method looked up on a struct value is left open by the statement: whether it resolves is not compared, but if it resolves its answer must not be altered by later lookups (held-answer family, differential oracle)",
		},
		QuickDeadline:    150,
		ThoroughDeadline: 1500,
		Run:              run,
		Extra: func(tier string, cov map[string]interface{}) {
			cov["states"] = cov["distinct_cache_states_per_history_sum"]
			cov["transitions"] = cov["lookups_executed"]
			cov["traces_validated_against_impl"] = cov["executions"]
			cov["export_available"] = exportAvailable
		},
	})
}

func run(t *vlib.T) {
	progressFn = t.Progress
	setupEngine()
	objs := objects()
	alpha := alphabet(t.Thorough())
	alphaSmall := alphabet(false)
	alphaCore := alphaSmall[:15] // without the value-receiver-less lookups appended last (third position of quick histories)
	limits := []int{5}
	depth, dev := 3, 1
	if t.Thorough() {
		limits = []int{6, 16}
		depth, dev = 4, 2
	}
	if !exportAvailable {
		limits = []int{1000}
		t.Note("overlay export unavailable: black-box mode with the real cache limit, no coherence invariant")
	}

	// (1) single lookups of the full grid, fresh cache and after every other lookup (pairs)
	for oi, o := range objs {
		for _, at := range attrNames {
			for _, sub := range []bool{false, true} {
				if sub && reflect.ValueOf(o.v).Kind() != reflect.Map {
					continue
				}
				l := lookup{Obj: oi, Attr: at, Sub: sub}
				t.Case("grid/"+l.String(), func() *vlib.Outcome {
					return exploreHistory(limits[0], 0, []lookup{l, l}, 0, objs)
				})
			}
		}
	}

	// (1b) answers held across later lookups (held.go)
	heldCases(t)
	// (1c) several lookups inside one render (pair.go)
	pairCases(t)
	// (1d) one render that hits a pair, evicts it and ends; then the pair again (longrender.go)
	longRenderCases(t)

	// (2) histories with a lowered limit, from empty and pre-filled caches
	for _, limit := range limits {
		prefills := []int{0, limit - 2, limit}
		if !exportAvailable {
			prefills = []int{0}
		}
		for _, pf := range prefills {
			limit, pf := limit, pf
			// thorough: lengths 2..depth-1 over alpha x alpha x small…; the deepest length over
			// alpha x small x small x small (first limit only), so that the tier completes
			var rec func(seq []lookup, maxDepth, emitFrom int, smallFrom int)
			rec = func(seq []lookup, maxDepth, emitFrom int, smallFrom int) {
				if t.Stopped() {
					return
				}
				if len(seq) >= 2 && len(seq) >= emitFrom {
					s := append([]lookup{}, seq...)
					d := dev
					if t.Thorough() && (len(s) >= 3 || limit != limits[0]) {
						d = 1 // two eviction-order deviations for pairs at the first limit only
					}
					t.Case(fmt.Sprintf("hist/limit%d/prefill%d/%v", limit, pf, s), func() *vlib.Outcome {
						return exploreHistory(limit, pf, s, d, objs)
					})
				}
				if len(seq) == maxDepth {
					return
				}
				al := alpha
				if t.Thorough() && len(seq) >= smallFrom {
					al = alphaSmall
					if emitFrom == depth {
						al = alphaCore // deepest pass: the core alphabet from the second position on
					}
				}
				if !t.Thorough() && len(seq) >= 2 {
					al = alphaCore
				}
				for _, l := range al {
					rec(append(seq, l), maxDepth, emitFrom, smallFrom)
				}
			}
			if !t.Thorough() {
				rec(nil, depth, 2, 0)
			} else if limit == limits[0] {
				rec(nil, depth-1, 2, 2)
				if pf > 0 {
					rec(nil, depth, depth, 1) // deepest pass: from caches that evict
				}
			} else {
				rec(nil, 2, 2, 2) // second limit (137 eviction-order alternatives per point): pairs only
			}
		}
	}

	// (2b) the same with a HOT pre-fill: every pre-fill pair was looked up three / five times
	for _, heat := range []int{3, 5} {
		for _, limit := range limits[:1] {
			for _, pf := range []int{limit, limit + 4} {
				if !exportAvailable {
					continue
				}
				heat, limit, pf := heat, limit, pf
				for _, a := range alphaSmall {
					for _, b := range alphaSmall {
						sq := []lookup{a, b, a}
						t.Case(fmt.Sprintf("hot%d/limit%d/prefill%d/%v", heat, limit, pf, sq), func() *vlib.Outcome {
							fillerHeat = heat
							defer func() { fillerHeat = 1 }()
							// one eviction-order deviation: a pre-fill past the limit evicts while it fills, so a
							// second deviation multiplies the choice points of the pre-fill itself
							return exploreHistory(limit, pf, sq, 1, objs)
						})
					}
				}
			}
		}
	}
	// the real limit with a hot pre-fill (black box)
	for _, pf := range []int{1000, 1100} {
		pf := pf
		for _, a := range alphaSmall {
			sq := []lookup{a, a}
			t.Case(fmt.Sprintf("realhot/prefill%d/%v", pf, sq), func() *vlib.Outcome {
				fillerHeat = 3
				defer func() { fillerHeat = 1 }()
				return exploreHistory(1000, pf, sq, 0, objs)
			})
		}
	}

	// (3) the real limit, black box: prefill past 1000 distinct pairs, then every pair of lookups
	real := []int{0, 900, 998, 1000, 1002, 1100}
	if !t.Thorough() {
		real = []int{998, 1002}
	}
	for _, pf := range real {
		pf := pf
		for _, a := range alphaSmall {
			for _, b := range alpha {
				s := []lookup{a, b, a}
				t.Case(fmt.Sprintf("real/prefill%d/%v", pf, s), func() *vlib.Outcome {
					return exploreHistory(1000, pf, s, 0, objs)
				})
			}
		}
	}
}

var progressFn = func() {}

// fillerHeat: how many times each pre-fill pair is looked up (entries that were used repeatedly
// may be treated differently by the eviction policy)
var fillerHeat = 1

func exploreHistory(limit, prefill int, seq []lookup, dev int, objs []obj) *vlib.Outcome {
	o := &vlib.Outcome{Counters: map[string]int64{}}
	names := map[string]map[int]bool{}
	for _, l := range seq {
		if names[l.Attr] == nil {
			names[l.Attr] = map[int]bool{}
		}
		names[l.Attr][l.Obj] = true
	}
	for _, s := range names {
		if len(s) > 1 {
			o.Nontrivial = true
		}
	}
	if prefill+len(seq) >= limit {
		o.Nontrivial = true
	}
	var dfs func(prefix []int, used int)
	dfs = func(prefix []int, used int) {
		r := runHistory(limit, prefill, seq, prefix, objs)
		o.Counters["executions"]++
		progressFn()
		o.Counters["lookups_executed"] += int64(r.lookups)
		o.Counters["distinct_cache_states_per_history_sum"] += int64(len(r.states))
		if r.viol != "" {
			o.Violation = fmt.Sprintf("limit %d, %d pre-filled pairs, history %v, eviction-order choices %v: %s", limit, prefill, seq, prefix, r.viol)
			d, _ := json.Marshal(map[string]interface{}{"limit": limit, "prefill": prefill, "history": seq, "choices": prefix})
			o.Detail = json.RawMessage(d)
			return
		}
		if used >= dev {
			return
		}
		for i := len(prefix); i < len(r.choices); i++ {
			for alt := 1; alt < r.choices[i].N; alt++ {
				np := make([]int, i+1)
				for j := 0; j < i; j++ {
					np[j] = r.choices[j].C
				}
				np[i] = alt
				o.Counters["eviction_order_alternatives"]++
				dfs(np, used+1)
				if o.Violation != "" {
					return
				}
			}
		}
	}
	dfs(nil, 0)
	if o.Counters["eviction_order_alternatives"] > 0 {
		o.Class = "evicting"
	} else {
		o.Class = "no-eviction"
	}
	return o
}
