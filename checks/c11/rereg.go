package main

// Re-registration family (history dimension "the included name changes its meaning between two renders").
//
// The statement: "An include renders the named template AT THAT POINT ... ignore missing turns a template that does
// not exist into empty output while every other failure is reported." What a name means is what the engine would
// load under that name when the include runs. So: one engine; page + partial are registered; the page is rendered
// (once or twice); the partial is registered again (RegisterString / ParseTemplate+RegisterTemplate; for the engines
// without a template cache: the loader's source changes) with a body that differs in text, in the variables it reads
// and in what it sets - or that now fails, or that did not exist before; the page is rendered again. The oracle is a
// fresh engine of the same configuration that only ever held the final registrations: same output, same error/no
// error. No reference model is needed (both sides are twig), so open defects of the repository cancel out.

import (
	"fmt"
	"sort"

	"github.com/semihalev/twig"

	"verif/lib/vlib"
)

const (
	rbAbsent = iota // the partial does not exist (only as the earlier meaning)
	rbA             // reads a, sets a
	rbB             // reads a b c, sets b
	rbFailInc       // includes a missing template without ignore missing
	rbFailBoom      // fails at render
	rbExtends       // extends pbase, overrides its block, reads c
	nRBodies
)

var rrBodies = [nRBodies]string{
	rbAbsent:   "",
	rbA:        "old[{{ a }}]{% set a = 'X' %}{{ a }}",
	rbB:        "new({{ a }}{{ b }}{{ c }}){% set b = 'Y' %}{% set c = 'Z' %}{{ b }}",
	rbFailInc:  "f{% include 'nowhere' %}",
	rbFailBoom: "g{{ boom() }}",
	rbExtends:  "{% extends 'pbase' %}{% block q %}ext<{{ c }}{{ a }}>{% endblock %}",
}
var rrBodyNames = [nRBodies]string{"absent", "A", "B", "failinc", "failboom", "extends"}

const (
	rpTop = iota
	rpIf
	rpFor
	rpBlock
	rpMacro
	rpNested     // page includes mid, mid holds the tag
	rpChildBlock // page extends lay, the tag stands in the block override
	nRPlaces
)

var rrPlaceNames = [nRPlaces]string{"top", "if", "for", "block", "macro", "nested", "childblock"}

const (
	rcDefault    = iota // cache on, auto-reload off; templates registered on the engine
	rcAutoReload        // cache on, auto-reload on; templates registered on the engine
	rcNoCache           // cache off; templates come from a loader whose source changes
	rcDevMode           // development mode (cache off, auto-reload on, debug on); loader as above
	nRCfgs
)

var rrCfgNames = [nRCfgs]string{"default", "autoreload", "nocache", "devmode"}

type rrCase struct {
	opts     int // oW|oO|oI|oS as in the grid
	place    int
	computed bool // {% include n %} with n = 'part' in the render context
	oldB     int
	newB     int
	cfg      int
	viaTmpl  bool // ParseTemplate + RegisterTemplate instead of RegisterString (registered configurations only)
	pre      int  // renders before the re-registration
}

func (c rrCase) key() string {
	nm, via := "static", "str"
	if c.computed {
		nm = "computed"
	}
	if c.viaTmpl {
		via = "tmpl"
	}
	return fmt.Sprintf("rereg/%s/%s/%s/%s>%s/%s/%s/pre%d", optString(c.opts), rrPlaceNames[c.place], nm, rrBodyNames[c.oldB], rrBodyNames[c.newB], rrCfgNames[c.cfg], via, c.pre)
}

func (c rrCase) tag() string {
	s := "{% include "
	if c.computed {
		s += "n"
	} else {
		s += "'part'"
	}
	if c.opts&oI != 0 {
		s += " ignore missing"
	}
	if c.opts&oW != 0 {
		s += " with {'b': 'W', 'c': a}"
	}
	if c.opts&oO != 0 {
		s += " only"
	}
	if c.opts&oS != 0 {
		s += " sandboxed"
	}
	return s + " %}"
}

// fixed returns the templates that never change (everything but the partial); the entry point is "page".
func (c rrCase) fixed() map[string]string {
	tag, after := c.tag(), "|{{ a }}{{ b }}{{ c }}"
	m := map[string]string{"pbase": "P{% block q %}pq{% endblock %}{{ a }}"}
	switch c.place {
	case rpTop:
		m["page"] = "{{ a }}" + tag + after
	case rpIf:
		m["page"] = "{% if a %}" + tag + "{% endif %}" + after
	case rpFor:
		m["page"] = "{% for i in [1, 2] %}" + tag + "{{ i }}{{ a }}{% endfor %}" + after
	case rpBlock:
		m["page"] = "{% block k %}" + tag + "{% endblock %}" + after
	case rpMacro:
		m["page"] = "{% macro m(a, n) %}" + tag + "{{ a }}{% endmacro %}{{ _self.m(a, n) }}" + after
	case rpNested:
		m["page"] = "{% include 'mid' %}" + after
		m["mid"] = "m(" + tag + ")" + after
	case rpChildBlock:
		m["page"] = "{% extends 'lay' %}{% block k %}" + tag + after + "{% endblock %}"
		m["lay"] = "L{% block k %}lk{% endblock %}{{ a }}"
	}
	return m
}

// rrEngine: an engine of configuration cfg; src is the loader's (mutable) source map of the loader configurations.
func rrEngine(cfg int, src map[string]string) *twig.Engine {
	e := newEngine()
	switch cfg {
	case rcAutoReload:
		e.SetAutoReload(true)
	case rcNoCache:
		e.SetCache(false)
		e.RegisterLoader(&memLoader{src: src})
	case rcDevMode:
		e.SetDevelopmentMode(true)
		e.SetDebug(false) // no log output; cache off and auto-reload on stay
		e.SetCache(false)
		e.SetAutoReload(true)
		e.RegisterLoader(&memLoader{src: src})
	}
	return e
}

// rrPut makes name mean source on e (registered configurations) or in the loader's map.
func rrPut(e *twig.Engine, c rrCase, src map[string]string, name, source string) error {
	if c.cfg == rcNoCache || c.cfg == rcDevMode {
		src[name] = source
		return nil
	}
	if c.viaTmpl {
		tp, err := e.ParseTemplate(source)
		if err != nil {
			return err
		}
		e.RegisterTemplate(name, tp)
		return nil
	}
	return e.RegisterString(name, source)
}

func rrSetup(c rrCase, body int) (*twig.Engine, map[string]string, error) {
	src := map[string]string{}
	e := rrEngine(c.cfg, src)
	fixed := c.fixed()
	names := make([]string, 0, len(fixed))
	for n := range fixed {
		names = append(names, n)
	}
	sort.Strings(names)
	for _, n := range names {
		if err := rrPut(e, c, src, n, fixed[n]); err != nil {
			return nil, nil, fmt.Errorf("registering %s: %v", n, err)
		}
	}
	if body != rbAbsent {
		if err := rrPut(e, c, src, "part", rrBodies[body]); err != nil {
			return nil, nil, fmt.Errorf("registering part: %v", err)
		}
	}
	return e, src, nil
}

var rrVars = map[string]string{"a": "A", "b": "B", "n": "part"}

func rrSame(got, want result) bool {
	if want.err != "" || got.err != "" {
		return (want.err != "") == (got.err != "")
	}
	return got.out == want.out
}

func runRereg(c rrCase) *vlib.Outcome {
	o := &vlib.Outcome{Nontrivial: true, Counters: map[string]int64{"rereg": 1}}
	detail := func(extra map[string]interface{}) map[string]interface{} {
		d := map[string]interface{}{"templates": c.fixed(), "part_before": rrBodies[c.oldB], "part_after": rrBodies[c.newB], "context": fmt.Sprint(rrVars),
			"configuration": rrCfgNames[c.cfg], "via_RegisterTemplate": c.viaTmpl, "renders_before": c.pre}
		for k, v := range extra {
			d[k] = v
		}
		return d
	}
	// the oracle: fresh engines that only ever knew one meaning of the name
	refOld, _, err := rrSetup(c, c.oldB)
	if err != nil {
		o.Violation = "harness: " + err.Error()
		return o
	}
	wantOld := render(refOld, "page", rrVars)
	refNew, _, err := rrSetup(c, c.newB)
	if err != nil {
		o.Violation = "harness: " + err.Error()
		return o
	}
	wantNew := render(refNew, "page", rrVars)

	e, src, err := rrSetup(c, c.oldB)
	if err != nil {
		o.Violation = "harness: " + err.Error()
		return o
	}
	for i := 0; i < c.pre; i++ {
		got := render(e, "page", rrVars)
		o.Counters["renders"]++
		if !rrSame(got, wantOld) {
			o.Violation = fmt.Sprintf("%s: render %d before the re-registration: got %s, a fresh engine gives %s", c.key(), i+1, got, wantOld)
			o.Detail = detail(map[string]interface{}{"got": got.String(), "want": wantOld.String()})
			return o
		}
	}
	if err := rrPut(e, c, src, "part", rrBodies[c.newB]); err != nil {
		o.Violation = "harness: registering part again: " + err.Error()
		return o
	}
	got := render(e, "page", rrVars)
	again := render(e, "page", rrVars)
	o.Counters["renders"] += 4
	cls := "out"
	if wantNew.err != "" {
		cls = "err"
	}
	wo := "out"
	if wantOld.err != "" {
		wo = "err"
	}
	differs := "same"
	if wantOld.String() != wantNew.String() && !(wantOld.err != "" && wantNew.err != "") {
		differs = "differs"
		o.Counters["rereg_old_and_new_meaning_render_differently"] = 1
	}
	o.Nontrivial = differs == "differs"
	o.Class = "rereg:" + wo + ">" + cls + ":" + differs
	for i, g := range []result{got, again} {
		if !rrSame(g, wantNew) {
			o.Violation = fmt.Sprintf("%s: page %q, include tag %s; 'part' meant %q, was rendered %d time(s), now means %q: render %d afterwards gives %s, an engine that only ever had the new template gives %s (with the old one: %s)",
				c.key(), c.fixed()["page"], c.tag(), rrBodies[c.oldB], c.pre, rrBodies[c.newB], i+1, g, wantNew, wantOld)
			o.Detail = detail(map[string]interface{}{"got": g.String(), "want": wantNew.String(), "with_old_meaning": wantOld.String()})
			return o
		}
	}
	return o
}

// enumerateRereg: every option set x placement x static/computed name x (earlier meaning, later meaning) x engine
// configuration x way of registering x number of earlier renders
func enumerateRereg(t *vlib.T) bool {
	pres := []int{1}
	if t.Thorough() {
		pres = []int{1, 2}
	}
	for _, pre := range pres {
		for cfg := 0; cfg < nRCfgs; cfg++ {
			vias := []bool{false, true}
			if cfg == rcNoCache || cfg == rcDevMode {
				vias = []bool{false}
			}
			for _, via := range vias {
				for place := 0; place < nRPlaces; place++ {
					for _, computed := range []bool{false, true} {
						for oldB := 0; oldB < nRBodies; oldB++ {
							for newB := rbA; newB < nRBodies; newB++ {
								if oldB == newB {
									continue
								}
								for opts := 0; opts < 16; opts++ {
									if t.Stopped() {
										return false
									}
									c := rrCase{opts: opts, place: place, computed: computed, oldB: oldB, newB: newB, cfg: cfg, viaTmpl: via, pre: pre}
									t.Case(c.key(), func() *vlib.Outcome { return runRereg(c) })
								}
							}
						}
					}
				}
			}
		}
	}
	return true
}
