// C11 — include renders in the right scope and never changes the includer's state.
//
// Bounded-exhaustive enumeration of include programs: every combination of with / only /
// ignore missing / sandboxed x name form (static, computed) x target (exists, extends a parent,
// missing, fails at render, fails at parse, loader fails, nested missing include) x placement (top
// level, if, for, block, macro, block of a child template, inside a template that is itself included
// through five routes) x variable sets (includer defines a subset of {a,b}, through the render context or through
// set; with passes a subset of {a,c}; the included template sets a subset of {a,b,c,d}, runs a loop,
// defines a block and a macro with the includer's names) x tokenizer (source below / above the
// 4096-byte switch) x the includer's position in an extends chain (none; the layout of a chain of one
// or two extending templates that override its blocks, block k - which it renders after the include -
// with parent() or not at all; the block override of the template next to the layout) x blocks of an
// included template that extends (its parent defines / it overrides / it overrides with parent() a
// block named like the includer's block k) x history (none; an earlier render in the same process - on the
// same engine or on another one - that fails inside an include: a with-hash whose 2nd / 3rd entry divides
// by zero, uses an unknown filter or calls a failing function, a target that fails, is missing, includes a
// missing template or fails after an include of its own) x definitions of the included template under names
// the includer uses as well (a macro m, a from-imported m - also through an alias -, a module imported as u,
// alone and together; in a template without any block, with a block, in the parent of an included template that
// extends; the includer and the template in the middle of a nested route have their own m - a macro or
// from-imported - and u, and call them after the include: in every loop iteration, in the block, after the
// macro call, in the parent after the overridden block) x relative names (none; the tag names its target as ./x,
// ../x, ./d/x, ../../x from a template at top level or in a sub-directory, the denoted template being fine,
// missing, unparsable, unloadable or failing - only a missing one may be swallowed by ignore missing) x loader
// arrangement (templates registered on the engine; or everything behind a ChainLoader of 1-3 members, the one member
// that has the target - and may fail to deliver it - being first, in the middle or last). A further family
// (nullchain.go) enumerates include chains of depth 1-3 with a NULL binding of a variable on the way. Every
// program is rendered by the real engine and
// compared with the reference model of model.go (transcribed from the property statement).
package main

import (
	"errors"
	"fmt"
	"sort"
	"strings"

	"github.com/semihalev/twig"

	"verif/lib/vlib"
)

// ---- case description

const (
	tPlain = iota
	tExtends
	tMissing
	tRenderFail
	tParseFail
	tIOFail
	tNestedMissing
	nTargets
)

var targetName = [nTargets]string{"inc", "inx", "nop", "brt", "bsy", "bio", "nmi"}
var targetLabel = [nTargets]string{"plain", "extends", "missing", "renderfail", "parsefail", "iofail", "nestedmissing"}

const (
	oW = 1 << iota
	oO
	oI
	oS
)

const (
	pTop = iota
	pIf
	pFor
	pBlock
	pMacro
	pChildBlock
	pNest0 // included plainly
	pNest1 // included with {'b': 'Rb'}
	pNest2 // included with {...} only
	pNest3 // included sandboxed
	pNest4 // included with {'b': 'Rb'} sandboxed
	nPlaces
)

var placeLabel = [nPlaces]string{"top", "if", "for", "block", "macro", "childblock", "nest-plain", "nest-with", "nest-only", "nest-sandboxed", "nest-with-sandboxed"}

type cas struct {
	target   int
	opts     int
	withMask int // bit0: a, bit1: c (only with oW)
	wstyle   int // 0 quoted keys, literal values; 1 unquoted keys; 2 value of c computed from the includer's b; 3 literals full of tag syntax
	name     int // name form, see model.go nameExpr
	place    int
	incMask  int // includer defines bit0: a, bit1: b
	defSet   bool
	setMask  int // included template sets bit0..3: a b c d
	extra    int // 0 none, 1 loop over q, 2 loop over z, 3 block k + macro m, 4 loop over z + block k + macro m
	pad      bool
	// the includer as part of an extends chain (depth 0: it is not; all fields below are 0 then)
	depth  int // number of templates that extend the layout `lay`: 1 (main) or 2 (main extends pg extends lay)
	holder int // 0: the include stands in the body of the layout; 1: in the override of block kk written by the template that extends the layout (place == pChildBlock)
	kOver  int // which extending templates override block k with `Pn[{{ parent() }}]`: bit0 the one next to the layout, bit1 the one above it
	// blocks of an included template that extends, beside `ib`: 0 none; 1 its parent defines block k;
	// 2 it overrides that block k; 3 it overrides it and calls parent()
	xblk int
	// history (hist == 0: none; all fields below are 0 then): before the program is rendered, a render that
	// fails inside an include takes place in the same process (histRounds times)
	hist  int // kind of the earlier failure, see histLabel
	hEng  int // 0: the earlier render ran on the engine that renders the case afterwards; 1: on another engine
	hOpts int // options of the failing include beside `with`: bit0 only, bit1 sandboxed
	// what the included template DEFINES under names the includer uses as well (mdef == 0: the older cases; the
	// fields below are 0 then). With mdef != 0 the template that holds the include defines macro m (or
	// from-imports an m) and imports a module as u, and calls its m and u.f after the include.
	mdef int // see mdefLabel
	mblk int // 1: the included template defines a block as well (plain: block k; extends: it overrides block k of its parent with parent())
	isrc int // where the includer's m comes from: 0 its own macro, called as _self.m(); 1 `from 'ulib' import m`, called as m()
	// relative name (rel == 0: the older cases, every template at top level and named as it is registered): the
	// include under test names its target relative to the directory of the template it is written in, see relForms
	rel int
	// loader arrangement (ld == 0: the older cases - templates registered on the engine, the unloadable ones behind two
	// loaders of the engine): the engine's only loader is a ChainLoader, see ldForms
	ld int
}

// ldForm: the engine has ONE loader, a twig.ChainLoader with `size` members. Exactly one member - the one at position
// pos - has the target of the include under test, in whatever state the case says (its source, a source that does
// not parse, or a load that fails with an I/O error; for a missing target no member has it). Every other template of
// the case lives in the member after it (cyclically; the same member when there is only one), a third member holds an
// unrelated template. No template is held by two members.
type ldForm struct{ size, pos int }

var ldForms = []ldForm{{}, {1, 0}, {2, 0}, {2, 1}, {3, 0}, {3, 1}, {3, 2}}

// relForm: the template that holds the include under test is registered as <holderDir>/main (or <holderDir>/mid for
// the nested routes), the tag names its target as <written><target>, and the target - in whatever state the case
// says: fine, missing, failing at render, not parsing, failing in the loader - is <targetDir>/<target>. Nothing is
// ever registered under the name as written, nor under that name taken relative to any other directory.
type relForm struct{ holderDir, written, targetDir string }

var relForms = []relForm{
	{},
	{"", "./", ""},           // from a top-level template
	{"sd", "./", "sd"},       // from a template in a sub-directory: the same directory
	{"sd/in", "../", "sd"},   // the directory above, itself a sub-directory
	{"sd", "../", ""},        // the directory above: top level
	{"sd", "./in/", "sd/in"}, // a directory below
	{"sd/in", "../../", ""},  // two levels up
}

// the directories templates live in
var relDirs = []string{"", "sd", "sd/in", "zz"}

func dirOf(name string) string {
	if i := strings.LastIndex(name, "/"); i >= 0 {
		return name[:i]
	}
	return ""
}

func at(dir, name string) string {
	if dir == "" {
		return name
	}
	return dir + "/" + name
}

// names of the templates a case registers: the entry point, the template in the middle of a nested route, the
// parent of the childblock placement, the target
func (c cas) names() (mainName, midName, baseName, tgtName string) {
	rf := relForms[c.rel]
	mainDir := rf.holderDir
	if c.place >= pNest0 && c.rel != 0 {
		// the template in the middle holds the tag; the entry point lives in another directory, so that a name
		// resolved against the entry point's directory denotes nothing
		mainDir = ""
		if rf.holderDir == "" {
			mainDir = "zz"
		}
	}
	return at(mainDir, "main"), at(rf.holderDir, "mid"), at(mainDir, "base"), at(rf.targetDir, targetName[c.target])
}

// what the included template defines (a plain template: at its top level; a template that extends: at the top
// level of the parent it extends, which renders it)
const (
	mNone        = iota
	mMacro       // {% macro m() %}IM{% endmacro %}, calls _self.m()
	mFrom        // {% from 'flib' import m %}, calls m()
	mFromAlias   // {% from 'flib' import f as m %}, calls m()
	mImport      // {% import 'flib' as u %}, calls u.f()
	mMacroImport // mMacro + mImport
	mFromImport  // mFrom + mImport
	nMdef
)

var mdefLabel = [nMdef]string{"", "macro", "from-import", "from-import-alias", "import-as", "macro+import-as", "from-import+import-as"}

// kinds of the earlier failure. The failing include is `{% include T with {…} [only] [sandboxed] %}` at the top
// level of a template `hist`; its with-hash passes a, b, c, d (values Ha … Hd) and hist is rendered with a
// context that defines a, b, c, d, q (Pa … Pq).
const (
	hNone              = iota
	hDiv2              // T = the case's own target; the 2nd entry of the with-hash is `1 / 0`
	hDiv3              // … the 3rd entry
	hFlt2              // 2nd entry `'x'|nosuch`
	hFlt3              // 3rd entry
	hFn2               // 2nd entry `boom()` (callback error)
	hFn3               // 3rd entry
	hTmplFails         // T fails at render (callback error)
	hMissing           // T does not exist (no `ignore missing`)
	hNestedMissing     // T exists and includes a template that does not exist
	hFailsAfterInclude // T includes the case's own target (that include completes) and fails afterwards
	nHist
)

var histLabel = [nHist]string{"", "with-div0-2nd", "with-div0-3rd", "with-nofilter-2nd", "with-nofilter-3rd", "with-callback-2nd", "with-callback-3rd",
	"target-fails", "target-missing", "target-nested-missing", "target-fails-after-own-include"}

// histRounds: how often the failing render is performed before the case's program is rendered. (The engine
// is free to evaluate the entries of a hash in any order; with several rounds it is practically certain
// that on some round a good entry was evaluated before the failing one.)
const histRounds = 3

func (c cas) key() string {
	p, d := 0, 0
	if c.pad {
		p = 1
	}
	if c.defSet {
		d = 1
	}
	k := fmt.Sprintf("t%d/o%x/w%d.%d/n%d/p%d/i%d.%d/s%x/x%d/k%d", c.target, c.opts, c.withMask, c.wstyle, c.name, c.place, c.incMask, d, c.setMask, c.extra, p)
	if c.xblk != 0 { // suffixes only for the dimensions added later: the keys of the older cases are unchanged
		k += fmt.Sprintf("/b%d", c.xblk)
	}
	if c.depth != 0 {
		k += fmt.Sprintf("/c%d.%d.%d", c.depth, c.holder, c.kOver)
	}
	if c.mdef != 0 {
		k += fmt.Sprintf("/m%d.%d.%d", c.mdef, c.mblk, c.isrc)
	}
	if c.rel != 0 {
		k += fmt.Sprintf("/r%d", c.rel)
	}
	if c.hist != 0 {
		k += fmt.Sprintf("/h%d.%d.%d", c.hist, c.hEng, c.hOpts)
	}
	if c.ld != 0 {
		k += fmt.Sprintf("/l%d.%d", ldForms[c.ld].size, ldForms[c.ld].pos)
	}
	return k
}

func (c cas) chainLabel() string {
	if c.depth == 0 {
		return ""
	}
	h := "layout"
	if c.holder == 1 {
		h = "override"
	}
	return fmt.Sprintf("chain%d-%s-k%d", c.depth, h, c.kOver)
}

func optString(o int) string {
	s := ""
	for i, l := range []string{"W", "O", "I", "S"} {
		if o&(1<<i) != 0 {
			s += l
		}
	}
	if s == "" {
		return "-"
	}
	return s
}

// ---- program construction

var abcd = []string{"a", "b", "c", "d"}

func prints(sep string, vs ...string) []node {
	var ns []node
	for i, v := range vs {
		if i > 0 && sep != "" {
			ns = append(ns, nText{sep})
		}
		ns = append(ns, nPrint{v})
	}
	return ns
}

func cat(parts ...[]node) []node {
	var ns []node
	for _, p := range parts {
		ns = append(ns, p...)
	}
	return ns
}

func one(n node) []node { return []node{n} }

// program: the templates of a case, the render context, and the world the model evaluates.
type program struct {
	w      *world
	ctx    map[string]string
	padded []string // the templates that get the comment padding in the padded twin (those that hold includes)
	entry  string   // the template that is rendered
	// history cases: the templates of the earlier, failing render (entry point `hist`) and its context
	hw   *world
	hctx map[string]string
}

func build(c cas) *program {
	// tn: the target's name as the include under test writes it; reg: the name it is registered under
	mainName, midName, baseName, reg := c.names()
	rf := relForms[c.rel]
	tn := rf.written + targetName[c.target]
	w := &world{tmpls: map[string]*tmpl{}, fails: unloadable}

	// the include under test
	inc := nInclude{name: nameExpr{form: c.name, target: tn}, withOn: c.opts&oW != 0, only: c.opts&oO != 0, ignore: c.opts&oI != 0, sandboxed: c.opts&oS != 0}
	if inc.withOn {
		if c.withMask&1 != 0 {
			e := withEntry{key: "a", unq: c.wstyle == 1, lit: "Wa"}
			if c.wstyle == 3 {
				e.lit = "W:a,}"
			}
			inc.with = append(inc.with, e)
		}
		if c.withMask&2 != 0 {
			e := withEntry{key: "c", unq: c.wstyle == 1, lit: "Wc"}
			if c.wstyle == 2 {
				e.lit, e.fromVar = "", "b"
			} else if c.wstyle == 3 {
				e.lit = " with {only} "
			}
			inc.with = append(inc.with, e)
		}
	}

	// the included template
	var body []node
	body = cat(one(nText{"<"}), prints(",", abcd...), one(nText{">"}))
	for i, v := range abcd {
		if c.setMask&(1<<i) != 0 {
			body = append(body, nSet{v, "S" + v})
		}
	}
	loopVar := ""
	switch c.extra {
	case 1:
		loopVar = "q"
	case 2, 4:
		loopVar = "z"
	}
	if loopVar != "" {
		body = append(body, nFor{loopVar, []string{"u", "v"}, []node{nLoopIdx{}}})
	}
	if c.extra >= 3 {
		body = append(body, nBlock{"k", one(nText{"IK"})}, nMacroDef{"m", nil, one(nText{"IM"})}, nMacroCall{"m", nil})
	}
	// what the included template defines under the includer's names m and u, and its own use of them
	var idefs []node
	switch c.mdef {
	case mMacro, mMacroImport:
		idefs = append(idefs, nMacroDef{"m", nil, one(nText{"IM"})}, nMacroCall{"m", nil})
	case mFrom, mFromImport:
		idefs = append(idefs, nFromImport{"flib", "m", "m"}, nCall{"m"})
	case mFromAlias:
		idefs = append(idefs, nFromImport{"flib", "f", "m"}, nCall{"m"})
	}
	if c.mdef >= mImport {
		idefs = append(idefs, nImport{"flib", "u"}, nModCall{"u", "f"})
	}
	if c.mdef >= mFrom && (c.target == tPlain || c.target == tExtends) {
		w.tmpls["flib"] = lib("FM", "FF")
	}
	xblk := c.xblk
	if c.mdef != 0 && c.target == tPlain {
		if c.mblk == 1 {
			body = append(body, nBlock{"k", one(nText{"IK"})})
		}
		body = append(body, idefs...)
	}
	if c.mdef != 0 && c.mblk == 1 {
		xblk = 3
	}
	body = cat(body, one(nText{"("}), prints(",", abcd...), one(nText{")"}))
	switch c.target { // only what the case can reach is registered (keeps a case cheap)
	case tPlain:
		w.tmpls[reg] = &tmpl{body: body, dir: rf.targetDir}
	case tExtends:
		inx := &tmpl{extends: "ibase", body: one(nBlock{"ib", body}), dir: rf.targetDir}
		ibase := &tmpl{body: cat(one(nText{"IB["}), prints(",", abcd...), one(nText{":"}), one(nBlock{"ib", one(nText{"dflt"})}), idefs, one(nText{"]"}))}
		if xblk >= 1 { // a block with the name of the block the includer renders after the include
			ibase.body = append(ibase.body, nBlock{"k", one(nText{"BK"})})
		}
		switch xblk {
		case 2:
			inx.body = append(inx.body, nBlock{"k", one(nText{"IK"})})
		case 3:
			inx.body = append(inx.body, nBlock{"k", []node{nText{"IK["}, nParent{}, nText{"]"}}})
		}
		w.tmpls[reg], w.tmpls["ibase"] = inx, ibase
	case tRenderFail:
		w.tmpls[reg] = &tmpl{body: []node{nText{"x"}, nBoom{}}, dir: rf.targetDir}
	case tNestedMissing:
		w.tmpls[reg] = &tmpl{body: []node{nText{"N"}, nInclude{name: nameExpr{form: 0, target: "nop"}}}, dir: rf.targetDir}
	}

	// the including template
	ctx := map[string]string{"nm": tn, "pfx": tn[:2], "sfx": tn[2:]}
	var defs []node
	for i, v := range []string{"a", "b"} {
		if c.incMask&(1<<i) != 0 {
			if c.defSet {
				defs = append(defs, nSet{v, "I" + v})
			} else {
				ctx[v] = "I" + v
			}
		}
	}
	macroM := nMacroDef{"m", nil, one(nText{"MM"})}
	// macros: definitions at the head of the template that holds the include; placed: the include in its placement
	macros := one(node(macroM))
	// own: the includer's calls of its own m and u.f (mdef != 0 only)
	var own []node
	heads := func(ownMacro, libName string) (head, calls []node) {
		if c.isrc == 0 {
			head, calls = one(node(nMacroDef{"m", nil, one(nText{ownMacro})})), one(node(nMacroCall{"m", nil}))
		} else {
			head, calls = one(node(nFromImport{libName, "m", "m"})), one(node(nCall{"m"}))
		}
		return append(head, nImport{libName, "u"}), append(calls, nModCall{"u", "f"})
	}
	if c.mdef != 0 {
		macros, own = heads("MM", "ulib")
		w.tmpls["ulib"] = lib("UM", "UF")
	}
	after := cat(one(nText{"|"}), prints(",", "a", "b", "c", "d", "q"), one(nText{"|"}), one(nMacroCall{"m", nil}), one(nText{"|"}), one(nBlock{"k", one(nText{"MK"})}))
	if c.mdef != 0 {
		after = cat(one(nText{"|"}), prints(",", "a", "b", "c", "d", "q"), one(nText{"|"}), own, one(nText{"|"}), one(nBlock{"k", one(nText{"MK"})}))
	}
	local := cat(one(nText{"("}), prints(",", "a", "b", "c", "d", "q"), one(nText{")"}))
	// localOwn: the same followed by the includer's calls of its m and u.f, where the text after the include
	// belongs to the template that made the definitions (not in a macro body, not in a block override)
	localOwn := cat(local, own)
	var placed []node
	switch c.place {
	case pTop:
		placed = cat(one(nText{"A"}), one(inc))
	case pIf:
		placed = one(node(nIf{one(inc)}))
	case pFor:
		inner := cat(one(inc), one(nText{"["}), one(nPrint{"z"}), one(nLoopIdx{}), one(nText{","}), prints(",", abcd...), one(nText{"]"}), own)
		placed = one(node(nFor{"z", []string{"1", "2"}, inner}))
	case pBlock:
		placed = one(node(nBlock{"kk", cat(one(inc), localOwn)}))
	case pMacro:
		params := []string{"a", "b", "nm", "pfx", "sfx"}
		macros = append(macros, nMacroDef{"mm", params, cat(one(inc), local)})
		placed = one(node(nMacroCall{"mm", params}))
	case pChildBlock:
		// the include stands in a block override of a template that extends; see below
	default:
		route := nInclude{name: nameExpr{form: 0, target: midName}}
		switch c.place {
		case pNest1:
			route.withOn, route.with = true, []withEntry{{key: "b", lit: "Rb"}}
		case pNest2:
			route.withOn, route.only = true, true
			route.with = []withEntry{{key: "nm", lit: tn}, {key: "pfx", lit: tn[:2]}, {key: "sfx", lit: tn[2:]}}
		case pNest3:
			route.sandboxed = true
		case pNest4:
			route.withOn, route.sandboxed, route.with = true, true, []withEntry{{key: "b", lit: "Rb"}}
		}
		placed = one(node(route))
		// the template in the middle is an includer (of the include under test) and an included template (of main)
		// at once: it defines its own m and u, which main must not see, and must keep them after the include
		var midHead, midOwn []node
		if c.mdef != 0 {
			midHead, midOwn = heads("DM", "dlib")
			midOwn = cat(one(nText{"|"}), midOwn)
			w.tmpls["dlib"] = lib("DX", "DF")
		}
		w.tmpls[midName] = &tmpl{body: cat(midHead, one(nText{"M["}), one(inc), one(nText{"|"}), prints(",", "a", "b", "c", "d", "q"), midOwn, one(nText{"]"})), dir: rf.holderDir}
	}
	padded := []string{mainName, midName}
	switch {
	case c.depth == 0 && c.place == pChildBlock:
		// (with a relative name: the parent lives in the directory of the template that extends it)
		w.tmpls[mainName] = &tmpl{extends: baseName, body: one(nBlock{"kk", cat(one(inc), local)}), dir: rf.holderDir}
		baseHead, baseOwn := []node(nil), []node(nil)
		if c.mdef != 0 { // the parent renders the block that holds the include: its m and u are probed after the block
			baseHead, baseOwn = macros, cat(one(nText{"|"}), own)
		}
		w.tmpls[baseName] = &tmpl{body: cat(baseHead, one(nText{"B<"}), one(nBlock{"kk", nil}), one(nText{">"}), prints(",", "a", "b", "c", "d", "q"), baseOwn), dir: rf.holderDir}
	case c.depth == 0:
		w.tmpls[mainName] = &tmpl{body: cat(macros, defs, placed, after), dir: dirOf(mainName)}
	default:
		// The includer is part of an extends chain: main [extends pg] extends lay. Every extending template
		// overrides block t (so the layout always renders with block definitions from above); block k, which
		// the layout renders after the include (in `after`), is overridden as kOver says, with parent().
		var kkOverride []node
		if c.holder == 1 {
			placed = one(node(nBlock{"kk", nil}))
			kkOverride = one(node(nBlock{"kk", cat(one(inc), local)}))
		}
		w.tmpls["lay"] = &tmpl{body: cat(macros, defs, one(nBlock{"t", one(nText{"t0"})}), one(nText{"<"}), placed, one(nText{">"}), after)}
		next := "lay"
		for lvl := 1; lvl <= c.depth; lvl++ {
			n := fmt.Sprint(lvl)
			t := &tmpl{extends: next, body: one(node(nBlock{"t", one(nText{"T" + n})}))}
			if lvl == 1 {
				t.body = append(t.body, kkOverride...)
			}
			if c.kOver&(1<<(lvl-1)) != 0 {
				t.body = append(t.body, nBlock{"k", []node{nText{"P" + n + "["}, nParent{}, nText{"]"}}})
			}
			next = "pg"
			if lvl == c.depth {
				next = "main"
			}
			w.tmpls[next] = t
		}
		padded = []string{"main", "pg", "lay", "mid"}
	}
	p := &program{w: w, ctx: ctx, padded: padded, entry: mainName}
	if c.hist != 0 {
		p.hw, p.hctx = buildHist(c, w, tn)
		p.padded = append(p.padded, "hist", "hmid")
	}
	return p
}

// lib: a template that only defines the macros m and f.
func lib(m, f string) *tmpl {
	return &tmpl{body: []node{nMacroDef{"m", nil, one(nText{m})}, nMacroDef{"f", nil, one(nText{f})}}}
}

// buildHist: the templates of the earlier render, which fails inside an include (see the h… constants).
func buildHist(c cas, w *world, tn string) (*world, map[string]string) {
	hw := &world{tmpls: map[string]*tmpl{}, fails: w.fails}
	// a template that exists and prints a-d: the case's own target (the same template is then rendered again by
	// the case) or, when the case's target is missing, a template of its own
	own := tn
	switch c.target {
	case tPlain:
		hw.tmpls["inc"] = w.tmpls["inc"]
	case tExtends:
		hw.tmpls["inx"], hw.tmpls["ibase"] = w.tmpls["inx"], w.tmpls["ibase"]
	default:
		own = "hinc"
		hw.tmpls["hinc"] = &tmpl{body: cat(one(nText{"<"}), prints(",", abcd...), one(nText{">"}))}
	}
	var with []withEntry
	for _, v := range abcd {
		with = append(with, withEntry{key: v, lit: "H" + v})
	}
	insert := func(at int, e withEntry) {
		with = append(with[:at], append([]withEntry{e}, with[at:]...)...)
	}
	target := own
	switch c.hist {
	case hDiv2, hFlt2, hFn2:
		insert(1, withEntry{key: "e", fail: (c.hist + 1) / 2})
	case hDiv3, hFlt3, hFn3:
		insert(2, withEntry{key: "e", fail: (c.hist + 1) / 2})
	case hTmplFails:
		target = "brt"
		hw.tmpls["brt"] = &tmpl{body: []node{nText{"x"}, nBoom{}}}
	case hMissing:
		target = "nop"
	case hNestedMissing:
		target = "nmi"
		hw.tmpls["nmi"] = &tmpl{body: []node{nText{"N"}, nInclude{name: nameExpr{form: 0, target: "nop"}}}}
	case hFailsAfterInclude:
		target = "hmid"
		hw.tmpls["hmid"] = &tmpl{body: []node{nText{"M"}, nInclude{name: nameExpr{form: 0, target: own}}, nBoom{}}}
	}
	inc := nInclude{name: nameExpr{form: 0, target: target}, withOn: true, with: with, only: c.hOpts&1 != 0, sandboxed: c.hOpts&2 != 0}
	hw.tmpls["hist"] = &tmpl{body: cat(one(nText{"H"}), one(inc), one(nText{"|"}), prints(",", abcd...))}
	hctx := map[string]string{}
	for _, v := range []string{"a", "b", "c", "d", "q"} {
		hctx[v] = "P" + v
	}
	return hw, hctx
}

// ---- the real engine

type allowAll struct{}

func (allowAll) IsFunctionAllowed(string) bool { return true }
func (allowAll) IsFilterAllowed(string) bool   { return true }
func (allowAll) IsTagAllowed(string) bool      { return true }

var errIO = errors.New("simulated I/O failure")

type ioLoader struct{}

func (ioLoader) Load(name string) (string, error) {
	if unloadable[name] == failIO {
		return "", errIO
	}
	return "", fmt.Errorf("%w: %s", twig.ErrTemplateNotFound, name)
}
func (ioLoader) Exists(name string) bool { return unloadable[name] == failIO }

// unloadable: the templates that exist and cannot be loaded (bsy: its source does not parse; bio: the loader fails
// with an error that is not "not found"), one of each in every directory; badSources: what the array loader holds
var unloadable, badSources = func() (map[string]string, map[string]string) {
	u, b := map[string]string{}, map[string]string{}
	for _, d := range relDirs {
		u[at(d, "bsy")], u[at(d, "bio")] = failParse, failIO
		b[at(d, "bsy")] = "x{% if %}"
	}
	return u, b
}()

var pad = "{# " + strings.Repeat("p", 4100) + " #}"

type result struct {
	out string
	err string // "" = success
}

func (r result) String() string {
	if r.err != "" {
		return "error(" + r.err + ")"
	}
	return fmt.Sprintf("%q", r.out)
}

func newEngine() *twig.Engine {
	e := twig.New()
	e.EnableSandbox(allowAll{})
	e.RegisterLoader(twig.NewArrayLoader(badSources))
	e.RegisterLoader(ioLoader{})
	e.AddFunction("boom", func(args ...interface{}) (interface{}, error) { return nil, errors.New("boom") })
	return e
}

// printAll prints the templates (sorted by name): src is what the engine gets, sources what a report shows (the
// comment padding abbreviated).
func printAll(tmpls map[string]*tmpl, padNames []string, padded bool, sources map[string]string) (names []string, src map[string]string) {
	names = make([]string, 0, len(tmpls))
	for n := range tmpls {
		names = append(names, n)
	}
	sort.Strings(names)
	src = map[string]string{}
	for _, n := range names {
		s := printTmpl(tmpls[n])
		if padded && contains(padNames, n) {
			if tmpls[n].extends != "" {
				// extends stays the first tag; the comment follows it
				s = "{% extends " + q(tmpls[n].extends) + " %}" + pad + printNodes(tmpls[n].body)
			} else {
				s = pad + s
			}
			sources[n] = strings.Replace(s, pad, "{# 4100 x p #}", 1)
		} else {
			sources[n] = s
		}
		src[n] = s
	}
	return names, src
}

// register prints the templates and registers them (sorted by name); "" = all of them parsed.
func register(e *twig.Engine, tmpls map[string]*tmpl, padNames []string, padded bool, sources map[string]string) string {
	names, src := printAll(tmpls, padNames, padded, sources)
	for _, n := range names {
		if err := e.RegisterString(n, src[n]); err != nil {
			return "template " + n + " does not parse: " + err.Error()
		}
	}
	return ""
}

// memLoader: a member of a chain that has the templates of src and, beside them, the templates of io - which it
// cannot deliver (a share that is down): Exists says yes, Load fails with an error that is not "not found".
type memLoader struct {
	src map[string]string
	io  map[string]bool
}

func (l *memLoader) Load(name string) (string, error) {
	if l.io[name] {
		return "", fmt.Errorf("reading %s: %w", name, errIO)
	}
	if s, ok := l.src[name]; ok {
		return s, nil
	}
	return "", fmt.Errorf("%w: %s", twig.ErrTemplateNotFound, name)
}
func (l *memLoader) Exists(name string) bool { _, ok := l.src[name]; return ok || l.io[name] }

// runTwigChainLoader: nothing is registered on the engine; its only loader is a ChainLoader arranged as ldForms[c.ld]
// says. The members that can deliver everything they have are twig's own ArrayLoaders.
func runTwigChainLoader(p *program, c cas) (res result, sources map[string]string) {
	sources = map[string]string{}
	lf := ldForms[c.ld]
	_, _, _, reg := c.names()
	_, src := printAll(p.w.tmpls, p.padded, c.pad, sources)
	held := make([]map[string]string, lf.size)
	for i := range held {
		held[i] = map[string]string{}
	}
	rest := (lf.pos + 1) % lf.size
	for n, s := range src {
		if n == reg {
			held[lf.pos][n] = s
		} else {
			held[rest][n] = s
		}
	}
	for i := range held {
		if i != lf.pos && i != rest {
			held[i]["unrel"] = "x"
		}
	}
	members := make([]twig.Loader, lf.size)
	for i := range members {
		members[i] = twig.NewArrayLoader(held[i])
	}
	switch c.target {
	case tParseFail:
		held[lf.pos][reg] = badSources[reg]
		sources[reg] = badSources[reg]
	case tIOFail:
		members[lf.pos] = &memLoader{src: held[lf.pos], io: map[string]bool{reg: true}}
	}
	e := twig.New()
	e.EnableSandbox(allowAll{})
	e.RegisterLoader(twig.NewChainLoader(members))
	e.AddFunction("boom", func(args ...interface{}) (interface{}, error) { return nil, errors.New("boom") })
	return render(e, p.entry, p.ctx), sources
}

func render(e *twig.Engine, name string, vars map[string]string) result {
	ctx := map[string]interface{}{}
	for k, v := range vars {
		ctx[k] = v
	}
	out, err := e.Render(name, ctx)
	if err != nil {
		return result{err: err.Error()}
	}
	return result{out: out}
}

func runTwig(p *program, padded bool) (res result, sources map[string]string) {
	sources = map[string]string{}
	e := newEngine()
	if msg := register(e, p.w.tmpls, p.padded, padded, sources); msg != "" {
		return result{err: msg}, sources
	}
	return render(e, p.entry, p.ctx), sources
}

// runTwigAfterFailure: the earlier render (template hist, histRounds times; every round must fail) and then
// the case's program, on the same engine (sameEngine) or on an engine created afterwards.
func runTwigAfterFailure(p *program, padded, sameEngine bool) (earlier []result, res result, sources map[string]string) {
	sources = map[string]string{}
	e := newEngine()
	first := p.hw.tmpls
	if sameEngine {
		first = map[string]*tmpl{}
		for n, t := range p.w.tmpls {
			first[n] = t
		}
		for n, t := range p.hw.tmpls {
			first[n] = t
		}
	}
	if msg := register(e, first, p.padded, padded, sources); msg != "" {
		return nil, result{err: msg}, sources
	}
	for i := 0; i < histRounds; i++ {
		earlier = append(earlier, render(e, "hist", p.hctx))
	}
	if !sameEngine {
		e = newEngine()
		if msg := register(e, p.w.tmpls, p.padded, padded, sources); msg != "" {
			return earlier, result{err: msg}, sources
		}
	}
	return earlier, render(e, p.entry, p.ctx), sources
}

func contains(ss []string, s string) bool {
	for _, x := range ss {
		if x == s {
			return true
		}
	}
	return false
}

func model(p *program, quirks int) result {
	p.w.quirks = quirks
	sc := newScope()
	for _, k := range sortedKeys(p.ctx) {
		sc.set(k, p.ctx[k])
	}
	out, ok := p.w.evalTemplate(p.w.tmpls[p.entry], sc, nil)
	if !ok {
		return result{err: "some error"}
	}
	return result{out: out}
}

func same(got, want result) bool {
	if want.err != "" {
		return got.err != "" && !strings.Contains(got.err, "does not parse")
	}
	return got.err == "" && got.out == want.out
}

// ---- known findings (open defects of the repository; see NOTES.md and known_findings.json)

// applicable returns the quirk switches whose predicate (over the case description) holds.
func applicable(c cas) (quirks int, id string) {
	o, s := c.opts&oO != 0, c.opts&oS != 0
	// KF-C11-1, -2, -3 (see NOTES.md) were repaired in the repository (40cecb0, 12e2051) and are no longer
	// tolerated; their switches stay in model.go as a record of what they did.
	//
	// KF-C11-4: the includer's layout is extended by templates that override block k, the include (and, for
	// the nested placements, the include that leads to it) has neither `only` nor `sandboxed`, and the
	// included template renders a block named k.
	rendersK := (c.target == tPlain && c.extra >= 3) || (c.target == tExtends && c.xblk >= 1)
	isolated := c.place == pNest2 || c.place == pNest3 || c.place == pNest4 || c.place == pMacro
	if c.depth != 0 && c.kOver != 0 && !o && !s && rendersK && !isolated {
		quirks |= quirkBlocksInherited
		id = "KF-C11-4"
	}
	return
}

func runCase(c cas) *vlib.Outcome {
	p := build(c)
	want := model(p, 0)
	var got result
	var sources map[string]string
	var earlier []result
	if c.hist != 0 {
		p.hw.quirks = 0
		hsc := newScope()
		for _, k := range sortedKeys(p.hctx) {
			hsc.set(k, p.hctx[k])
		}
		if _, ok := p.hw.evalTemplate(p.hw.tmpls["hist"], hsc, nil); ok {
			panic("harness: the model renders the earlier program without a failure")
		}
		earlier, got, sources = runTwigAfterFailure(p, c.pad, c.hEng == 0)
	} else if c.ld != 0 {
		got, sources = runTwigChainLoader(p, c)
	} else {
		got, sources = runTwig(p, c.pad)
	}
	exists := c.target == tPlain || c.target == tExtends
	o := &vlib.Outcome{
		// a history case is always non-trivial: the earlier render passed a, b, c, d to an include and defined them
		// … and so is a case of the definitions dimension: the included template defines the includer's m or u
		Nontrivial: !exists || c.incMask != 0 || c.setMask != 0 || c.extra != 0 || c.opts&oW != 0 || c.xblk != 0 || c.hist != 0 || c.mdef != 0,
		Counters:   map[string]int64{"renders": 1},
	}
	kind := "output"
	if got.err != "" {
		kind = "error"
	}
	o.Class = targetLabel[c.target] + "/" + optString(c.opts) + "/" + kind
	if c.depth != 0 {
		o.Class = "chain/" + o.Class
		o.Counters["includer_in_extends_chain"] = 1
		if exists && (c.xblk >= 2 || c.extra >= 3) {
			o.Counters["includer_in_extends_chain_same_named_block"] = 1
		}
	}
	if c.rel != 0 {
		o.Class = "relative/" + o.Class
		o.Counters["relative_name"] = 1
		if !exists && c.target != tMissing && c.opts&oI != 0 {
			o.Counters["relative_name_unloadable_target_ignore_missing"] = 1
		}
	}
	if c.ld != 0 {
		o.Class = "chainloader/" + o.Class
		o.Counters["behind_chain_loader"] = 1
		if !exists && c.target != tMissing && c.opts&oI != 0 {
			o.Counters["behind_chain_loader_unloadable_target_ignore_missing"] = 1
			if ldForms[c.ld].pos < ldForms[c.ld].size-1 {
				o.Counters["behind_chain_loader_unloadable_target_ignore_missing_not_last_member"] = 1
			}
		}
	}
	if c.mdef != 0 {
		o.Class = "defines-" + mdefLabel[c.mdef] + "/" + o.Class
		o.Counters["included_defines_includers_macro_or_module_name"] = 1
		if c.mblk == 0 && c.target == tPlain {
			o.Counters["included_defines_includers_macro_or_module_name_blockfree"] = 1
		}
	}
	history := ""
	if c.hist != 0 {
		o.Class = "after-" + histLabel[c.hist] + "/" + o.Class
		o.Counters["renders"] += histRounds
		o.Counters["after_failed_include_render"] = 1
		if c.hEng == 0 {
			o.Counters["after_failed_include_render_same_engine"] = 1
		}
		engine := "the same engine"
		if c.hEng == 1 {
			engine = "another engine of the same process"
		}
		history = fmt.Sprintf("\n  before that, %d renders of template hist on %s with context %v", histRounds, engine, p.hctx)
		for _, n := range []string{"hist", "hmid", "hinc", "brt", "nmi"} {
			if _, ok := p.hw.tmpls[n]; ok {
				history += fmt.Sprintf("\n    %s: %s", n, sources[n])
			}
		}
		// the earlier render: "every other failure is reported"
		for i, r := range earlier {
			if r.err == "" {
				o.Violation = fmt.Sprintf("a render that must fail inside an include (%s) returned %s without an error (round %d)%s", histLabel[c.hist], r, i+1, history)
				o.Detail = map[string]interface{}{"templates": sources, "context": p.hctx, "got": r.String(), "want": "an error"}
				return o
			}
		}
	}
	if same(got, want) {
		return o
	}
	where := placeLabel[c.place]
	if c.depth != 0 {
		where += " (" + c.chainLabel() + ")"
	}
	mainName, midName, baseName, reg := c.names()
	o.Violation = fmt.Sprintf("include %s in placement %s, target %s: got %s, want %s\n  %s: %s", printInclude(p.w.tmpls2include(c)), where, targetLabel[c.target], got, want, mainName, sources[mainName])
	for _, n := range []string{"pg", "lay", midName, baseName, reg, "ibase", "ulib", "dlib", "flib"} {
		if s, ok := sources[n]; ok && (n != "ibase" || c.target == tExtends) {
			o.Violation += fmt.Sprintf("\n  %s: %s", n, s)
		}
	}
	if c.rel != 0 {
		state := "registered as " + reg
		switch c.target {
		case tMissing:
			state = "no template " + reg
		case tParseFail:
			state = reg + " exists and does not parse (" + badSources[reg] + ")"
		case tIOFail:
			state = "the loader fails for " + reg + " with an I/O error"
		}
		o.Violation += fmt.Sprintf("\n  relative name %s written in a template of directory %q: %s; nothing is registered under the name as written", relForms[c.rel].written+targetName[c.target], relForms[c.rel].holderDir, state)
	}
	if c.ld != 0 {
		lf := ldForms[c.ld]
		state := "holds " + reg
		switch c.target {
		case tMissing:
			state = "would hold " + reg + ", which no member has"
		case tParseFail:
			state = "holds " + reg + ", which does not parse"
		case tIOFail:
			state = "has " + reg + " (Exists: true) and fails to load it with an I/O error"
		}
		o.Violation += fmt.Sprintf("\n  nothing is registered on the engine; its only loader is a ChainLoader of %d member(s): member %d %s, member %d holds every other template", lf.size, lf.pos+1, state, (lf.pos+1)%lf.size+1)
	}
	o.Violation += fmt.Sprintf("\n  context: %v", p.ctx)
	o.Violation += history
	o.Detail = map[string]interface{}{"templates": sources, "context": p.ctx, "got": got.String(), "want": want.String()}
	if c.hist != 0 {
		o.Detail.(map[string]interface{})["earlier_context"] = p.hctx
		o.Detail.(map[string]interface{})["earlier_results"] = fmt.Sprint(earlier)
	}
	if quirks, id := applicable(c); quirks != 0 {
		if same2(got, model(p, quirks)) {
			o.Known = id
		}
	}
	return o
}

// same2: exact comparison against a quirk prediction (an error is predicted as "an error").
func same2(got, pred result) bool { return same(got, pred) }

// tmpls2include re-creates the include under test for messages.
func (w *world) tmpls2include(c cas) nInclude {
	holder, midName, _, _ := c.names()
	switch {
	case c.place >= pNest0:
		holder = midName
	case c.depth != 0 && c.holder == 0:
		holder = "lay"
	case c.depth == 2:
		holder = "pg"
	}
	var find func(ns []node) (nInclude, bool)
	find = func(ns []node) (nInclude, bool) {
		for _, n := range ns {
			switch n := n.(type) {
			case nInclude:
				return n, true
			case nIf:
				if r, ok := find(n.body); ok {
					return r, true
				}
			case nFor:
				if r, ok := find(n.body); ok {
					return r, true
				}
			case nBlock:
				if r, ok := find(n.body); ok {
					return r, true
				}
			case nMacroDef:
				if r, ok := find(n.body); ok {
					return r, true
				}
			}
		}
		return nInclude{}, false
	}
	r, _ := find(w.tmpls[holder].body)
	return r
}

// ---- enumeration

type bounds struct {
	names    []int
	wstyles  []int // for withMask == 3; other masks use style 0 (and style 2 when c is passed)
	defSets  []bool
	setMasks []int
	extras   []int
	pads     []bool
	xblks    []int // blocks of an included template that extends (crossed with extra 0, context-defined variables)
	// the includer inside an extends chain
	chNames    []int
	chSetMasks []int
	chExtras   []int
}

// shape: how the includer takes part in an extends chain (see cas.depth / holder / kOver)
type shape struct{ depth, holder, kOver int }

func shapes() []shape {
	var r []shape
	for depth := 1; depth <= 2; depth++ {
		for holder := 0; holder <= 1; holder++ {
			for kOver := 0; kOver < 1<<depth; kOver++ {
				r = append(r, shape{depth, holder, kOver})
			}
		}
	}
	return r
}

func enumerate(t *vlib.T) {
	b := bounds{
		names:    []int{0, 2, 5},
		wstyles:  []int{0, 1, 2, 3},
		defSets:  []bool{false},
		setMasks: []int{0, 1, 2, 3, 4, 5, 6, 7, 8, 9, 10, 11, 12, 13, 14, 15},
		extras:   []int{0, 4},
		pads:     []bool{false},
		xblks:    []int{0, 3},

		chNames:    []int{0, 2},
		chSetMasks: []int{0, 5, 10, 15},
		chExtras:   []int{0, 4},
	}
	failNames := []int{0, 2, 4}
	if t.Thorough() {
		b.names = []int{0, 1, 2, 3, 4, 5}
		b.defSets = []bool{false, true}
		b.extras = []int{0, 1, 2, 3, 4}
		b.pads = []bool{false, true}
		b.xblks = []int{0, 1, 2, 3}
		failNames = b.names
		b.chNames = []int{0, 2, 5}
		b.chSetMasks = []int{0, 1, 2, 4, 8, 5, 10, 15}
		b.chExtras = b.extras
	}
	emit := func(c cas) {
		t.Case(c.key(), func() *vlib.Outcome { return runCase(c) })
	}
	type ow struct{ opts, withMask, wstyle int }
	var ows []ow
	for opts := 0; opts < 16; opts++ {
		if opts&oW == 0 {
			ows = append(ows, ow{opts, 0, 0})
			continue
		}
		for wm := 1; wm <= 3; wm++ {
			styles := []int{0}
			if wm == 3 {
				styles = b.wstyles
			} else if wm == 2 && t.Thorough() {
				styles = []int{0, 2, 3}
			} else if t.Thorough() {
				styles = []int{0, 3}
			}
			for _, st := range styles {
				ows = append(ows, ow{opts, wm, st})
			}
		}
	}
	// 1. failure targets first (small): every option set x name form x placement x tokenizer
	for target := tMissing; target < nTargets; target++ {
		for _, x := range ows {
			if x.withMask != 0 && x.withMask != 3 {
				continue
			}
			if x.wstyle == 1 || x.wstyle == 3 {
				continue
			}
			for _, nm := range failNames {
				for place := 0; place < nPlaces; place++ {
					for _, pd := range []bool{false, true} {
						emit(cas{target: target, opts: x.opts, withMask: x.withMask, wstyle: x.wstyle, name: nm, place: place, incMask: 3, pad: pd})
					}
				}
			}
		}
	}
	// 1g. the included name is registered again between two renders on one engine (rereg.go)
	if !enumerateRereg(t) {
		return
	}
	// 1r. relative names: the include under test names its target as ./x, ../x, ./d/x or ../../x from a template at
	// top level or in a (nested) sub-directory; the target - taken relative to the directory of the template the tag
	// is written in - is fine, extends, missing, fails at render, does not parse, fails in the loader or includes a
	// missing template; every option set; every placement (in the nested routes the template in the middle holds
	// the tag and lives in another directory than the entry point); static and computed names; both tokenizers.
	// Only a target that does not exist may be swallowed by `ignore missing`.
	rb := struct{ names, incMasks, setMasks, extras []int }{names: []int{0, 2, 5}, incMasks: []int{3}, setMasks: []int{15}, extras: []int{0}}
	if t.Thorough() {
		rb.names, rb.incMasks, rb.setMasks, rb.extras = []int{0, 1, 2, 3, 4, 5}, []int{0, 3}, []int{0, 15}, []int{0, 4}
	}
	for rel := 1; rel < len(relForms); rel++ {
		for target := 0; target < nTargets; target++ {
			for _, x := range ows {
				if !((x.withMask == 0 || x.withMask == 3) && (x.wstyle == 0 || x.wstyle == 2)) { // as in 1.
					continue
				}
				for _, nm := range rb.names {
					for place := 0; place < nPlaces; place++ {
						for _, pd := range []bool{false, true} {
							if t.Stopped() {
								return
							}
							if target != tPlain && target != tExtends {
								emit(cas{target: target, opts: x.opts, withMask: x.withMask, wstyle: x.wstyle, name: nm, place: place, incMask: 3, pad: pd, rel: rel})
								continue
							}
							for _, extra := range rb.extras {
								if target == tExtends && extra >= 3 {
									continue // as in 2.
								}
								for _, im := range rb.incMasks {
									for _, sm := range rb.setMasks {
										emit(cas{target: target, opts: x.opts, withMask: x.withMask, wstyle: x.wstyle, name: nm, place: place, incMask: im, setMask: sm, extra: extra, pad: pd, rel: rel})
									}
								}
							}
						}
					}
				}
			}
		}
	}
	// 1l. behind a ChainLoader: nothing is registered on the engine, its only loader is a ChainLoader of 1-3 members;
	// the member that has the target - fine, extending, failing at render, not parsing, failing to load with an I/O
	// error, including a missing template; or no member has it - is first, in the middle or last; every option set,
	// name form (also relative names) and placement. Only a target no member has may be swallowed by `ignore missing`.
	lb := struct {
		rels []int
		pads []bool
	}{rels: []int{0, 2}, pads: []bool{false}}
	if t.Thorough() {
		lb.rels, lb.pads = []int{0, 1, 2, 3, 4, 5, 6}, []bool{false, true}
	}
	for ld := 1; ld < len(ldForms); ld++ {
		for _, rel := range lb.rels {
			names := failNames
			if rel != 0 {
				names = rb.names
			}
			for target := 0; target < nTargets; target++ {
				for _, x := range ows {
					if !((x.withMask == 0 || x.withMask == 3) && (x.wstyle == 0 || x.wstyle == 2)) { // as in 1.
						continue
					}
					for _, nm := range names {
						for place := 0; place < nPlaces; place++ {
							for _, pd := range lb.pads {
								if t.Stopped() {
									return
								}
								c := cas{target: target, opts: x.opts, withMask: x.withMask, wstyle: x.wstyle, name: nm, place: place, incMask: 3, pad: pd, rel: rel, ld: ld}
								if target == tPlain || target == tExtends {
									c.setMask = 15
								}
								emit(c)
							}
						}
					}
				}
			}
		}
	}
	// 1n. null bindings in intermediate scopes of an include chain (nullchain.go)
	if !enumerateNullChains(t) {
		return
	}
	// 1a. history: a render that fails inside an include (every kind x options of the failing include x same /
	// other engine) comes first, then an ordinary case of the grid: every option set and with-map shape, at a
	// reduced set of placements / names / variable sets
	hb := struct {
		places, names, setMasks, extras []int
	}{places: []int{pTop, pFor, pNest0}, names: []int{0}, setMasks: []int{0, 15}, extras: []int{0}}
	if t.Thorough() {
		hb.places = []int{pTop, pIf, pFor, pBlock, pMacro, pChildBlock, pNest0, pNest1, pNest2, pNest3, pNest4}
		hb.names = []int{0, 2}
		hb.extras = []int{0, 4}
	}
	for hist := 1; hist < nHist; hist++ {
		for hOpts := 0; hOpts < 4; hOpts++ {
			for hEng := 0; hEng <= 1; hEng++ {
				for _, place := range hb.places {
					for _, nm := range hb.names {
						for _, x := range ows {
							if t.Stopped() {
								return
							}
							if (x.withMask == 0 || x.withMask == 3) && (x.wstyle == 0 || x.wstyle == 2) { // as in 1.
								emit(cas{target: tMissing, opts: x.opts, withMask: x.withMask, wstyle: x.wstyle, name: nm, place: place, incMask: 3, hist: hist, hEng: hEng, hOpts: hOpts})
							}
							for _, target := range []int{tPlain, tExtends} {
								for _, extra := range hb.extras {
									if target == tExtends && extra >= 3 {
										continue // as in 2.
									}
									for _, im := range []int{0, 3} {
										for _, sm := range hb.setMasks {
											emit(cas{target: target, opts: x.opts, withMask: x.withMask, wstyle: x.wstyle, name: nm, place: place, incMask: im, setMask: sm, extra: extra, hist: hist, hEng: hEng, hOpts: hOpts})
										}
									}
								}
							}
						}
					}
				}
			}
		}
	}
	// 1b. the includer is part of an extends chain (its context carries block definitions of the templates
	// that extend it): the include stands in the layout (all placements) or in the block override of the
	// template next to it; the layout renders its block k - overridden or not, with parent() - after the include
	var chOws []ow
	for _, x := range ows {
		if (x.withMask == 0 || x.withMask == 3) && (x.wstyle == 0 || x.wstyle == 2) {
			chOws = append(chOws, x)
		}
	}
	type tgt struct{ target, extra, xblk int }
	var tgts []tgt
	for _, extra := range b.chExtras {
		tgts = append(tgts, tgt{tPlain, extra, 0})
	}
	for _, extra := range b.chExtras {
		if extra >= 3 {
			continue // as in 2.
		}
		for xb := 0; xb <= 3; xb++ {
			if extra != 0 && xb != 0 && xb != 3 {
				continue
			}
			tgts = append(tgts, tgt{tExtends, extra, xb})
		}
	}
	chainPlaces := func(sh shape) []int {
		if sh.holder == 1 {
			return []int{pChildBlock}
		}
		return []int{pTop, pIf, pFor, pBlock, pMacro, pNest0, pNest1, pNest2, pNest3, pNest4}
	}
	for _, sh := range shapes() {
		for _, place := range chainPlaces(sh) {
			for target := tMissing; target < nTargets; target++ {
				for _, x := range chOws {
					for _, nm := range failNames {
						for _, pd := range []bool{false, true} {
							emit(cas{target: target, opts: x.opts, withMask: x.withMask, wstyle: x.wstyle, name: nm, place: place, incMask: 3, pad: pd, depth: sh.depth, holder: sh.holder, kOver: sh.kOver})
						}
					}
				}
			}
		}
	}
	for _, pd := range []bool{false, true} {
		incMasks, setMasks := []int{0, 1, 2, 3}, b.chSetMasks
		if pd { // the tokenizer twin: a slice
			incMasks, setMasks = []int{0, 3}, []int{0, 5, 10, 15}
			if !t.Thorough() {
				incMasks, setMasks = []int{3}, []int{0, 15}
			}
		}
		for _, sh := range shapes() {
			for _, place := range chainPlaces(sh) {
				for _, tg := range tgts {
					for _, nm := range b.chNames {
						for _, x := range chOws {
							for _, im := range incMasks {
								for _, sm := range setMasks {
									if t.Stopped() {
										return
									}
									emit(cas{target: tg.target, opts: x.opts, withMask: x.withMask, wstyle: x.wstyle, name: nm, place: place, incMask: im, setMask: sm, extra: tg.extra, xblk: tg.xblk, pad: pd, depth: sh.depth, holder: sh.holder, kOver: sh.kOver})
								}
							}
						}
					}
				}
			}
		}
	}
	// 1c. what the included template DEFINES under names the includer uses as well: a macro m / a from-imported m
	// (also through an alias) / a module imported as u, alone and together, in a template without any block, with
	// a block, and in a template that extends; the includer (and, for the nested routes, the template in the
	// middle) has its own m (a macro, or from-imported) and u and calls them after the include - in the loop body
	// for every iteration, in the block, after the macro call, in the parent after the overridden block
	db := struct {
		ows                               []ow
		names, incMasks, setMasks, extras []int
		chOws                             []ow
		chNames, chIncMasks, chSetMasks   []int
		chMblks, chIsrcs                  []int
	}{ows: chOws, names: []int{0, 2}, incMasks: []int{3}, setMasks: []int{15}, extras: []int{0},
		chNames: []int{0}, chIncMasks: []int{3}, chSetMasks: []int{15}, chMblks: []int{0}, chIsrcs: []int{0}}
	for _, x := range chOws {
		if x.wstyle == 0 {
			db.chOws = append(db.chOws, x)
		}
	}
	if t.Thorough() {
		db.ows, db.names, db.incMasks, db.setMasks, db.extras = ows, []int{0, 2, 5}, []int{0, 3}, []int{0, 15}, []int{0, 2}
		db.chMblks, db.chIsrcs = []int{0, 1}, []int{0, 1}
		db.chOws, db.chNames, db.chIncMasks, db.chSetMasks = chOws, []int{0, 2}, []int{0, 3}, []int{0, 15}
	}
	allPlaces := []int{pTop, pIf, pFor, pBlock, pMacro, pChildBlock, pNest0, pNest1, pNest2, pNest3, pNest4}
	defs := func(sh shape, places []int, pd bool, xs []ow, names, incMasks, setMasks, extras, mblks, isrcs []int) bool {
		for _, place := range places {
			for _, target := range []int{tPlain, tExtends} {
				for mdef := 1; mdef < nMdef; mdef++ {
					for _, mblk := range mblks {
						for _, isrc := range isrcs {
							for _, extra := range extras {
								for _, nm := range names {
									for _, x := range xs {
										for _, im := range incMasks {
											for _, sm := range setMasks {
												if t.Stopped() {
													return false
												}
												emit(cas{target: target, opts: x.opts, withMask: x.withMask, wstyle: x.wstyle, name: nm, place: place, incMask: im, setMask: sm, extra: extra, pad: pd,
													depth: sh.depth, holder: sh.holder, kOver: sh.kOver, mdef: mdef, mblk: mblk, isrc: isrc})
											}
										}
									}
								}
							}
						}
					}
				}
			}
		}
		return true
	}
	both := []int{0, 1}
	if !defs(shape{}, allPlaces, false, db.ows, db.names, db.incMasks, db.setMasks, db.extras, both, both) {
		return
	}
	for _, sh := range shapes() {
		if !defs(sh, chainPlaces(sh), false, db.chOws, db.chNames, db.chIncMasks, db.chSetMasks, []int{0}, db.chMblks, db.chIsrcs) {
			return
		}
	}
	if t.Thorough() { // the tokenizer twin: a slice
		if !defs(shape{}, allPlaces, true, chOws, []int{0}, []int{3}, []int{15}, []int{0}, both, both) {
			return
		}
	}
	// 2. targets that exist: the full variable grid
	for _, pd := range b.pads {
		for _, target := range []int{tPlain, tExtends} {
			for _, extra := range b.extras {
				if target == tExtends && extra >= 3 {
					continue // macros and nested blocks of a child template belong to C10/C12
				}
				for _, ds := range b.defSets {
					for incMask := 0; incMask < 4; incMask++ {
						if ds && (incMask == 0 || pd) {
							continue // variables defined through set: unpadded sources only (the tokenizer twin uses the render context)
						}
						for place := 0; place < nPlaces; place++ {
							if ds && place == pChildBlock {
								continue // a set outside the blocks of a child template is not fixed by any statement
							}
							for _, nm := range b.names {
								for _, x := range ows {
									for _, sm := range b.setMasks {
										if t.Stopped() {
											return
										}
										emit(cas{target: target, opts: x.opts, withMask: x.withMask, wstyle: x.wstyle, name: nm, place: place, incMask: incMask, defSet: ds, setMask: sm, extra: extra, pad: pd})
										if target == tExtends && extra == 0 && !ds && !pd {
											// the included template and its parent define a block with the name of the includer's block k
											for _, xb := range b.xblks {
												if !t.Thorough() && sm != 0 && sm != 5 && sm != 10 && sm != 15 {
													continue // quick: the set masks of the chain cases (the whole grid in the thorough tier)
												}
												if xb != 0 {
													emit(cas{target: target, opts: x.opts, withMask: x.withMask, wstyle: x.wstyle, name: nm, place: place, incMask: incMask, setMask: sm, xblk: xb})
												}
											}
										}
									}
								}
							}
						}
					}
				}
			}
		}
	}
	// 3. quick tier: a slice of the tokenizer twin and of the dimensions it otherwise leaves to thorough
	if !t.Thorough() {
		for _, target := range []int{tPlain, tExtends} {
			for place := 0; place < nPlaces; place++ {
				for _, nm := range []int{0, 1, 2, 3, 4, 5} {
					for _, x := range ows {
						for _, sm := range []int{0, 5, 15} {
							extra := 2
							emit(cas{target: target, opts: x.opts, withMask: x.withMask, wstyle: x.wstyle, name: nm, place: place, incMask: 3, setMask: sm, extra: extra, pad: true})
							if place != pChildBlock {
								emit(cas{target: target, opts: x.opts, withMask: x.withMask, wstyle: x.wstyle, name: nm, place: place, incMask: 3, defSet: true, setMask: sm, extra: 1})
							}
						}
					}
				}
			}
		}
	}
}

func main() {
	vlib.Main(vlib.Spec{
		ID:    "C11",
		Level: "exploration",
		Rule: "every include program of the grid {with, only, ignore missing, sandboxed}^4 x with-map x name form x target x placement x includer variables x " +
			"variables set by the included template x loop/block/macro of the included template x tokenizer x position of the includer in an extends chain (none / layout / block override; 1 or 2 extending templates; " +
			"which of them override, with parent(), the block the includer renders after the include) x same-named blocks of an included template that extends is rendered on a fresh engine and compared with the reference model; " +
			"history dimension: the same comparison after a render that failed inside an include (10 kinds of failure x {with, with only, with sandboxed, with only sandboxed} x same engine / another engine of the process; " +
			"the failing render is repeated 3 times and must report an error every time) for every option set and with-map shape of the grid at a reduced set of placements, names and variable sets - the later render must equal the model as if nothing had happened; " +
			"definitions dimension: the included template (block-free / with a block / extending) defines a macro m, from-imports an m (also `f as m`), imports a module as u, or two of these, while the includer (and the template in the middle of a nested route) " +
			"has its own m (macro called as _self.m(), or from-imported and called as m()) and its own module u and calls m and u.f after the include (in every loop iteration, in the block, after the macro call, in the parent after the overridden block) - every option set, every placement, every chain shape; " +
			"relative-name dimension: the tag names its target as ./x, ../x, ./d/x or ../../x from a template at top level, in a sub-directory or in a sub-sub-directory (six forms; in the nested routes the template in the middle holds the tag and lives in another directory than the entry point), " +
			"the template the name denotes relative to the tag's template being fine (plain / extending), missing, failing at render, unparsable, unloadable (loader I/O error) or including a missing template, nothing being registered under the name as written - every option set, name form, placement and tokenizer; only a missing target may be swallowed by ignore missing; " +
			"chain-loader dimension: nothing is registered on the engine, whose only loader is a twig.ChainLoader of 1-3 members; exactly one member has the target (fine, extending, failing at render, unparsable, failing to load with an I/O error, including a missing template; for a missing target no member has it) " +
			"and stands first, in the middle or last, another member holds all other templates - every target kind, option set, name form (also relative names), placement; only a target that no member has may be swallowed by ignore missing; " +
			"re-registration family: on one engine (cache on / auto-reload on: RegisterString or ParseTemplate+RegisterTemplate; cache off / development mode: a loader whose source changes) the page is rendered, the included name gets another meaning " +
				"(absent, two bodies differing in text, variables read and variables set, a body that includes a missing template, a body that fails at render, a body that extends - all 25 ordered pairs), the page is rendered again and must equal a fresh engine that only ever held the final templates " +
				"(same output, same error / no error) - all 16 option sets x 7 placements x static / computed name (non-trivial when a fresh engine renders the two meanings differently); " +
				"null-chain family: include chains n0 -> … -> n3 of depth 1-3 in which x is bound to null on the way (with {'x': null}, with {'x': undefined_name}, set x = null, a loop variable iterating over [null, 'F']) at every level, " +
			"while the outermost x comes from the render context, a set or a loop variable of n0 (or is absent), crossed with every combination of plain / with / sandboxed / only includes below and of set / for statements in the templates in the middle; every template prints x, its truth value, y and i before and after its include and must see exactly what the model says " +
			"(non-trivial when a template at least one include below the null binding reads x while a non-null x exists further out); " +
			"a case is non-trivial when information could flow in either direction (the includer defines a variable, `with` passes one, the included template sets one, runs a loop " +
			"or defines a block/macro/import, also one with the name of a block of the includer's extends chain or of a macro / module of the includer) or when the target cannot be rendered (missing / failing), which exercises the missing-template handling; a history case is always non-trivial (the earlier render defined a-d and passed a-d to the failing include)",
		Assumptions: []string{
			"the reference model (checks/c11/model.go) is a correct transcription of the property statement",
			"visibility of outer variables and macros inside macros, option orders other than `ignore missing` `with` `only` `sandboxed`, `with` followed by a non-literal, and the value of loop variables after endfor are not fixed by the statement and are not generated",
			"an include name that starts with ./ or ../ denotes the template at that path relative to the directory of the template the tag is written in (the repository's relative_path_test.go; confirmed by the fine-target cases of the relative-name dimension); what a template registered under the name as written would mean is not generated",
			"a variable bound to null prints as nothing and is false in `if` (like an undefined one); whether `is defined` tells the two apart is not asked",
			"behind a ChainLoader exactly one member has a given template; what a chain should do when an earlier member fails for a template that a later member could deliver is not generated",
			"the sandbox policy allows everything here (confinement is C06); sandboxed is exercised only as a context-construction path",
		},
		QuickDeadline: 100, ThoroughDeadline: 840,
		Run: enumerate,
	})
}
