// C11 — include renders in the right scope and never changes the includer's state.
//
// Bounded-exhaustive enumeration of include programs: every combination of with / only /
// ignore missing / sandboxed x name form (static, computed) x target (exists, extends a parent,
// missing, fails at render, fails at parse, loader fails, nested missing include) x placement (top
// level, if, for, block, macro, block of a child template, inside a template that is itself included
// through five routes) x variable sets (includer defines a subset of {a,b}, through the render context or through
// set; with passes a subset of {a,c}; the included template sets a subset of {a,b,c,d}, runs a loop,
// defines a block and a macro with the includer's names) x tokenizer (source below / above the
// 4096-byte switch). Every program is rendered by the real engine and compared with the reference
// model of model.go (transcribed from the property statement).
package main

import (
	"errors"
	"fmt"
	"sort"
	"strings"

	"github.com/semihalev/twig"

	"verif/lib/vlib"
)

// ---- case description

const (
	tPlain = iota
	tExtends
	tMissing
	tRenderFail
	tParseFail
	tIOFail
	tNestedMissing
	nTargets
)

var targetName = [nTargets]string{"inc", "inx", "nop", "brt", "bsy", "bio", "nmi"}
var targetLabel = [nTargets]string{"plain", "extends", "missing", "renderfail", "parsefail", "iofail", "nestedmissing"}

const (
	oW = 1 << iota
	oO
	oI
	oS
)

const (
	pTop = iota
	pIf
	pFor
	pBlock
	pMacro
	pChildBlock
	pNest0 // included plainly
	pNest1 // included with {'b': 'Rb'}
	pNest2 // included with {...} only
	pNest3 // included sandboxed
	pNest4 // included with {'b': 'Rb'} sandboxed
	nPlaces
)

var placeLabel = [nPlaces]string{"top", "if", "for", "block", "macro", "childblock", "nest-plain", "nest-with", "nest-only", "nest-sandboxed", "nest-with-sandboxed"}

type cas struct {
	target   int
	opts     int
	withMask int // bit0: a, bit1: c (only with oW)
	wstyle   int // 0 quoted keys, literal values; 1 unquoted keys; 2 value of c computed from the includer's b; 3 literals full of tag syntax
	name     int // name form, see model.go nameExpr
	place    int
	incMask  int // includer defines bit0: a, bit1: b
	defSet   bool
	setMask  int // included template sets bit0..3: a b c d
	extra    int // 0 none, 1 loop over q, 2 loop over z, 3 block k + macro m, 4 loop over z + block k + macro m
	pad      bool
}

func (c cas) key() string {
	p, d := 0, 0
	if c.pad {
		p = 1
	}
	if c.defSet {
		d = 1
	}
	return fmt.Sprintf("t%d/o%x/w%d.%d/n%d/p%d/i%d.%d/s%x/x%d/k%d", c.target, c.opts, c.withMask, c.wstyle, c.name, c.place, c.incMask, d, c.setMask, c.extra, p)
}

func optString(o int) string {
	s := ""
	for i, l := range []string{"W", "O", "I", "S"} {
		if o&(1<<i) != 0 {
			s += l
		}
	}
	if s == "" {
		return "-"
	}
	return s
}

// ---- program construction

var abcd = []string{"a", "b", "c", "d"}

func prints(sep string, vs ...string) []node {
	var ns []node
	for i, v := range vs {
		if i > 0 && sep != "" {
			ns = append(ns, nText{sep})
		}
		ns = append(ns, nPrint{v})
	}
	return ns
}

func cat(parts ...[]node) []node {
	var ns []node
	for _, p := range parts {
		ns = append(ns, p...)
	}
	return ns
}

func one(n node) []node { return []node{n} }

// program: the templates of a case, the render context, and the world the model evaluates.
type program struct {
	w   *world
	ctx map[string]string
}

func build(c cas) *program {
	tn := targetName[c.target]
	w := &world{tmpls: map[string]*tmpl{}, fails: map[string]string{"bsy": failParse, "bio": failIO}}

	// the include under test
	inc := nInclude{name: nameExpr{form: c.name, target: tn}, withOn: c.opts&oW != 0, only: c.opts&oO != 0, ignore: c.opts&oI != 0, sandboxed: c.opts&oS != 0}
	if inc.withOn {
		if c.withMask&1 != 0 {
			e := withEntry{key: "a", unq: c.wstyle == 1, lit: "Wa"}
			if c.wstyle == 3 {
				e.lit = "W:a,}"
			}
			inc.with = append(inc.with, e)
		}
		if c.withMask&2 != 0 {
			e := withEntry{key: "c", unq: c.wstyle == 1, lit: "Wc"}
			if c.wstyle == 2 {
				e.lit, e.fromVar = "", "b"
			} else if c.wstyle == 3 {
				e.lit = " with {only} "
			}
			inc.with = append(inc.with, e)
		}
	}

	// the included template
	var body []node
	body = cat(one(nText{"<"}), prints(",", abcd...), one(nText{">"}))
	for i, v := range abcd {
		if c.setMask&(1<<i) != 0 {
			body = append(body, nSet{v, "S" + v})
		}
	}
	loopVar := ""
	switch c.extra {
	case 1:
		loopVar = "q"
	case 2, 4:
		loopVar = "z"
	}
	if loopVar != "" {
		body = append(body, nFor{loopVar, []string{"u", "v"}, []node{nLoopIdx{}}})
	}
	if c.extra >= 3 {
		body = append(body, nBlock{"k", one(nText{"IK"})}, nMacroDef{"m", nil, one(nText{"IM"})}, nMacroCall{"m", nil})
	}
	body = cat(body, one(nText{"("}), prints(",", abcd...), one(nText{")"}))
	switch c.target { // only what the case can reach is registered (keeps a case cheap)
	case tPlain:
		w.tmpls["inc"] = &tmpl{body: body}
	case tExtends:
		w.tmpls["inx"] = &tmpl{extends: "ibase", body: one(nBlock{"ib", body})}
		w.tmpls["ibase"] = &tmpl{body: cat(one(nText{"IB["}), prints(",", abcd...), one(nText{":"}), one(nBlock{"ib", one(nText{"dflt"})}), one(nText{"]"}))}
	case tRenderFail:
		w.tmpls["brt"] = &tmpl{body: []node{nText{"x"}, nBoom{}}}
	case tNestedMissing:
		w.tmpls["nmi"] = &tmpl{body: []node{nText{"N"}, nInclude{name: nameExpr{form: 0, target: "nop"}}}}
	}

	// the including template
	ctx := map[string]string{"nm": tn, "pfx": tn[:2], "sfx": tn[2:]}
	var defs []node
	for i, v := range []string{"a", "b"} {
		if c.incMask&(1<<i) != 0 {
			if c.defSet {
				defs = append(defs, nSet{v, "I" + v})
			} else {
				ctx[v] = "I" + v
			}
		}
	}
	macroM := nMacroDef{"m", nil, one(nText{"MM"})}
	after := cat(one(nText{"|"}), prints(",", "a", "b", "c", "d", "q"), one(nText{"|"}), one(nMacroCall{"m", nil}), one(nText{"|"}), one(nBlock{"k", one(nText{"MK"})}))
	local := cat(one(nText{"("}), prints(",", "a", "b", "c", "d", "q"), one(nText{")"}))
	var main *tmpl
	switch c.place {
	case pTop:
		main = &tmpl{body: cat(one(macroM), defs, one(nText{"A"}), one(inc), after)}
	case pIf:
		main = &tmpl{body: cat(one(macroM), defs, one(nIf{one(inc)}), after)}
	case pFor:
		inner := cat(one(inc), one(nText{"["}), one(nPrint{"z"}), one(nLoopIdx{}), one(nText{","}), prints(",", abcd...), one(nText{"]"}))
		main = &tmpl{body: cat(one(macroM), defs, one(nFor{"z", []string{"1", "2"}, inner}), after)}
	case pBlock:
		main = &tmpl{body: cat(one(macroM), defs, one(nBlock{"kk", cat(one(inc), local)}), after)}
	case pMacro:
		params := []string{"a", "b", "nm", "pfx", "sfx"}
		mm := nMacroDef{"mm", params, cat(one(inc), local)}
		main = &tmpl{body: cat(one(macroM), one(mm), defs, one(nMacroCall{"mm", params}), after)}
	case pChildBlock:
		main = &tmpl{extends: "base", body: one(nBlock{"kk", cat(one(inc), local)})}
		w.tmpls["base"] = &tmpl{body: cat(one(nText{"B<"}), one(nBlock{"kk", nil}), one(nText{">"}), prints(",", "a", "b", "c", "d", "q"))}
	default:
		route := nInclude{name: nameExpr{form: 0, target: "mid"}}
		switch c.place {
		case pNest1:
			route.withOn, route.with = true, []withEntry{{key: "b", lit: "Rb"}}
		case pNest2:
			route.withOn, route.only = true, true
			route.with = []withEntry{{key: "nm", lit: tn}, {key: "pfx", lit: tn[:2]}, {key: "sfx", lit: tn[2:]}}
		case pNest3:
			route.sandboxed = true
		case pNest4:
			route.withOn, route.sandboxed, route.with = true, true, []withEntry{{key: "b", lit: "Rb"}}
		}
		main = &tmpl{body: cat(one(macroM), defs, one(route), after)}
		w.tmpls["mid"] = &tmpl{body: cat(one(nText{"M["}), one(inc), one(nText{"|"}), prints(",", "a", "b", "c", "d", "q"), one(nText{"]"}))}
	}
	w.tmpls["main"] = main
	return &program{w: w, ctx: ctx}
}

// ---- the real engine

type allowAll struct{}

func (allowAll) IsFunctionAllowed(string) bool { return true }
func (allowAll) IsFilterAllowed(string) bool   { return true }
func (allowAll) IsTagAllowed(string) bool      { return true }

var errIO = errors.New("simulated I/O failure")

type ioLoader struct{}

func (ioLoader) Load(name string) (string, error) {
	if name == "bio" {
		return "", errIO
	}
	return "", fmt.Errorf("%w: %s", twig.ErrTemplateNotFound, name)
}
func (ioLoader) Exists(name string) bool { return name == "bio" }

var pad = "{# " + strings.Repeat("p", 4100) + " #}"

type result struct {
	out string
	err string // "" = success
}

func (r result) String() string {
	if r.err != "" {
		return "error(" + r.err + ")"
	}
	return fmt.Sprintf("%q", r.out)
}

func runTwig(p *program, padded bool) (res result, sources map[string]string) {
	sources = map[string]string{}
	e := twig.New()
	e.EnableSandbox(allowAll{})
	e.RegisterLoader(twig.NewArrayLoader(map[string]string{"bsy": "x{% if %}"}))
	e.RegisterLoader(ioLoader{})
	e.AddFunction("boom", func(args ...interface{}) (interface{}, error) { return nil, errors.New("boom") })
	names := make([]string, 0, len(p.w.tmpls))
	for n := range p.w.tmpls {
		names = append(names, n)
	}
	sort.Strings(names)
	for _, n := range names {
		src := printTmpl(p.w.tmpls[n])
		if padded && (n == "main" || n == "mid") {
			if p.w.tmpls[n].extends != "" {
				// extends stays the first tag; the comment follows it
				src = "{% extends " + q(p.w.tmpls[n].extends) + " %}" + pad + printNodes(p.w.tmpls[n].body)
			} else {
				src = pad + src
			}
			sources[n] = strings.Replace(src, pad, "{# 4100 x p #}", 1)
		} else {
			sources[n] = src
		}
		if err := e.RegisterString(n, src); err != nil {
			return result{err: "template " + n + " does not parse: " + err.Error()}, sources
		}
	}
	ctx := map[string]interface{}{}
	for k, v := range p.ctx {
		ctx[k] = v
	}
	out, err := e.Render("main", ctx)
	if err != nil {
		return result{err: err.Error()}, sources
	}
	return result{out: out}, sources
}

func model(p *program, quirks int) result {
	p.w.quirks = quirks
	sc := newScope()
	for _, k := range sortedKeys(p.ctx) {
		sc.set(k, p.ctx[k])
	}
	out, ok := p.w.evalTemplate(p.w.tmpls["main"], sc, nil)
	if !ok {
		return result{err: "some error"}
	}
	return result{out: out}
}

func same(got, want result) bool {
	if want.err != "" {
		return got.err != "" && !strings.Contains(got.err, "does not parse")
	}
	return got.err == "" && got.out == want.out
}

// ---- known findings (open defects of the repository; see NOTES.md and known_findings.json)

// applicable returns the quirk switches whose predicate (over the case description) holds.
func applicable(c cas) (quirks int, id string) {
	w, o, i, s := c.opts&oW != 0, c.opts&oO != 0, c.opts&oI != 0, c.opts&oS != 0
	derived := c.place == pNest0 || c.place == pNest1 // the include under test runs in a scope that inherits
	if s && !o && derived {
		quirks |= quirkSandboxedLocal
		id = "KF-C11-1"
	}
	if c.target == tExtends && !o && !s {
		quirks |= quirkExtendsLocal
		id = "KF-C11-2"
	}
	if c.name == 4 && !i && (w || (!o && !s)) {
		quirks |= quirkNameLiteral
		id = "KF-C11-3" // decides the outcome alone: the include fails
	}
	return
}

func runCase(c cas) *vlib.Outcome {
	p := build(c)
	want := model(p, 0)
	got, sources := runTwig(p, c.pad)
	exists := c.target == tPlain || c.target == tExtends
	o := &vlib.Outcome{
		Nontrivial: !exists || c.incMask != 0 || c.setMask != 0 || c.extra != 0 || c.opts&oW != 0,
		Counters:   map[string]int64{"renders": 1},
	}
	kind := "output"
	if got.err != "" {
		kind = "error"
	}
	o.Class = targetLabel[c.target] + "/" + optString(c.opts) + "/" + kind
	if same(got, want) {
		return o
	}
	o.Violation = fmt.Sprintf("include %s in placement %s, target %s: got %s, want %s\n  main: %s", printInclude(p.w.tmpls2include(c)), placeLabel[c.place], targetLabel[c.target], got, want, sources["main"])
	for _, n := range []string{"mid", "base", targetName[c.target], "ibase"} {
		if s, ok := sources[n]; ok && (n != "ibase" || c.target == tExtends) {
			o.Violation += fmt.Sprintf("\n  %s: %s", n, s)
		}
	}
	o.Violation += fmt.Sprintf("\n  context: %v", p.ctx)
	o.Detail = map[string]interface{}{"templates": sources, "context": p.ctx, "got": got.String(), "want": want.String()}
	if quirks, id := applicable(c); quirks != 0 {
		if same2(got, model(p, quirks)) {
			o.Known = id
		}
	}
	return o
}

// same2: exact comparison against a quirk prediction (an error is predicted as "an error").
func same2(got, pred result) bool { return same(got, pred) }

// tmpls2include re-creates the include under test for messages.
func (w *world) tmpls2include(c cas) nInclude {
	holder := "main"
	if c.place >= pNest0 {
		holder = "mid"
	}
	var find func(ns []node) (nInclude, bool)
	find = func(ns []node) (nInclude, bool) {
		for _, n := range ns {
			switch n := n.(type) {
			case nInclude:
				return n, true
			case nIf:
				if r, ok := find(n.body); ok {
					return r, true
				}
			case nFor:
				if r, ok := find(n.body); ok {
					return r, true
				}
			case nBlock:
				if r, ok := find(n.body); ok {
					return r, true
				}
			case nMacroDef:
				if r, ok := find(n.body); ok {
					return r, true
				}
			}
		}
		return nInclude{}, false
	}
	r, _ := find(w.tmpls[holder].body)
	return r
}

// ---- enumeration

type bounds struct {
	names    []int
	wstyles  []int // for withMask == 3; other masks use style 0 (and style 2 when c is passed)
	defSets  []bool
	setMasks []int
	extras   []int
	pads     []bool
}

func enumerate(t *vlib.T) {
	b := bounds{
		names:    []int{0, 2, 5},
		wstyles:  []int{0, 1, 2, 3},
		defSets:  []bool{false},
		setMasks: []int{0, 1, 2, 3, 4, 5, 6, 7, 8, 9, 10, 11, 12, 13, 14, 15},
		extras:   []int{0, 4},
		pads:     []bool{false},
	}
	failNames := []int{0, 2, 4}
	if t.Thorough() {
		b.names = []int{0, 1, 2, 3, 4, 5}
		b.defSets = []bool{false, true}
		b.extras = []int{0, 1, 2, 3, 4}
		b.pads = []bool{false, true}
		failNames = b.names
	}
	emit := func(c cas) {
		t.Case(c.key(), func() *vlib.Outcome { return runCase(c) })
	}
	type ow struct{ opts, withMask, wstyle int }
	var ows []ow
	for opts := 0; opts < 16; opts++ {
		if opts&oW == 0 {
			ows = append(ows, ow{opts, 0, 0})
			continue
		}
		for wm := 1; wm <= 3; wm++ {
			styles := []int{0}
			if wm == 3 {
				styles = b.wstyles
			} else if wm == 2 && t.Thorough() {
				styles = []int{0, 2, 3}
			} else if t.Thorough() {
				styles = []int{0, 3}
			}
			for _, st := range styles {
				ows = append(ows, ow{opts, wm, st})
			}
		}
	}
	// 1. failure targets first (small): every option set x name form x placement x tokenizer
	for target := tMissing; target < nTargets; target++ {
		for _, x := range ows {
			if x.withMask != 0 && x.withMask != 3 {
				continue
			}
			if x.wstyle == 1 || x.wstyle == 3 {
				continue
			}
			for _, nm := range failNames {
				for place := 0; place < nPlaces; place++ {
					for _, pd := range []bool{false, true} {
						emit(cas{target: target, opts: x.opts, withMask: x.withMask, wstyle: x.wstyle, name: nm, place: place, incMask: 3, pad: pd})
					}
				}
			}
		}
	}
	// 2. targets that exist: the full variable grid
	for _, pd := range b.pads {
		for _, target := range []int{tPlain, tExtends} {
			for _, extra := range b.extras {
				if target == tExtends && extra >= 3 {
					continue // macros and nested blocks of a child template belong to C10/C12
				}
				for _, ds := range b.defSets {
					for incMask := 0; incMask < 4; incMask++ {
						if ds && (incMask == 0 || pd) {
							continue // variables defined through set: unpadded sources only (the tokenizer twin uses the render context)
						}
						for place := 0; place < nPlaces; place++ {
							if ds && place == pChildBlock {
								continue // a set outside the blocks of a child template is not fixed by any statement
							}
							for _, nm := range b.names {
								for _, x := range ows {
									for _, sm := range b.setMasks {
										if t.Stopped() {
											return
										}
										emit(cas{target: target, opts: x.opts, withMask: x.withMask, wstyle: x.wstyle, name: nm, place: place, incMask: incMask, defSet: ds, setMask: sm, extra: extra, pad: pd})
									}
								}
							}
						}
					}
				}
			}
		}
	}
	// 3. quick tier: a slice of the tokenizer twin and of the dimensions it otherwise leaves to thorough
	if !t.Thorough() {
		for _, target := range []int{tPlain, tExtends} {
			for place := 0; place < nPlaces; place++ {
				for _, nm := range []int{0, 1, 2, 3, 4, 5} {
					for _, x := range ows {
						for _, sm := range []int{0, 5, 15} {
							extra := 2
							emit(cas{target: target, opts: x.opts, withMask: x.withMask, wstyle: x.wstyle, name: nm, place: place, incMask: 3, setMask: sm, extra: extra, pad: true})
							if place != pChildBlock {
								emit(cas{target: target, opts: x.opts, withMask: x.withMask, wstyle: x.wstyle, name: nm, place: place, incMask: 3, defSet: true, setMask: sm, extra: 1})
							}
						}
					}
				}
			}
		}
	}
}

func main() {
	vlib.Main(vlib.Spec{
		ID:    "C11",
		Level: "exploration",
		Rule: "every include program of the grid {with, only, ignore missing, sandboxed}^4 x with-map x name form x target x placement x includer variables x " +
			"variables set by the included template x loop/block/macro of the included template x tokenizer is rendered on a fresh engine and compared with the reference model; " +
			"a case is non-trivial when information could flow in either direction (the includer defines a variable, `with` passes one, the included template sets one, runs a loop " +
			"or defines a block/macro) or when the target cannot be rendered (missing / failing), which exercises the missing-template handling",
		Assumptions: []string{
			"the reference model (checks/c11/model.go) is a correct transcription of the property statement",
			"visibility of outer variables and macros inside macros, option orders other than `ignore missing` `with` `only` `sandboxed`, `with` followed by a non-literal, and the value of loop variables after endfor are not fixed by the statement and are not generated",
			"the sandbox policy allows everything here (confinement is C06); sandboxed is exercised only as a context-construction path",
		},
		QuickDeadline: 100, ThoroughDeadline: 840,
		Run: enumerate,
	})
}
