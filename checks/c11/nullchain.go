// Null bindings in intermediate scopes of an include chain (key prefix N/).
//
// A chain n0 -> n1 -> … -> n<depth> of includes (depth 1-3). Somewhere on the way the variable x is bound to NULL -
// `with {'x': null}`, `with {'x': nobody}` (a name nobody defines), `{% set x = null %}` / `{% set x = nobody %}` in a
// template in the middle, or a loop variable `{% for x in [null, 'F1'] %}` around the include - while a non-null x
// exists further out (render context, the includer's set, the includer's loop variable), and further plain / with /
// sandboxed / only includes follow below. "`with` adds or overrides variables for the included template only" and
// "read access to the including template's variables": a template below reads the variables of ITS includer - the
// null, which prints as nothing and is false - and never those of a template further out; the includer keeps its
// own x afterwards. This file has its own small generator and model (a scope is a map from names to bindings; a
// binding is a string or null); nothing of it is shared with the grid of main.go.
package main

import (
	"fmt"
	"strings"

	"github.com/semihalev/twig"

	"verif/lib/vlib"
)

// what a template that holds an include does around it
const (
	kNone     = iota
	kSetNull  // {% set x = null %} before the include
	kSetLit   // {% set x = 'S<lvl>' %}
	kForXNull // {% for x in [null, 'F<lvl>'] %} around the include
	kForI     // {% for i in [1, 2] %} around the include
	kSetUndef // {% set x = nobody %}
	kForXLit  // {% for x in ['L1', 'L2'] %} around the include
	nKinds
)

// what the include passes
const (
	wNone  = iota
	wY     // with {'y': 'Y<lvl>'}
	wNull  // with {'x': null}
	wUndef // with {'x': nobody}
	wLit   // with {'x': 'W<lvl>'}
	wNullY // with {'x': null, 'y': 'Y<lvl>'}
)

const (
	mPlain = iota
	mOnly
	mSandboxed
	mOnlySandboxed
)

type nEdge struct{ with, mode int }

// nRoot: where the outermost x comes from. ctx 0: not in the render context; 1: 'Cx'; 2: nil
type nRoot struct{ ctx, kind int }

type ncase struct {
	depth int
	root  nRoot
	edges [3]nEdge // edges[l]: the include written in template n<l>
	mids  [3]int   // mids[l], 1 <= l < depth: what template n<l> does around its include
}

func (c ncase) kind(lvl int) int {
	if lvl == 0 {
		return c.root.kind
	}
	return c.mids[lvl]
}

func (c ncase) key() string {
	var es, ms []string
	for l := 0; l < c.depth; l++ {
		es = append(es, fmt.Sprintf("%d%c", c.edges[l].with, "pobz"[c.edges[l].mode]))
		if l > 0 {
			ms = append(ms, fmt.Sprint(c.mids[l]))
		}
	}
	return fmt.Sprintf("N/d%d/r%d%d/e%s/m%s", c.depth, c.root.ctx, c.root.kind, strings.Join(es, "."), strings.Join(ms, "."))
}

// ---- printer

const nProbeX = "{{ x }}{% if x %}+{% else %}-{% endif %}"
const nProbe = nProbeX + "/{{ y }}/{{ i }}"

func (c ncase) includeTag(lvl int) string {
	e := c.edges[lvl]
	l := fmt.Sprint(lvl)
	s := "{% include 'n" + fmt.Sprint(lvl+1) + "'"
	switch e.with {
	case wY:
		s += " with {'y': 'Y" + l + "'}"
	case wNull:
		s += " with {'x': null}"
	case wUndef:
		s += " with {'x': nobody}"
	case wLit:
		s += " with {'x': 'W" + l + "'}"
	case wNullY:
		s += " with {'x': null, 'y': 'Y" + l + "'}"
	}
	if e.mode == mOnly || e.mode == mOnlySandboxed {
		s += " only"
	}
	if e.mode == mSandboxed || e.mode == mOnlySandboxed {
		s += " sandboxed"
	}
	return s + " %}"
}

func (c ncase) source(lvl int) string {
	l := fmt.Sprint(lvl)
	if lvl == c.depth {
		return "<" + l + ":" + nProbe + ">"
	}
	pre, open, end, tail := "", "", "", nProbe
	switch c.kind(lvl) {
	case kSetNull:
		pre = "{% set x = null %}"
	case kSetUndef:
		pre = "{% set x = nobody %}"
	case kSetLit:
		pre = "{% set x = 'S" + l + "' %}"
	case kForXNull:
		// what a loop variable is after endfor is not fixed by any statement: not read
		open, end, tail = "{% for x in [null, 'F"+l+"'] %}", "{% endfor %}", "{{ y }}"
	case kForXLit:
		open, end, tail = "{% for x in ['L1', 'L2'] %}", "{% endfor %}", "{{ y }}"
	case kForI:
		open, end, tail = "{% for i in [1, 2] %}", "{% endfor %}", nProbeX+"/{{ y }}"
	}
	return "<" + l + ":" + nProbe + pre + ":" + nProbe + open + "[" + nProbe + c.includeTag(lvl) + "|" + nProbe + "]" + end + tail + ">"
}

// ---- model

// nBind: a binding of a name. hops: through how many includes it was inherited since it was made; shadow: it is a
// null that was bound while a non-null binding of the same name was visible
type nBind struct {
	s      string
	null   bool
	hops   int
	shadow bool
}

type nScope map[string]nBind

type nEval struct {
	c ncase
	// the deepest inheritance of a shadowing null that some template read (-1: no such read)
	maxHops int
	leafX   string
}

func (sc nScope) probeX(ev *nEval) string {
	b, ok := sc["x"]
	if ok && b.null && b.shadow && b.hops > ev.maxHops {
		ev.maxHops = b.hops
	}
	if !ok || b.null || b.s == "" {
		return "-"
	}
	return b.s + "+"
}

func (sc nScope) str(name string) string {
	if b, ok := sc[name]; ok && !b.null {
		return b.s
	}
	return ""
}

func (sc nScope) probe(ev *nEval) string {
	return sc.probeX(ev) + "/" + sc.str("y") + "/" + sc.str("i")
}

// bind: name = value (null when isNull) in sc
func (sc nScope) bind(name, value string, isNull bool) {
	old, had := sc[name]
	sc[name] = nBind{s: value, null: isNull, shadow: isNull && had && (!old.null || old.shadow)}
}

func (ev *nEval) template(lvl int, sc nScope) string {
	c := ev.c
	l := fmt.Sprint(lvl)
	if lvl == c.depth {
		switch b, ok := sc["x"]; {
		case !ok:
			ev.leafX = "undefined"
		case b.null:
			ev.leafX = "null"
		default:
			ev.leafX = "value"
		}
		return "<" + l + ":" + sc.probe(ev) + ">"
	}
	out := "<" + l + ":" + sc.probe(ev)
	switch c.kind(lvl) {
	case kSetNull, kSetUndef: // nobody is defined nowhere: its value is null
		sc.bind("x", "", true)
	case kSetLit:
		sc.bind("x", "S"+l, false)
	}
	out += ":" + sc.probe(ev)
	once := func() string {
		return "[" + sc.probe(ev) + ev.include(lvl, sc) + "|" + sc.probe(ev) + "]"
	}
	loop := func(v string, items []nBind) {
		old, had := sc[v]
		for _, it := range items {
			sc.bind(v, it.s, it.null)
			out += once()
		}
		if had { // never read after endfor by a generated program
			sc[v] = old
		} else {
			delete(sc, v)
		}
	}
	switch c.kind(lvl) {
	case kForXNull:
		loop("x", []nBind{{null: true}, {s: "F" + l}})
		out += sc.str("y")
	case kForXLit:
		loop("x", []nBind{{s: "L1"}, {s: "L2"}})
		out += sc.str("y")
	case kForI:
		loop("i", []nBind{{s: "1"}, {s: "2"}})
		out += sc.probeX(ev) + "/" + sc.str("y")
	default:
		out += once() + sc.probe(ev)
	}
	return out + ">"
}

// include: the child scope is the includer's variables (unless only) overlaid with the with-hash, whose values are
// evaluated in the includer; whatever the included template does to it is dropped.
func (ev *nEval) include(lvl int, sc nScope) string {
	e := ev.c.edges[lvl]
	l := fmt.Sprint(lvl)
	child := nScope{}
	if e.mode == mPlain || e.mode == mSandboxed {
		for k, b := range sc {
			b.hops++
			child[k] = b
		}
	}
	// a with entry overrides what the child would otherwise read from the includer (for `only`: nothing)
	visible := sc
	if e.mode == mOnly || e.mode == mOnlySandboxed {
		visible = nScope{}
	}
	with := func(name, value string, isNull bool) {
		old, had := visible[name]
		child[name] = nBind{s: value, null: isNull, shadow: isNull && had && (!old.null || old.shadow)}
	}
	switch e.with {
	case wY:
		with("y", "Y"+l, false)
	case wNull, wUndef:
		with("x", "", true)
	case wLit:
		with("x", "W"+l, false)
	case wNullY:
		with("x", "", true)
		with("y", "Y"+l, false)
	}
	return ev.template(lvl+1, child)
}

// ---- driver

func runNullChain(c ncase) *vlib.Outcome {
	e := twig.New()
	e.EnableSandbox(allowAll{})
	sources := map[string]string{}
	listing := ""
	for lvl := 0; lvl <= c.depth; lvl++ {
		n := fmt.Sprintf("n%d", lvl)
		sources[n] = c.source(lvl)
		listing += "\n  " + n + ": " + sources[n]
	}
	ctx := map[string]interface{}{"y": "Cy"}
	sc := nScope{"y": nBind{s: "Cy"}}
	switch c.root.ctx {
	case 1:
		ctx["x"] = "Cx"
		sc["x"] = nBind{s: "Cx"}
	case 2:
		ctx["x"] = nil
		sc["x"] = nBind{null: true}
	}
	ev := &nEval{c: c, maxHops: -1}
	want := result{out: ev.template(0, sc)}
	var got result
	for lvl := 0; lvl <= c.depth && got.err == ""; lvl++ {
		n := fmt.Sprintf("n%d", lvl)
		if err := e.RegisterString(n, sources[n]); err != nil {
			got = result{err: "template " + n + " does not parse: " + err.Error()}
		}
	}
	if got.err == "" {
		out, err := e.Render("n0", ctx)
		if err != nil {
			got = result{err: err.Error()}
		} else {
			got = result{out: out}
		}
	}
	o := &vlib.Outcome{Nontrivial: ev.maxHops >= 1, Counters: map[string]int64{"renders": 1, "null_chain": 1}}
	hops := "none"
	if ev.maxHops >= 0 {
		hops = fmt.Sprint(ev.maxHops)
	}
	o.Class = fmt.Sprintf("nullchain/d%d/leaf-x-%s/shadowing-null-read-%s-includes-below", c.depth, ev.leafX, hops)
	if ev.maxHops >= 1 {
		o.Counters["null_over_outer_value_read_through_further_include"] = 1
	}
	if got.err == "" && got.out == want.out {
		return o
	}
	o.Violation = fmt.Sprintf("include chain of depth %d with a null binding on the way: got %s, want %s%s\n  context: %v", c.depth, got, want, listing, ctx)
	o.Detail = map[string]interface{}{"templates": sources, "context": fmt.Sprint(ctx), "got": got.String(), "want": want.String()}
	return o
}

// enumerateNullChains: every chain inside the tier's bound, shallow chains first. false: the run was stopped.
func enumerateNullChains(t *vlib.T) bool {
	roots := []nRoot{{1, kNone}, {0, kSetLit}, {0, kForXLit}, {1, kForXNull}, {0, kNone}}
	kinds := []int{kNone, kSetNull, kSetLit, kForXNull, kForI}
	edges := []nEdge{{wNone, mPlain}, {wY, mPlain}, {wNull, mPlain}, {wUndef, mPlain}, {wLit, mPlain}, {wNone, mSandboxed}, {wNull, mSandboxed}, {wNull, mOnly}}
	if t.Thorough() {
		roots = append(roots, nRoot{2, kNone}, nRoot{1, kSetNull}, nRoot{1, kForI}, nRoot{1, kSetUndef})
		kinds = append(kinds, kSetUndef, kForXLit)
		edges = append(edges, nEdge{wNullY, mPlain}, nEdge{wUndef, mSandboxed}, nEdge{wY, mOnly}, nEdge{wNull, mOnlySandboxed})
	}
	for depth := 1; depth <= 3; depth++ {
		c := ncase{depth: depth}
		var rec func(lvl int) bool
		rec = func(lvl int) bool {
			if lvl == depth {
				if t.Stopped() {
					return false
				}
				cc := c
				t.Case(cc.key(), func() *vlib.Outcome { return runNullChain(cc) })
				return true
			}
			ks := kinds
			if lvl == 0 {
				ks = []int{0}
			}
			for _, k := range ks {
				c.mids[lvl] = k
				for _, e := range edges {
					c.edges[lvl] = e
					if !rec(lvl + 1) {
						return false
					}
				}
			}
			return true
		}
		for _, r := range roots {
			c.root = r
			if !rec(0) {
				return false
			}
		}
	}
	return true
}
