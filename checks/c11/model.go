// Reference model for C11: a tiny template language (my own AST), a printer to twig source and an
// evaluator transcribed from the property statement / DESIGN.md Appendix A:
//
//	include: child scope = includer's variables (unless `only`) overlaid with the `with` map;
//	nothing flows back; missing + `ignore missing` = empty; every other failure is an error.
//
// The evaluator never looks at twig's code. The only implementation knowledge in this file is the
// *quirk* switches, which reproduce what known, recorded defects do (alternative oracles for the
// known-finding mechanism); with quirks == 0 the evaluator is the plain statement.
package main

import (
	"path"
	"sort"
	"strings"
)

// ---- AST

type node interface{}

type (
	nText    struct{ s string }
	nPrint   struct{ v string } // {{ v }}
	nLoopIdx struct{}           // {{ loop.index }}
	nSet     struct{ v, val string }
	nFor     struct {
		v     string
		items []string
		body  []node
	}
	nIf    struct{ body []node } // {% if true %}
	nBlock struct {
		name string
		body []node
	}
	nMacroDef struct {
		name   string
		params []string
		body   []node
	}
	nMacroCall struct { // {{ _self.name(args) }} — arguments are variable names
		name string
		args []string
	}
	nImport     struct{ tmpl, as string } // {% import 'tmpl' as as %}
	nFromImport struct {                  // {% from 'tmpl' import name [as alias] %}
		tmpl, name, alias string
	}
	nCall    struct{ name string }      // {{ name() }} — a macro brought in by a from-import of this template
	nModCall struct{ mod, name string } // {{ mod.name() }} — a macro of a module imported by this template
	nBoom    struct{}                   // {{ boom() }} — a registered function whose callback returns an error
	nParent  struct{}                   // {{ parent() }} — only inside a block body that overrides another definition
	nInclude struct {
		name                    nameExpr
		with                    []withEntry
		withOn                  bool
		only, ignore, sandboxed bool
	}
)

// nameExpr: how the template name is written.
type nameExpr struct {
	form   int    // 0 'x'  1 "x"  2 nm (variable)  3 pfx ~ 'tail'  4 'head' ~ 'tail'  5 'head' ~ sfx
	target string // the name the expression denotes when nm/pfx/sfx have their intended values
}

type withEntry struct {
	key     string
	unq     bool   // key written without quotes
	lit     string // literal value (when fromVar == "")
	fromVar string // value is the expression `fromVar ~ 'w'`, evaluated in the includer's scope
	fail    int    // != 0: the value is an expression whose evaluation fails (failDiv0, failNoFilter, failFunc)
}

// with-values that cannot be evaluated
const (
	failDiv0     = 1 + iota // 1 / 0
	failNoFilter            // 'x'|nosuch — a filter nobody registered
	failFunc                // boom() — a registered function whose callback returns an error
)

var failExpr = [...]string{"", "1 / 0", "'x'|nosuch", "boom()"}

type tmpl struct {
	extends string
	body    []node
	// dir: the directory part of the name the template is registered under ("" = top level). An include
	// written in this template whose name starts with ./ or ../ names a template relative to this directory.
	dir string
}

// failure kinds of templates that are not in the model's registry as ASTs
const (
	failParse = "parse" // a loader returns source that does not parse
	failIO    = "io"    // a loader returns an error that is not "not found"
)

// ---- printer (the only place where concrete syntax lives)

func q(s string) string { return "'" + s + "'" }

func printNodes(ns []node) string {
	var b strings.Builder
	for _, n := range ns {
		switch n := n.(type) {
		case nText:
			b.WriteString(n.s)
		case nPrint:
			b.WriteString("{{ " + n.v + " }}")
		case nLoopIdx:
			b.WriteString("{{ loop.index }}")
		case nSet:
			b.WriteString("{% set " + n.v + " = " + q(n.val) + " %}")
		case nFor:
			its := make([]string, len(n.items))
			for i, s := range n.items {
				its[i] = q(s)
			}
			b.WriteString("{% for " + n.v + " in [" + strings.Join(its, ", ") + "] %}" + printNodes(n.body) + "{% endfor %}")
		case nIf:
			b.WriteString("{% if true %}" + printNodes(n.body) + "{% endif %}")
		case nBlock:
			b.WriteString("{% block " + n.name + " %}" + printNodes(n.body) + "{% endblock %}")
		case nMacroDef:
			b.WriteString("{% macro " + n.name + "(" + strings.Join(n.params, ", ") + ") %}" + printNodes(n.body) + "{% endmacro %}")
		case nMacroCall:
			b.WriteString("{{ _self." + n.name + "(" + strings.Join(n.args, ", ") + ") }}")
		case nImport:
			b.WriteString("{% import " + q(n.tmpl) + " as " + n.as + " %}")
		case nFromImport:
			b.WriteString("{% from " + q(n.tmpl) + " import " + n.name)
			if n.alias != n.name {
				b.WriteString(" as " + n.alias)
			}
			b.WriteString(" %}")
		case nCall:
			b.WriteString("{{ " + n.name + "() }}")
		case nModCall:
			b.WriteString("{{ " + n.mod + "." + n.name + "() }}")
		case nBoom:
			b.WriteString("{{ boom() }}")
		case nParent:
			b.WriteString("{{ parent() }}")
		case nInclude:
			b.WriteString(printInclude(n))
		default:
			panic("printNodes: unknown node")
		}
	}
	return b.String()
}

func printName(n nameExpr) string {
	t := n.target
	switch n.form {
	case 0:
		return q(t)
	case 1:
		return "\"" + t + "\""
	case 2:
		return "nm"
	case 3:
		return "pfx ~ " + q(t[2:])
	case 4:
		return q(t[:2]) + " ~ " + q(t[2:])
	case 5:
		return q(t[:2]) + " ~ sfx"
	}
	panic("printName")
}

func printInclude(n nInclude) string {
	s := "{% include " + printName(n.name)
	if n.ignore {
		s += " ignore missing"
	}
	if n.withOn {
		var parts []string
		for _, w := range n.with {
			k := q(w.key)
			if w.unq {
				k = w.key
			}
			v := q(w.lit)
			if w.fromVar != "" {
				v = w.fromVar + " ~ 'w'"
			}
			if w.fail != 0 {
				v = failExpr[w.fail]
			}
			parts = append(parts, k+": "+v)
		}
		s += " with {" + strings.Join(parts, ", ") + "}"
	}
	if n.only {
		s += " only"
	}
	if n.sandboxed {
		s += " sandboxed"
	}
	return s + " %}"
}

func printTmpl(t *tmpl) string {
	s := ""
	if t.extends != "" {
		s = "{% extends " + q(t.extends) + " %}"
	}
	return s + printNodes(t.body)
}

// ---- evaluator

// quirk switches (alternative oracles of recorded open findings; 0 = the property statement)
const (
	// KF-C11-1: `include … sandboxed` (without only) passes on only the variables held in the innermost
	// scope of the including context, not the ones that scope inherits.
	quirkSandboxedLocal = 1 << iota
	// KF-C11-2: an included template that `extends` another is rendered with only the variables held in
	// the innermost scope of the include's context.
	quirkExtendsLocal
	// KF-C11-3: a computed name that starts and ends with a string literal is taken as one literal
	// when it is the last thing before `with` or the end of the tag.
	quirkNameLiteral
	// KF-C11-4: an include without `only`/`sandboxed` hands the block overrides that the templates extending
	// the includer's layout wrote on to the included template, where they override its same-named blocks.
	quirkBlocksInherited
)

// scope: the variables a template sees. `local` marks the names held by the innermost scope itself
// (only the quirk switches read it).
type scope struct {
	vars    map[string]string
	mods    map[string]string // variables that hold an imported module: variable name -> template whose macros it holds
	local   map[string]bool
	loopIdx string
	hasLoop bool
}

func newScope() *scope {
	return &scope{vars: map[string]string{}, mods: map[string]string{}, local: map[string]bool{}}
}

func (s *scope) set(k, v string) { s.vars[k] = v; s.local[k] = true }

// child: a scope that reads everything of s, holding nothing itself.
func (s *scope) child() *scope {
	c := newScope()
	for k, v := range s.vars {
		c.vars[k] = v
	}
	for k, v := range s.mods { // a module is held by a variable and is read like any other variable
		c.mods[k] = v
	}
	c.loopIdx, c.hasLoop = s.loopIdx, s.hasLoop
	return c
}

// flat: a scope holding a copy of everything s sees.
func (s *scope) flat() *scope {
	c := s.child()
	for k := range c.vars {
		c.local[k] = true
	}
	return c
}

// localOnly: a scope holding a copy of what s itself holds.
func (s *scope) localOnly() *scope {
	c := newScope()
	for k := range s.local {
		if v, ok := s.vars[k]; ok {
			c.set(k, v)
		}
	}
	if s.hasLoop && s.local["loop"] {
		c.loopIdx, c.hasLoop = s.loopIdx, true
		c.local["loop"] = true
	}
	return c
}

type world struct {
	tmpls  map[string]*tmpl
	fails  map[string]string // name -> failParse | failIO
	quirks int
}

type evalCtx struct {
	w         *world
	self      *tmpl               // template whose macros `_self` denotes
	overrides map[string][][]node // block definitions of the templates that extend this one, most derived first
	parents   [][]node            // inside a block body: the definitions parent() walks through, nearest first
	imported  map[string]macroRef // macros this template render brought in through from-imports, by the name they are called by
}

// macroRef: a macro and the template that defines it
type macroRef struct {
	home *tmpl
	def  nMacroDef
}

func (w *world) libMacro(lib, name string) (macroRef, bool) {
	t, ok := w.tmpls[lib]
	if !ok {
		return macroRef{}, false
	}
	for _, n := range t.body {
		if m, isDef := n.(nMacroDef); isDef && m.name == name {
			return macroRef{t, m}, true
		}
	}
	return macroRef{}, false
}

// callImported renders a macro of another template (generated library macros take no arguments).
func (c *evalCtx) callImported(r macroRef) (string, bool) {
	return (&evalCtx{w: c.w, self: r.home}).nodes(r.def.body, newScope())
}

// evalTemplate renders template t in scope sc. ok=false: the render fails.
func (w *world) evalTemplate(t *tmpl, sc *scope, overrides map[string][][]node) (string, bool) {
	if t.extends != "" {
		parent, exists := w.tmpls[t.extends]
		if !exists {
			return "", false
		}
		ov := map[string][][]node{}
		for k, v := range overrides { // more-derived definitions come first
			ov[k] = append([][]node(nil), v...)
		}
		for _, n := range t.body {
			if b, isBlock := n.(nBlock); isBlock {
				ov[b.name] = append(ov[b.name], b.body)
			}
		}
		psc := sc
		if w.quirks&quirkExtendsLocal != 0 {
			psc = sc.localOnly()
		}
		// block bodies of the child use the child's macros; generated children call none
		return w.evalTemplate(parent, psc, ov)
	}
	return (&evalCtx{w: w, self: t, overrides: overrides}).nodes(t.body, sc)
}

func (c *evalCtx) macro(name string) *nMacroDef {
	for _, n := range c.self.body {
		if m, ok := n.(nMacroDef); ok && m.name == name {
			return &m
		}
	}
	return nil
}

func (c *evalCtx) nodes(ns []node, sc *scope) (string, bool) {
	var b strings.Builder
	for _, n := range ns {
		switch n := n.(type) {
		case nText:
			b.WriteString(n.s)
		case nPrint:
			b.WriteString(sc.vars[n.v])
		case nLoopIdx:
			if sc.hasLoop {
				b.WriteString(sc.loopIdx)
			}
		case nSet:
			sc.set(n.v, n.val)
		case nFor:
			oldV, hadV := sc.vars[n.v]
			oldLocal := sc.local[n.v]
			oldIdx, oldHas, oldLoopLocal := sc.loopIdx, sc.hasLoop, sc.local["loop"]
			for i, it := range n.items {
				sc.set(n.v, it)
				sc.loopIdx, sc.hasLoop = string(rune('1'+i)), true
				sc.local["loop"] = true
				s, ok := c.nodes(n.body, sc)
				if !ok {
					return "", false
				}
				b.WriteString(s)
			}
			// what the loop variable is after endfor is not fixed by any statement; generated programs
			// never read it in the same template. The model restores the previous binding.
			if hadV {
				sc.vars[n.v] = oldV
			} else {
				delete(sc.vars, n.v)
			}
			sc.local[n.v] = oldLocal
			sc.loopIdx, sc.hasLoop = oldIdx, oldHas
			sc.local["loop"] = oldLoopLocal
		case nIf:
			s, ok := c.nodes(n.body, sc)
			if !ok {
				return "", false
			}
			b.WriteString(s)
		case nBlock:
			// the most derived definition renders; parent() inside it renders the next one
			chain := append(append([][]node(nil), c.overrides[n.name]...), n.body)
			saved := c.parents
			c.parents = chain[1:]
			s, ok := c.nodes(chain[0], sc)
			c.parents = saved
			if !ok {
				return "", false
			}
			b.WriteString(s)
		case nParent:
			if len(c.parents) == 0 {
				return "", false // parent() without a parent definition: not generated
			}
			saved := c.parents
			c.parents = saved[1:]
			s, ok := c.nodes(saved[0], sc)
			c.parents = saved
			if !ok {
				return "", false
			}
			b.WriteString(s)
		case nMacroDef:
			// a definition renders nothing
		case nMacroCall:
			m := c.macro(n.name)
			if m == nil {
				return "", false
			}
			msc := newScope()
			for i, p := range m.params {
				if i < len(n.args) {
					if v, ok := sc.vars[n.args[i]]; ok {
						msc.set(p, v)
					}
				}
			}
			s, ok := (&evalCtx{w: c.w, self: c.self}).nodes(m.body, msc)
			if !ok {
				return "", false
			}
			b.WriteString(s)
		case nImport:
			if _, ok := c.w.tmpls[n.tmpl]; !ok {
				return "", false
			}
			sc.mods[n.as] = n.tmpl
			sc.local[n.as] = true
		case nFromImport:
			r, ok := c.w.libMacro(n.tmpl, n.name)
			if !ok {
				return "", false
			}
			if c.imported == nil {
				c.imported = map[string]macroRef{}
			}
			c.imported[n.alias] = r
		case nCall:
			r, ok := c.imported[n.name]
			if !ok {
				return "", false // not generated: only names the same template from-imported are called
			}
			s, ok := c.callImported(r)
			if !ok {
				return "", false
			}
			b.WriteString(s)
		case nModCall:
			lib, ok := sc.mods[n.mod]
			if !ok {
				return "", false // not generated
			}
			r, ok := c.w.libMacro(lib, n.name)
			if !ok {
				return "", false
			}
			s, ok := c.callImported(r)
			if !ok {
				return "", false
			}
			b.WriteString(s)
		case nBoom:
			return "", false
		case nInclude:
			s, ok := c.include(n, sc)
			if !ok {
				return "", false
			}
			b.WriteString(s)
		default:
			panic("eval: unknown node")
		}
	}
	return b.String(), true
}

func evalName(n nameExpr, sc *scope, quirks int) string {
	t := n.target
	switch n.form {
	case 0, 1:
		return t
	case 2:
		return sc.vars["nm"]
	case 3:
		return sc.vars["pfx"] + t[2:]
	case 4:
		return t
	case 5:
		return t[:2] + sc.vars["sfx"]
	}
	panic("evalName")
}

func (c *evalCtx) include(n nInclude, sc *scope) (string, bool) {
	w := c.w
	name := evalName(n.name, sc, w.quirks)
	if w.quirks&quirkNameLiteral != 0 && n.name.form == 4 && !n.ignore && (n.withOn || (!n.only && !n.sandboxed)) {
		name = n.name.target[:2] + "' ~ '" + n.name.target[2:] // no such template
	}
	if strings.HasPrefix(name, "./") || strings.HasPrefix(name, "../") {
		// a relative name: relative to the directory of the template the tag is written in (generated only
		// where that template and the one being rendered live in the same directory)
		name = path.Join(c.self.dir, name)
	}
	if kind, bad := w.fails[name]; bad {
		_ = kind
		return "", false // a template that exists but cannot be loaded: reported whatever the options
	}
	t, exists := w.tmpls[name]
	if !exists {
		if n.ignore {
			return "", true
		}
		return "", false
	}
	// `with` values are expressions of the including template
	type kv struct{ k, v string }
	var adds []kv
	if n.withOn {
		for _, e := range n.with {
			if e.fail != 0 {
				return "", false // a `with` value that cannot be evaluated: the include fails (the target exists)
			}
			v := e.lit
			if e.fromVar != "" {
				v = sc.vars[e.fromVar] + "w"
			}
			adds = append(adds, kv{e.key, v})
		}
	}
	var child *scope
	switch {
	case n.only:
		child = newScope()
	case n.sandboxed:
		if w.quirks&quirkSandboxedLocal != 0 {
			child = sc.localOnly()
		} else {
			child = sc.flat()
		}
	default:
		child = sc.child()
	}
	for _, a := range adds {
		child.set(a.k, a.v)
	}
	// the included template is rendered on its own: its blocks and macros are its own,
	// and whatever it does to `child` is dropped here
	var inherited map[string][][]node
	if w.quirks&quirkBlocksInherited != 0 && !n.only && !n.sandboxed {
		inherited = c.overrides
	}
	return w.evalTemplate(t, child, inherited)
}

func sortedKeys(m map[string]string) []string {
	ks := make([]string, 0, len(m))
	for k := range m {
		ks = append(ks, k)
	}
	sort.Strings(ks)
	return ks
}
