// C17 — repeated renders on ONE engine.
//
// A fault that persists (an unknown filter / function / test / macro / template name, a callback that
// always fails, a loader that always fails, a syntax error in a template) must make EVERY render of the
// program fail, not only the first one on a fresh engine: the same program is rendered three times on the
// same engine, with the template cache on (twig's default) and off. And a fault that is switched on between
// two renders (a template replaced by a failing version through RegisterString / through the loader, a
// loader or a callback that starts to fail) and off again must be reported by every render made while it
// is on — whatever earlier renders have left behind in the engine.
package main

import (
	"errors"
	"fmt"
	"io/fs"
	"strings"
	"syscall"

	"github.com/semihalev/twig"

	"verif/lib/vlib"
)

const rounds = 3

func optsFor(cache string) engOpts {
	switch cache {
	case "off":
		return engOpts{cacheOff: true}
	case "reload":
		return engOpts{autoReload: true}
	}
	return engOpts{}
}

// hasAPITemplate: the program registers a template built through the node constructors
// (Engine.RegisterTemplate keeps nothing when the cache is off — such programs run with the cache on only)
func (pr *program) hasAPITemplate() bool {
	for _, s := range pr.raw {
		if strings.HasPrefix(s, "API-MACRO|") {
			return true
		}
	}
	return false
}

// firstLeaf is the innermost error of the tree (first branch of a joined error).
func firstLeaf(err error) error {
	for err != nil {
		switch u := err.(type) {
		case interface{ Unwrap() error }:
			if n := u.Unwrap(); n != nil {
				err = n
				continue
			}
		case interface{ Unwrap() []error }:
			if l := u.Unwrap(); len(l) > 0 && l[0] != nil {
				err = l[0]
				continue
			}
		}
		break
	}
	return err
}

// repeatFaultCase: EVERY invocation of one callback / of the loader for one name fails; three renders on
// one engine. Each render must return "" and an error through which an injected error of that site (one
// that has been returned to the engine) is found.
func repeatFaultCase(pr *program, mode, variant, cache, siteKey string, value bool, faultDesc string) *vlib.Outcome {
	src := pr.sources(nil, false)
	pl := newPlan([]arm{{siteKey, 0}}, value)
	ses := open(pr, src, mode, variant, pl, optsFor(cache))
	defer ses.close()
	o := &vlib.Outcome{Counters: map[string]int64{"repeat_cases": 1}}
	kind := siteKind(siteKey)
	cls := func(x string) string { return pr.pos.group + "/" + kind + "/repeat-" + cache + "/" + x }
	for r := 1; r <= rounds; r++ {
		res := ses.render()
		o.Counters["renders"]++
		o.Counters["repeat_renders"]++
		if r == 1 && len(pl.fired) == 0 {
			o.Class = cls("fault-not-reached")
			o.Counters["faults_not_reached"] = 1
			if res.err != nil && res.out != "" && !isWriterMode(mode) {
				o.Violation = fmt.Sprintf("%s: Render returned an error together with output %q (err=%s)", pr.id, res.out, errText(res.err))
			}
			return o
		}
		o.Nontrivial = true
		reach := false
		for _, f := range pl.fired {
			if errors.Is(res.err, f) {
				reach = true
				break
			}
		}
		var as *injected
		var viol, c string
		switch {
		case res.err == nil:
			viol, c = fmt.Sprintf("the failure was swallowed: err == nil, output %q", res.out), "swallowed"
		case !reach:
			viol, c = fmt.Sprintf("the returned error does not wrap an injected error of %s (errors.Is false): %s", siteKey, errText(res.err)), "cause-lost"
		case !errors.As(res.err, &as) || as.Site != siteKey:
			viol, c = fmt.Sprintf("errors.As does not find the injected error of %s in: %s", siteKey, errText(res.err)), "as-lost"
		case res.out != "" && !isWriterMode(mode):
			viol, c = fmt.Sprintf("Render returned the error %s together with non-empty output %q", errText(res.err), res.out), "error-with-output"
		}
		if viol != "" {
			o.Class = cls(c)
			o.Violation = fmt.Sprintf("program %s (render %q of %v), mode %s, loaders %s, cache %s, persistent fault: %s; render #%d of %d on the same engine: %s",
				pr.id, pr.top, src, mode, variant, cache, faultDesc, r, rounds, viol)
			o.Detail = detail{pr.id, src, pr.top, mode, variant + ", cache " + cache, fmt.Sprintf("%s (persistent; render #%d on the same engine)", faultDesc, r), res.out, errText(res.err)}
			return o
		}
	}
	o.Class = cls("surfaced")
	return o
}

// repeatNameCase: one name fault (see nameCase); three renders on one engine, each judged like the single
// render; for an unknown callback / macro name the innermost error of render #1 must be found again (same
// type and text) in the errors of the later renders.
func repeatNameCase(pr *program, mode, variant, cache string, st site, kind string, tolerated bool, faultDesc string) *vlib.Outcome {
	src, repl := nameSources(pr, st, kind)
	opts := optsFor(cache)
	ses := open(pr, src, mode, variant, newPlan(nil, false), opts)
	defer ses.close()
	o := &vlib.Outcome{Nontrivial: true, Counters: map[string]int64{"repeat_cases": 1}}
	skind := siteKind(st.Key)
	if variant == "fs" {
		skind = "fs-" + skind
	}
	cls := func(x string) string { return pr.pos.group + "/" + skind + "/repeat-" + cache + "/" + x }
	var twin result
	if tolerated {
		tw := open(pr, pr.sources(map[string]string{st.Key: relName(st, "zzempty")}, false), mode, variant, newPlan(nil, false), opts)
		twin = tw.render()
		tw.close()
		o.Counters["renders"]++
	}
	var leaf1 error
	for r := 1; r <= rounds; r++ {
		res := ses.render()
		o.Counters["renders"]++
		o.Counters["repeat_renders"]++
		var viol, c string
		var pe *fs.PathError
		switch {
		case tolerated && res.err != nil:
			viol, c = fmt.Sprintf("`ignore missing` on a missing template failed: %s", errText(res.err)), "ignore-missing-failed"
		case tolerated && (twin.err != nil || twin.out != res.out):
			viol, c = fmt.Sprintf("`ignore missing` on a missing template gave %q, the program with an empty template gives %q (err=%s)", res.out, twin.out, errText(twin.err)), "ignore-missing-differs"
		case tolerated:
		case res.err == nil:
			viol, c = fmt.Sprintf("the failure was swallowed: err == nil, output %q", res.out), "swallowed"
		case res.out != "" && !isWriterMode(mode):
			viol, c = fmt.Sprintf("Render returned the error %s together with non-empty output %q", errText(res.err), res.out), "error-with-output"
		case kind == "missing" && !errors.Is(res.err, twig.ErrTemplateNotFound):
			viol, c = fmt.Sprintf("the error for a template no loader has does not match ErrTemplateNotFound: %s", errText(res.err)), "cause-lost"
		case (kind == "broken" || kind == "brokeninplace") && !chainHas(res.err, syntaxCause):
			viol, c = fmt.Sprintf("the syntax error of the referenced template (%T %q) cannot be found in the returned error: %s", syntaxCause, syntaxCause.Error(), errText(res.err)), "cause-lost"
		case kind == "isdir" && !(errors.Is(res.err, syscall.EISDIR) && errors.As(res.err, &pe)):
			viol, c = fmt.Sprintf("the I/O error of the loader (*fs.PathError, EISDIR) cannot be found in the returned error: %s", errText(res.err)), "cause-lost"
		case r > 1 && (kind == "callback" || kind == "macro") && !chainHas(res.err, leaf1):
			viol, c = fmt.Sprintf("the cause reported by render #1 (%T %q) cannot be found in the returned error: %s", leaf1, leaf1.Error(), errText(res.err)), "cause-lost"
		}
		if r == 1 {
			leaf1 = firstLeaf(res.err)
		}
		if viol != "" {
			o.Class = cls(c)
			o.Violation = fmt.Sprintf("program %s (render %q of %v), mode %s, loaders %s, cache %s, %s; render #%d of %d on the same engine: %s",
				pr.id, pr.top, src, mode, variant, cache, faultDesc, r, rounds, viol)
			o.Detail = detail{pr.id, src, pr.top, mode, variant + ", cache " + cache, fmt.Sprintf("%s (render #%d on the same engine)", faultDesc, r), res.out, errText(res.err)}
			return o
		}
	}
	if tolerated {
		o.Class = cls("ignore-missing-empty")
	} else {
		o.Class = cls(repl + "-surfaced")
	}
	return o
}

// seqSteps: healthy, failing, failing, healthy again, failing again — all on one engine
var seqSteps = []bool{false, true, true, false, true}

// seqCase: a fault that is switched on and off between renders on one engine.
//
//	kind "name"       template st.Tpl is replaced by the version in which the reached callback site st carries
//	                  an unknown name — how "reg": Engine.RegisterString (cache on); how "src": the loader serves
//	                  the other source (cache off, or cache on + auto-reload with a bumped modification time)
//	kind "syntax"     the template st.Ref that site st refers to is replaced by one with a syntax error (how "src")
//	kind "loaderfail" the loader fails for every Load of name key[2:] while the fault is on — how "arm": cache off;
//	                  how "armtouch": cache on + auto-reload, the modification time of that template moves forward
//	                  whenever the fault is switched (a failing RELOAD of a template the engine has already
//	                  rendered successfully: the cached copy must not be served with a nil error)
//	kind "cb"         every invocation of callback `key` fails while the fault is on (how "arm")
//
// While the fault is on every render must fail ("" + error, cause reachable); for "loaderfail" and "cb" only
// when the failing loader / callback was really invoked during that render. Renders with the fault off are
// not judged (beyond "never an error together with output"); if the very first healthy render differs from
// the fault-free baseline nothing is judged.
func seqCase(pr *program, mode, cache, how, kind string, st site, key, want, faultDesc string) *vlib.Outcome {
	healthy := pr.sources(nil, false)
	pl := newPlan(nil, false)
	var target, failing string
	switch kind {
	case "name":
		target = st.Tpl
		fsrc, _ := nameSources(pr, st, "callback")
		failing = fsrc[target]
	case "syntax":
		target, failing = st.Ref, brokenSource
	case "loaderfail", "cb":
		pl = newPlan([]arm{{key, 0}}, false)
		pl.off = true
		if how == "armtouch" {
			target = key[2:]
		}
	default:
		panic("seqCase: " + kind)
	}
	ses := open(pr, healthy, mode, "solo", pl, optsFor(cache))
	defer ses.close()
	what := kind + "-" + how + "-" + cache
	armed := how == "arm" || how == "armtouch"
	o := &vlib.Outcome{Counters: map[string]int64{"switch_cases": 1}}
	cls := func(x string) string { return pr.pos.group + "/seq/" + what + "/" + x }
	set := func(on bool) error {
		v := healthy[target]
		if on {
			v = failing
		}
		switch how {
		case "reg":
			return ses.e.RegisterString(target, v)
		case "src":
			ses.h.src[target] = v
			ses.h.mt[target]++
		case "arm":
			pl.off = !on
		case "armtouch":
			pl.off = !on
			ses.h.mt[target]++
		default:
			panic("seqCase: " + how)
		}
		return nil
	}
	state := false
	judged := 0
	for i, on := range seqSteps {
		if on != state {
			if err := set(on); err != nil {
				o.Class = cls("replacement-rejected")
				o.Counters["seq_replacement_rejected"]++
				return o
			}
			state = on
		}
		nb := len(pl.fired)
		res := ses.render()
		o.Counters["renders"]++
		o.Counters["repeat_renders"]++
		var viol, c string
		if !on {
			switch {
			case res.err != nil && res.out != "" && !isWriterMode(mode):
				viol, c = fmt.Sprintf("Render returned the error %s together with non-empty output %q", errText(res.err), res.out), "error-with-output"
			case i == 0 && (res.err != nil || res.out != want):
				o.Class = cls("healthy-differs")
				o.Counters["seq_healthy_differs"]++
				return o
			case res.err != nil || res.out != want:
				o.Counters["seq_restored_differs"]++
			}
		} else {
			fired := pl.fired[nb:]
			switch {
			case armed && len(fired) == 0:
				// the failing loader / callback was not invoked during this render: nothing failed
				if how == "armtouch" {
					o.Counters["reload_fault_not_invoked"]++
				} else {
					o.Counters["seq_fault_not_invoked"]++
				}
				if res.err != nil && res.out != "" && !isWriterMode(mode) {
					viol, c = fmt.Sprintf("Render returned the error %s together with non-empty output %q", errText(res.err), res.out), "error-with-output"
				}
			case res.err == nil:
				viol, c = fmt.Sprintf("the failure was swallowed: err == nil, output %q", res.out), "swallowed"
			case res.out != "" && !isWriterMode(mode):
				viol, c = fmt.Sprintf("Render returned the error %s together with non-empty output %q", errText(res.err), res.out), "error-with-output"
			case armed && !errors.Is(res.err, fired[0]):
				viol, c = fmt.Sprintf("the returned error does not wrap the cause %q (errors.Is false): %s", fired[0].Error(), errText(res.err)), "cause-lost"
			case kind == "syntax" && !chainHas(res.err, syntaxCause):
				viol, c = fmt.Sprintf("the syntax error of the referenced template (%T %q) cannot be found in the returned error: %s", syntaxCause, syntaxCause.Error(), errText(res.err)), "cause-lost"
			default:
				judged++
				if how == "armtouch" {
					o.Counters["failed_reloads_judged"]++
				}
			}
		}
		if viol != "" {
			steps := ""
			for j := 0; j <= i; j++ {
				if seqSteps[j] {
					steps += "F"
				} else {
					steps += "H"
				}
			}
			o.Nontrivial = true
			o.Class = cls(c)
			o.Violation = fmt.Sprintf("program %s (render %q of %v), mode %s, cache %s, fault switched on and off between renders on one engine (%s; %s): render #%d of the sequence %s (H = fault off, F = fault on): %s",
				pr.id, pr.top, healthy, mode, cache, faultDesc, how, i+1, steps, viol)
			o.Detail = detail{pr.id, healthy, pr.top, mode, "solo, cache " + cache, fmt.Sprintf("%s (%s), render #%d of %s; failing version of %q: %q", faultDesc, how, i+1, steps, target, failing), res.out, errText(res.err)}
			return o
		}
	}
	o.Nontrivial = judged > 0
	if judged > 0 {
		o.Class = cls("surfaced")
	} else {
		o.Class = cls("fault-not-invoked")
	}
	return o
}
