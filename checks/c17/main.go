// C17 — failures during rendering always surface as errors that wrap their cause.
//
// Fault enumeration. A corpus of template programs is generated as the full product
// (structural position) × (expression form): every expression position carries harness callbacks
// (filters, functions, tests — each call site under its own name) and every template comes from a
// harness loader. Each program is rendered once fault-free to learn which call sites are invoked how
// often; then once per (site, n) with exactly the n-th invocation of that site failing with a fresh
// sentinel error. The render must return "" and an error through which the sentinel is found with
// errors.Is and errors.As — in every render mode (plain, debug levels, RenderTo, Template.Render),
// for both callback result flavours (nil, err) and (value, err), and for every loader arrangement.
// Name faults replace one reached filter/function/test/macro/template name by an unknown one.
// That includes names a from-import / import statement resolves although nothing calls them afterwards
// (positions of group "unused").
// The documented tolerances (undefined variable/attribute, `ignore missing`) are checked against the
// twin program in which the tolerated statement is deleted.
// Templates in sub-directories that refer to each other by ./ and ../ names are served by the harness
// loader and by a real FileSystemLoader; the target the relative name RESOLVES to is made to fail
// (loader error for exactly that name, syntax error in it, unreadable file, missing).
// Repeated renders on one engine with a persistent fault, and faults switched on and off between
// renders: repeat.go.
package main

import (
	"bytes"
	"errors"
	"fmt"
	"io"
	"io/fs"
	"os"
	"path"
	"path/filepath"
	"reflect"
	"regexp"
	"sort"
	"strconv"
	"strings"
	"syscall"

	"github.com/semihalev/twig"

	"verif/lib/vlib"
)

// ---------------------------------------------------------------------------------------------
// corpus: positions × expression forms
//
// Markers in template sources:
//   @f @g @t @u   a filter / function / true-test / false-test call site (each gets its own name)
//   @F @G @T @U   the same, written in a BRANCH-FREE expression form: by the language's semantics all upper-case
//                 sites of a program are evaluated together (whenever one is, all are) — so whether such a site
//                 is "reached" does not have to be learnt from the engine under test
//   #name#        a reference to template `name` (include / extends / import / from)
//   #./n=dir/n#   a RELATIVE reference: `./n` (or `../d/n`) is written, the loader is asked for `dir/n`
//   $name$        a call of (or import of) macro `name`
//   «…»           a statement that is covered by a documented tolerance (its twin is the program
//                 with the statement deleted)

type position struct {
	name   string
	group  string // coarse structure label used in the outcome class
	hole   byte   // 'E' value expression, 'S' sequence expression, 'N' template-name expression, 0 none
	top    string
	tpls   map[string]string
	spless bool              // register a harness filter under the built-in name "spaceless"
	rel    bool              // templates live in sub-directories and refer to each other by ./ and ../ names
	decoys map[string]string // (rel) templates under the names AS WRITTEN ("./part"), i.e. what a loader rooted
	// one level up would find; present only in the "+root" variant of the position
}

// macro parameter list that re-binds every context variable an expression form may use
const mp = "x, xs, m, s"

// a library with three macros for the positions of group "unused" (names that are imported but never called)
const unusedLib = "{% macro mm(a) %}[{{ a }}]{% endmacro %}{% macro nn(a) %}({{ a }}){% endmacro %}{% macro kk(a) %}<{{ a }}>{% endmacro %}"

var positions = []position{
	{name: "print", group: "top", hole: 'E', tpls: map[string]string{"top": "a{{ <E> }}b"}},
	{name: "print2nd", group: "top", hole: 'E', tpls: map[string]string{"top": "a{{ x }}b{{ <E> }}c"}},
	{name: "ifcond", group: "if", hole: 'E', tpls: map[string]string{"top": "{% if <E> %}T{% else %}F{% endif %}"}},
	{name: "elseifcond", group: "if", hole: 'E', tpls: map[string]string{"top": "{% if @g(0) %}T{% elseif <E> %}U{% else %}F{% endif %}"}},
	{name: "ifbody", group: "if", hole: 'E', tpls: map[string]string{"top": "{% if x %}[{{ <E> }}]{% endif %}"}},
	{name: "elsebody", group: "if", hole: 'E', tpls: map[string]string{"top": "{% if @g(0) %}T{% else %}[{{ <E> }}]{% endif %}"}},
	{name: "elseifbody", group: "if", hole: 'E', tpls: map[string]string{"top": "{% if 0 %}T{% elseif x is @t %}[{{ <E> }}]{% else %}F{% endif %}"}},
	{name: "nestedif", group: "if", hole: 'E', tpls: map[string]string{"top": "{% if x %}{% if x is @u %}n{% else %}{% if <E> %}y{% endif %}{% endif %}{% endif %}"}},
	{name: "forbody", group: "loop", hole: 'E', tpls: map[string]string{"top": "{% for i in xs %}<{{ <E> }}>{% endfor %}"}},
	{name: "forbodykv", group: "loop", hole: 'E', tpls: map[string]string{"top": "{% for k, v in m %}{{ k }}={{ <E> }};{% endfor %}"}},
	{name: "forbodystr", group: "loop", hole: 'E', tpls: map[string]string{"top": "{% for c in s %}{{ c }}{{ <E> }}{% endfor %}"}},
	{name: "forelse", group: "loop", hole: 'E', tpls: map[string]string{"top": "{% for i in [] %}n{% else %}[{{ <E> }}]{% endfor %}"}},
	{name: "forelseundef", group: "loop", hole: 'E', tpls: map[string]string{"top": "{% for i in undefinedvar %}n{% else %}[{{ <E> }}]{% endfor %}"}},
	{name: "fornested", group: "loop", hole: 'E', tpls: map[string]string{"top": "{% for i in xs %}{% for j in [1, 2] %}{{ <E> }}{% endfor %}/{% endfor %}"}},
	{name: "forifcond", group: "loop", hole: 'E', tpls: map[string]string{"top": "{% for i in xs %}{% if <E> %}y{% else %}n{% endif %}{% endfor %}"}},
	{name: "forset", group: "loop", hole: 'E', tpls: map[string]string{"top": "{% for i in xs %}{% set v = <E> %}{{ v }}{% endfor %}"}},
	{name: "forafter", group: "loop", hole: 'E', tpls: map[string]string{"top": "{% for i in xs %}{{ i }}{% endfor %}{{ <E> }}"}},
	{name: "forseq", group: "loopseq", hole: 'S', tpls: map[string]string{"top": "{% for i in <S> %}{{ i }}{% else %}e{% endfor %}"}},
	{name: "forseqkv", group: "loopseq", hole: 'S', tpls: map[string]string{"top": "{% for k, i in <S> %}{{ k }}{{ i|@f }}{% endfor %}"}},
	{name: "forseqnested", group: "loopseq", hole: 'S', tpls: map[string]string{"top": "{% for j in [1, 2] %}{% for i in <S> %}{{ i }}{% endfor %}{% endfor %}"}},
	{name: "set", group: "set", hole: 'E', tpls: map[string]string{"top": "{% set v = <E> %}[{{ v }}]"}},
	{name: "setuse", group: "set", hole: 'E', tpls: map[string]string{"top": "{% set v = <E> %}{% set w = @g(v) %}[{{ w }}]"}},
	{name: "do", group: "do", hole: 'E', tpls: map[string]string{"top": "{% do <E> %}k"}},
	{name: "block", group: "block", hole: 'E', tpls: map[string]string{"top": "[{% block b %}{{ <E> }}{% endblock %}]"}},
	{name: "blockinloop", group: "block", hole: 'E', tpls: map[string]string{"top": "{% for i in xs %}{% block b %}{{ <E> }}{% endblock %}{% endfor %}"}},
	{name: "blocknested", group: "block", hole: 'E', tpls: map[string]string{"top": "{% block o %}o{% block b %}{{ <E> }}{% endblock %}{% endblock %}"}},
	{name: "childblock", group: "extends", hole: 'E', top: "child", tpls: map[string]string{
		"base":  "[{% block b %}B{% endblock %}]",
		"child": "{% extends '#base#' %}{% block b %}C{{ <E> }}{% endblock %}"}},
	{name: "basedefault", group: "extends", hole: 'E', top: "child", tpls: map[string]string{
		"base":  "[{% block b %}B{{ <E> }}{% endblock %}{% block c %}c{% endblock %}]",
		"child": "{% extends '#base#' %}{% block c %}C{% endblock %}"}},
	{name: "baseoutside", group: "extends", hole: 'E', top: "child", tpls: map[string]string{
		"base":  "[{{ <E> }}{% block b %}B{% endblock %}]",
		"child": "{% extends '#base#' %}{% block b %}C{% endblock %}"}},
	{name: "baseafter", group: "extends", hole: 'E', top: "child", tpls: map[string]string{
		"base":  "[{% block b %}B{% endblock %}{{ <E> }}]",
		"child": "{% extends '#base#' %}{% block b %}C{{ @g(1) }}{% endblock %}"}},
	{name: "parent", group: "parent", hole: 'E', top: "child", tpls: map[string]string{
		"base":  "[{% block b %}B{{ <E> }}{% endblock %}]",
		"child": "{% extends '#base#' %}{% block b %}C{{ parent() }}D{% endblock %}"}},
	{name: "parentchild", group: "parent", hole: 'E', top: "child", tpls: map[string]string{
		"base":  "[{% block b %}B{{ x|@f }}{% endblock %}]",
		"child": "{% extends '#base#' %}{% block b %}C{{ parent() }}{{ <E> }}{% endblock %}"}},
	{name: "parent2base", group: "parent", hole: 'E', top: "leaf", tpls: map[string]string{
		"base": "[{% block b %}B{{ <E> }}{% endblock %}]",
		"mid":  "{% extends '#base#' %}{% block b %}M{{ parent() }}{% endblock %}",
		"leaf": "{% extends '#mid#' %}{% block b %}L{{ parent() }}{% endblock %}"}},
	{name: "parent2mid", group: "parent", hole: 'E', top: "leaf", tpls: map[string]string{
		"base": "[{% block b %}B{% endblock %}]",
		"mid":  "{% extends '#base#' %}{% block b %}M{{ <E> }}{{ parent() }}{% endblock %}",
		"leaf": "{% extends '#mid#' %}{% block b %}L{{ parent() }}{% endblock %}"}},
	{name: "midblock", group: "extends", hole: 'E', top: "leaf", tpls: map[string]string{
		"base": "[{% block b %}B{% endblock %}{% block c %}c{% endblock %}]",
		"mid":  "{% extends '#base#' %}{% block b %}M{{ <E> }}{% endblock %}",
		"leaf": "{% extends '#mid#' %}{% block c %}L{% endblock %}"}},
	{name: "parentinloop", group: "parent", hole: 'E', top: "child", tpls: map[string]string{
		"base":  "[{% block b %}B{{ <E> }}{% endblock %}]",
		"child": "{% extends '#base#' %}{% block b %}{% for i in [1, 2] %}{{ parent() }}{% endfor %}{% endblock %}"}},
	{name: "extendsname", group: "extends", hole: 'N', top: "child", tpls: map[string]string{
		"part":  "[{% block b %}B{% endblock %}]",
		"child": "{% extends <N> %}{% block b %}C{% endblock %}"}},
	{name: "include", group: "include", hole: 'E', tpls: map[string]string{
		"top": "<{% include '#part#' %}>", "part": "({{ <E> }})"}},
	{name: "includewith", group: "include", hole: 'E', tpls: map[string]string{
		"top": "<{% include '#part#' with {'y': 2} %}>", "part": "({{ <E> }}{{ y }})"}},
	{name: "includeonly", group: "include", hole: 'E', tpls: map[string]string{
		"top": "<{% include '#part#' with {'x': x, 'xs': xs, 'm': m, 's': s} only %}>", "part": "({{ <E> }})"}},
	{name: "includeignore", group: "include", hole: 'E', tpls: map[string]string{
		"top": "<{% include '#part#' ignore missing %}>", "part": "({{ <E> }})"}},
	{name: "includeignorewith", group: "include", hole: 'E', tpls: map[string]string{
		"top": "<{% include '#part#' ignore missing with {'y': @g(2)} %}>", "part": "({{ <E> }})"}},
	{name: "includewithvalue", group: "include", hole: 'E', tpls: map[string]string{
		"top": "<{% include '#part#' with {'y': <E>} %}>", "part": "({{ y }})"}},
	{name: "includewithvalues", group: "include", hole: 'E', tpls: map[string]string{
		"top": "<{% include '#part#' with {'y': <E>, 'z': @g(2)} only %}>", "part": "({{ y }}{{ z }})"}},
	{name: "includename", group: "include", hole: 'N', tpls: map[string]string{
		"top": "<{% include <N> %}>", "part": "({{ x|@f }})"}},
	{name: "includenameignore", group: "include", hole: 'N', tpls: map[string]string{
		"top": "<{% include <N> ignore missing %}>", "part": "({{ x|@f }})"}},
	{name: "includeinloop", group: "include", hole: 'E', tpls: map[string]string{
		"top": "{% for i in xs %}{% include '#part#' %}{% endfor %}", "part": "({{ <E> }})"}},
	{name: "includedeep", group: "include", hole: 'E', tpls: map[string]string{
		"top": "<{% include '#mid#' %}>", "mid": "{{ x|@f }}{% include '#part#' %}", "part": "({{ <E> }})"}},
	{name: "includeinblock", group: "include", hole: 'E', top: "child", tpls: map[string]string{
		"base":  "[{% block b %}B{% endblock %}]",
		"child": "{% extends '#base#' %}{% block b %}{% include '#part#' %}{% endblock %}",
		"part":  "({{ <E> }})"}},
	{name: "includeextends", group: "include", hole: 'E', tpls: map[string]string{
		"top":   "<{% include '#child#' %}>",
		"base":  "[{% block b %}B{% endblock %}]",
		"child": "{% extends '#base#' %}{% block b %}C{{ <E> }}{% endblock %}"}},
	{name: "includetwice", group: "include", hole: 'E', tpls: map[string]string{
		"top": "{% include '#part#' %}|{% include '#part#' %}", "part": "({{ <E> }})"}},
	{name: "macroself", group: "macro", hole: 'E', tpls: map[string]string{
		"top": "{% macro mm(" + mp + ") %}[{{ <E> }}]{% endmacro %}{{ $mm$(" + mp + ") }}"}},
	{name: "macroselfdot", group: "macro", hole: 'E', tpls: map[string]string{
		"top": "{% macro mm(" + mp + ") %}[{{ <E> }}]{% endmacro %}{{ _self.$mm$(" + mp + ") }}"}},
	{name: "macroarg", group: "macro", hole: 'E', tpls: map[string]string{
		"top": "{% macro mm(a, b = 2) %}[{{ a }}{{ b }}]{% endmacro %}{{ $mm$(<E>) }}"}},
	{name: "macroarg2", group: "macro", hole: 'E', tpls: map[string]string{
		"top": "{% macro mm(a, b = 2) %}[{{ a }}{{ b|@f }}]{% endmacro %}{{ _self.$mm$(@g(1), <E>) }}"}},
	{name: "macroimport", group: "macro", hole: 'E', tpls: map[string]string{
		"lib": "{% macro mm(" + mp + ") %}[{{ <E> }}]{% endmacro %}",
		"top": "{% import '#lib#' as l %}{{ l.$mm$(" + mp + ") }}"}},
	{name: "macrofrom", group: "macro", hole: 'E', tpls: map[string]string{
		"lib": "{% macro mm(" + mp + ") %}[{{ <E> }}]{% endmacro %}",
		"top": "{% from '#lib#' import $mm$ as q %}{{ q(" + mp + ") }}"}},
	{name: "macrofromplain", group: "macro", hole: 'E', tpls: map[string]string{
		"lib": "{% macro mm(" + mp + ") %}[{{ <E> }}]{% endmacro %}",
		"top": "{% from '#lib#' import mm %}{{ $mm$(" + mp + ") }}"}},
	{name: "macroimportarg", group: "macro", hole: 'E', tpls: map[string]string{
		"lib": "{% macro mm(a) %}[{{ a|@f }}]{% endmacro %}",
		"top": "{% import '#lib#' as l %}{{ l.$mm$(<E>) }}"}},
	{name: "macrosibling", group: "macro", hole: 'E', tpls: map[string]string{
		"lib": "{% macro inner(" + mp + ") %}({{ <E> }}){% endmacro %}{% macro mm(" + mp + ") %}[{{ $inner$(" + mp + ") }}]{% endmacro %}",
		"top": "{% import '#lib#' as l %}{{ l.$mm$(" + mp + ") }}"}},
	{name: "macroinloop", group: "macro", hole: 'E', tpls: map[string]string{
		"top": "{% macro mm(" + mp + ") %}[{{ <E> }}]{% endmacro %}{% for i in [1, 2] %}{{ $mm$(" + mp + ") }}{% endfor %}"}},
	{name: "macroinblock", group: "macro", hole: 'E', top: "child", tpls: map[string]string{
		"base":  "[{% block b %}B{% endblock %}]",
		"lib":   "{% macro mm(" + mp + ") %}[{{ <E> }}]{% endmacro %}",
		"child": "{% extends '#base#' %}{% block b %}{% import '#lib#' as l %}{{ l.$mm$(" + mp + ") }}{% endblock %}"}},
	{name: "macroinclude", group: "macro", hole: 'E', tpls: map[string]string{
		"part": "({{ <E> }})",
		"top":  "{% macro mm(" + mp + ") %}[{% include '#part#' %}]{% endmacro %}{{ $mm$(" + mp + ") }}"}},
	{name: "macroloopbody", group: "macro", hole: 'E', tpls: map[string]string{
		"top": "{% macro mm(" + mp + ") %}{% for i in xs %}{% if i %}{{ <E> }}{% endif %}{% endfor %}{% endmacro %}{{ $mm$(" + mp + ") }}"}},
	{name: "libtoplevel", group: "macro", hole: 'E', tpls: map[string]string{
		"lib": "{% set q = <E> %}{% macro mm(a) %}[{{ a }}]{% endmacro %}",
		"top": "{% import '#lib#' as l %}{{ l.$mm$(1) }}"}},
	{name: "libtoplevelfrom", group: "macro", hole: 'E', tpls: map[string]string{
		"lib": "{{ <E> }}{% macro mm(a) %}[{{ a }}]{% endmacro %}",
		"top": "{% from '#lib#' import $mm$ %}{{ mm(1) }}"}},
	// top-level code of an imported library that stands AFTER (between) the macro definitions: the macros
	// the importer calls are already defined when the library's top-level code fails
	{name: "libtoplevelafter", group: "macro", hole: 'E', tpls: map[string]string{
		"lib": "{% macro mm(a) %}[{{ a }}]{% endmacro %}{% set q = <E> %}",
		"top": "{% import '#lib#' as l %}{{ l.$mm$(1) }}"}},
	{name: "libtoplevelfromafter", group: "macro", hole: 'E', tpls: map[string]string{
		"lib": "{% macro mm(a) %}[{{ a }}]{% endmacro %}{{ <E> }}",
		"top": "{% from '#lib#' import $mm$ as q %}{{ q(1) }}"}},
	{name: "libtoplevelmid", group: "macro", hole: 'E', tpls: map[string]string{
		"lib": "{% macro mm(a) %}[{{ a }}]{% endmacro %}{% if 1 %}{% set q = <E> %}{% endif %}{% macro nn(a) %}({{ a }}){% endmacro %}",
		"top": "{% import '#lib#' as l %}{{ l.$mm$(1) }}"}},
	{name: "libtoplevelinmacro", group: "macro", hole: 'E', tpls: map[string]string{
		"lib": "{% macro mm(a) %}[{{ a }}]{% endmacro %}{% set q = <E> %}",
		"top": "{% macro outer() %}{% import '#lib#' as l %}<{{ l.$mm$(1) }}>{% endmacro %}{{ $outer$() }}"}},
	{name: "libtoplevelininclude", group: "macro", hole: 'E', tpls: map[string]string{
		"lib":  "{% macro mm(a) %}[{{ a }}]{% endmacro %}{% set q = <E> %}",
		"part": "{% from '#lib#' import $mm$ %}({{ mm(1) }})",
		"top":  "x{% include '#part#' %}y"}},
	{name: "libtoplevelnested", group: "macro", hole: 'E', tpls: map[string]string{
		"lib2": "{% macro kk(a) %}{{ a }}{% endmacro %}{% set q = <E> %}",
		"lib":  "{% macro mm(a) %}[{{ a }}]{% endmacro %}{% import '#lib2#' as k %}",
		"top":  "{% import '#lib#' as l %}{{ l.$mm$(1) }}{% include '#part#' %}",
		"part": "{% import '#lib#' as l2 %}{{ l2.$mm$(2) }}"}},
	{name: "applybuiltin", group: "apply", hole: 'E', tpls: map[string]string{"top": "{% apply upper %}a{{ <E> }}b{% endapply %}"}},
	{name: "applyharness", group: "apply", hole: 'E', tpls: map[string]string{"top": "{% apply @f %}a{{ <E> }}b{% endapply %}"}},
	{name: "applynested", group: "apply", hole: 'E', tpls: map[string]string{"top": "{% apply @f %}{% apply lower %}{{ <E> }}{% endapply %}{% endapply %}"}},
	{name: "applyinloop", group: "apply", hole: 'E', tpls: map[string]string{"top": "{% for i in [1, 2] %}{% apply @f %}{{ <E> }}{% endapply %}{% endfor %}"}},
	{name: "spaceless", group: "spaceless", hole: 'E', tpls: map[string]string{"top": "{% spaceless %}<a> {{ <E> }} </a>{% endspaceless %}"}},
	{name: "spacelessuser", group: "spaceless", hole: 'E', spless: true, tpls: map[string]string{"top": "{% spaceless %}<a> {{ <E> }} </a>{% endspaceless %}"}},
	{name: "spacelessapply", group: "spaceless", hole: 'E', spless: true, tpls: map[string]string{"top": "{% spaceless %}{% apply @f %}<b> {{ <E> }} </b>{% endapply %}{% endspaceless %}"}},
	{name: "spacelessinloop", group: "spaceless", hole: 'E', spless: true, tpls: map[string]string{"top": "{% for i in [1, 2] %}{% spaceless %}<i> </i>{% endspaceless %}{% endfor %}{{ <E> }}"}},
	{name: "spacelessinclude", group: "spaceless", hole: 'E', spless: true, tpls: map[string]string{
		"top": "{% include '#part#' %}", "part": "{% spaceless %}<a> {{ <E> }} </a>{% endspaceless %}"}},
	{name: "spacelessfilter", group: "spaceless", hole: 'E', spless: true, tpls: map[string]string{"top": "{{ <E> }}{{ s|spaceless }}"}},
	{name: "spacelessshort", group: "spaceless", hole: 'E', spless: true, tpls: map[string]string{"top": "{% spaceless %}{{ <E> }}{% endspaceless %}"}},
	{name: "spacelessempty", group: "spaceless", hole: 0, spless: true, tpls: map[string]string{"top": "{% spaceless %}{% endspaceless %}k{% spaceless %} {% endspaceless %}"}},
	{name: "applyempty", group: "apply", hole: 0, tpls: map[string]string{"top": "{% apply @f %}{% endapply %}k{% apply @f %}{{ undefinedvar }}{% endapply %}"}},
	// macro bodies built through the exported node constructors: text containing {{ name|filter }}
	// is interpolated by CallMacro itself
	{name: "apimacrotext", group: "apimacro", hole: 0, tpls: map[string]string{
		"apilib": "API-MACRO|mm|a|[{{ a|@f }}]<{{ a|@f }}>",
		"top":    "{% import '#apilib#' as l %}{{ l.$mm$(x) }}"}},
	{name: "apimacrotextloop", group: "apimacro", hole: 0, tpls: map[string]string{
		"apilib": "API-MACRO|mm|a|[{{ a|@f }}]",
		"top":    "{% from '#apilib#' import $mm$ %}{% for i in xs %}{{ mm(i) }}{% endfor %}"}},
	{name: "apimacrotextarg", group: "apimacro", hole: 'E', tpls: map[string]string{
		"apilib": "API-MACRO|mm|a|[{{ a|@f }}]",
		"top":    "{% import '#apilib#' as l %}{{ l.$mm$(<E>) }}"}},
	// macro parameter defaults (closed expressions only)
	{name: "macrodefault", group: "macro", hole: 0, tpls: map[string]string{
		"top": "{% macro mm(a, b = @g(2), c = 3|@f) %}[{{ a }}{{ b }}{{ c }}]{% endmacro %}{{ $mm$(1) }}{{ _self.$mm$(1, 2) }}"}},
	{name: "macrodefaultimport", group: "macro", hole: 0, tpls: map[string]string{
		"lib": "{% macro mm(a, b = @g(2)) %}[{{ a }}{{ b }}]{% endmacro %}",
		"top": "{% import '#lib#' as l %}{{ l.$mm$(1) }}{% for i in [1, 2] %}{{ l.$mm$(i) }}{% endfor %}"}},
	// names that are RESOLVED by a statement on the rendered path but never USED afterwards: `from … import n`
	// binds n when the statement is executed — a name the library does not define cannot be resolved there,
	// whether or not n is called later (C17-G); likewise `import` / `from` of a template whose macros are never
	// called. The $…$ sites are the imported names; calls that stand in an untaken branch are written without a
	// marker (they are never reached and therefore never renamed).
	{name: "fromunused", group: "unused", hole: 0, tpls: map[string]string{
		"lib": unusedLib, "top": "a{% from '#lib#' import $nn$ %}b"}},
	{name: "fromunusedall", group: "unused", hole: 0, tpls: map[string]string{
		"lib": unusedLib, "top": "{% from '#lib#' import $mm$, $nn$, $kk$ %}d"}},
	{name: "fromunusedbeside", group: "unused", hole: 0, tpls: map[string]string{
		"lib": unusedLib, "top": "{% from '#lib#' import $mm$, $nn$, $kk$ %}{{ nn(x) }}"}},
	{name: "fromunusedmid", group: "unused", hole: 0, tpls: map[string]string{
		"lib": unusedLib, "top": "{% from '#lib#' import mm, $nn$, kk %}{{ mm(x) }}{{ kk(x|@f) }}"}},
	{name: "fromunusedalias", group: "unused", hole: 0, tpls: map[string]string{
		"lib": unusedLib, "top": "{% from '#lib#' import mm as p, $nn$ as q %}{{ p(x) }}"}},
	{name: "fromunusedaliasfirst", group: "unused", hole: 0, tpls: map[string]string{
		"lib": unusedLib, "top": "{% from '#lib#' import $nn$ as q, mm %}{{ mm(x) }}"}},
	{name: "fromunusedaliasmix", group: "unused", hole: 0, tpls: map[string]string{
		"lib": unusedLib, "top": "{% from '#lib#' import $mm$ as p, $nn$, $kk$ as r %}{{ nn(x) }}"}},
	{name: "fromunusedaliasswap", group: "unused", hole: 0, tpls: map[string]string{ // the alias is the name of a macro that exists
		"lib": unusedLib, "top": "{% from '#lib#' import $nn$ as mm %}d"}},
	{name: "fromunusedbranch", group: "unused", hole: 0, tpls: map[string]string{
		"lib": unusedLib, "top": "{% from '#lib#' import $nn$ %}{% if @g(0) %}{{ nn(x) }}{% endif %}d"}},
	{name: "fromunusedelse", group: "unused", hole: 0, tpls: map[string]string{
		"lib": unusedLib, "top": "{% from '#lib#' import mm, $nn$ %}{% if x is @t %}{{ mm(x) }}{% else %}{{ nn(x) }}{% endif %}"}},
	{name: "fromunusedtern", group: "unused", hole: 0, tpls: map[string]string{
		"lib": unusedLib, "top": "{% from '#lib#' import $nn$, mm %}{{ @g(1) ? mm(x) : nn(x) }}"}},
	{name: "fromunusedshort", group: "unused", hole: 0, tpls: map[string]string{
		"lib": unusedLib, "top": "{% from '#lib#' import $nn$ %}{% if @g(0) and nn(x) %}y{% else %}n{% endif %}"}},
	{name: "fromunusedemptyloop", group: "unused", hole: 0, tpls: map[string]string{
		"lib": unusedLib, "top": "{% from '#lib#' import $nn$ %}{% for i in [] %}{{ nn(i) }}{% else %}e{% endfor %}"}},
	{name: "fromunusedloop", group: "unused", hole: 0, tpls: map[string]string{
		"lib": unusedLib, "top": "{% for i in xs %}{% from '#lib#' import $nn$ %}{{ i }}{% endfor %}"}},
	{name: "fromunusedif", group: "unused", hole: 0, tpls: map[string]string{
		"lib": unusedLib, "top": "{% if x is @t %}{% from '#lib#' import mm, $nn$ %}{{ mm(x) }}{% endif %}"}},
	{name: "fromunusedinclude", group: "unused", hole: 0, tpls: map[string]string{
		"lib": unusedLib, "part": "{% from '#lib#' import mm, $nn$ %}{{ mm(x) }}", "top": "h{% include '#part#' %}t"}},
	{name: "fromunusedbase", group: "unused", hole: 0, top: "child", tpls: map[string]string{
		"lib":   unusedLib,
		"base":  "<{% block b %}{% from '#lib#' import $nn$ %}B{% endblock %}>",
		"child": "{% extends '#base#' %}{% block o %}x{% endblock %}"}},
	{name: "fromunusedbaseoutside", group: "unused", hole: 0, top: "child", tpls: map[string]string{
		"lib":   unusedLib,
		"base":  "<{% from '#lib#' import mm, $nn$ %}{% block b %}B{% endblock %}{{ mm(x) }}>",
		"child": "{% extends '#base#' %}{% block b %}C{% endblock %}"}},
	{name: "fromunusedchild", group: "unused", hole: 0, top: "child", tpls: map[string]string{
		"lib":   unusedLib,
		"base":  "<{% block b %}B{% endblock %}>",
		"child": "{% extends '#base#' %}{% block b %}{% from '#lib#' import $nn$ as q, mm %}C{{ mm(x) }}{% endblock %}"}},
	{name: "fromunusedparent", group: "unused", hole: 0, top: "child", tpls: map[string]string{
		"lib":   unusedLib,
		"base":  "<{% block b %}{% from '#lib#' import $nn$ %}B{% endblock %}>",
		"child": "{% extends '#base#' %}{% block b %}C{{ parent() }}{% endblock %}"}},
	{name: "fromunusedmacro", group: "unused", hole: 0, tpls: map[string]string{
		"lib": unusedLib, "top": "{% macro outer() %}{% from '#lib#' import $nn$, mm %}o{{ mm(1) }}{% endmacro %}{{ $outer$() }}"}},
	{name: "fromunusedlib", group: "unused", hole: 0, tpls: map[string]string{
		"lib":   unusedLib,
		"outer": "{% from '#lib#' import $nn$ %}{% macro oo(a) %}{{ a }}{% endmacro %}",
		"top":   "{% import '#outer#' as l %}{{ l.$oo$(x) }}"}},
	{name: "fromunusedtwice", group: "unused", hole: 0, tpls: map[string]string{
		"lib": unusedLib, "top": "{% from '#lib#' import mm %}{% from '#lib#' import $nn$ %}{{ mm(x) }}"}},
	{name: "fromunusedafterimport", group: "unused", hole: 0, tpls: map[string]string{
		"lib": unusedLib, "top": "{% import '#lib#' as l %}{% from '#lib#' import $kk$ as r %}{{ l.$mm$(x) }}"}},
	{name: "fromunusedapply", group: "unused", hole: 0, tpls: map[string]string{
		"lib": unusedLib, "top": "{% apply upper %}a{% from '#lib#' import $nn$ %}b{% endapply %}"}},
	{name: "fromunusedapi", group: "unused", hole: 0, tpls: map[string]string{
		"apilib": "API-MACRO|mm|a|[{{ a|@f }}]",
		"top":    "{% from '#apilib#' import $mm$ as q %}d"}},
	{name: "importunused", group: "unused", hole: 0, tpls: map[string]string{
		"lib": unusedLib, "top": "a{% import '#lib#' as l %}b"}},
	{name: "importunusedbranch", group: "unused", hole: 0, tpls: map[string]string{
		"lib": unusedLib, "top": "{% import '#lib#' as l %}{% if @g(0) %}{{ l.mm(x) }}{% endif %}d"}},
	{name: "importunusedinclude", group: "unused", hole: 0, tpls: map[string]string{
		"lib": unusedLib, "part": "{% import '#lib#' as l %}p", "top": "h{% include '#part#' %}t"}},
	{name: "importunusedbase", group: "unused", hole: 0, top: "child", tpls: map[string]string{
		"lib":   unusedLib,
		"base":  "<{% block b %}{% import '#lib#' as l %}B{% endblock %}>",
		"child": "{% extends '#base#' %}{% block o %}x{% endblock %}"}},
	{name: "importunusedlib", group: "unused", hole: 0, tpls: map[string]string{
		"lib":   unusedLib,
		"outer": "{% import '#lib#' as k %}{% macro oo(a) %}{{ a }}{% endmacro %}",
		"top":   "{% from '#outer#' import $oo$ %}{{ oo(x) }}"}},
	{name: "importunusedtwo", group: "unused", hole: 0, tpls: map[string]string{
		"lib": unusedLib, "lib2": "{% macro zz(a) %}{{ a }}{% endmacro %}",
		"top": "{% import '#lib#' as l %}{% import '#lib2#' as k %}{{ l.$mm$(x) }}"}},
	// documented tolerances
	{name: "tolundefvar", group: "tolerance", hole: 'E', tpls: map[string]string{"top": "a«{{ undefinedvar }}»{{ <E> }}b"}},
	{name: "tolundefattr", group: "tolerance", hole: 'E', tpls: map[string]string{"top": "a«{{ m.nope }}{{ x.nope }}{{ undefinedvar.a.b }}»{{ <E> }}b"}},
	{name: "tolundefloop", group: "tolerance", hole: 'E', tpls: map[string]string{"top": "{% for i in xs %}«{{ i.nope }}{{ nosuch }}»{{ <E> }}{% endfor %}"}},
	{name: "tolundefinclude", group: "tolerance", hole: 'E', tpls: map[string]string{
		"top": "<{% include '#part#' only %}>{{ <E> }}", "part": "(«{{ x }}{{ m.k }}»)"}},
	{name: "tolundefmacro", group: "tolerance", hole: 'E', tpls: map[string]string{
		"top": "{% macro mm(a) %}[«{{ a }}{{ a.b }}»]{% endmacro %}{{ $mm$() }}{{ <E> }}"}},
}

// Templates in sub-directories that refer to each other by RELATIVE names. `#./part=pages/part#` writes
// `./part`; the engine resolves it against the directory of the referring template and asks the loader
// for `pages/part`. Faulted is the RESOLVED target (loader failure for exactly that name, syntax error in
// it, or the name replaced by one that does not exist). Each position exists twice: as listed, and as
// "<name>+root" where in addition a template is served under the name AS WRITTEN (what a loader sees when
// the written name is joined to its root instead of the referring template's directory) — a failure of the
// resolved target must not be replaced by that template.
const relIncOnly = "with {'x': x, 'xs': xs} only"
const relMacro = "{% macro mm(a) %}[{{ a|@f }}]{% endmacro %}"
const decoyMacro = "{% macro mm(a) %}ROOT{% endmacro %}"

var relPositions = []position{
	{name: "relinclude", top: "pages/main", tpls: map[string]string{
		"pages/main": "<{% include '#./part=pages/part#' %}>", "pages/part": "({{ x|@f }})"},
		decoys: map[string]string{"./part": "ROOT"}},
	{name: "relincludeignore", top: "pages/main", tpls: map[string]string{
		"pages/main": "<{% include '#./part=pages/part#' ignore missing %}>", "pages/part": "({{ x|@f }})"},
		decoys: map[string]string{"./part": "ROOT"}},
	{name: "relincludewith", top: "pages/main", tpls: map[string]string{
		"pages/main": "<{% include '#./part=pages/part#' with {'y': @g(2)} %}>", "pages/part": "({{ x|@f }}{{ y }})"},
		decoys: map[string]string{"./part": "ROOT"}},
	{name: "relincludeonly", top: "pages/main", tpls: map[string]string{
		"pages/main": "<{% include '#./part=pages/part#' only %}>", "pages/part": "({{ @g(1) }})"},
		decoys: map[string]string{"./part": "ROOT"}},
	{name: "relincludewithonly", top: "pages/main", tpls: map[string]string{
		"pages/main": "<{% include '#./part=pages/part#' " + relIncOnly + " %}>", "pages/part": "({{ x|@f }})"},
		decoys: map[string]string{"./part": "ROOT"}},
	{name: "relincludeignorewith", top: "pages/main", tpls: map[string]string{
		"pages/main": "<{% include '#./part=pages/part#' ignore missing with {'y': @g(2)} %}>", "pages/part": "({{ x|@f }}{{ y }})"},
		decoys: map[string]string{"./part": "ROOT"}},
	{name: "relincludeignoreonly", top: "pages/main", tpls: map[string]string{
		"pages/main": "<{% include '#./part=pages/part#' ignore missing only %}>", "pages/part": "({{ @g(1) }})"},
		decoys: map[string]string{"./part": "ROOT"}},
	{name: "relincludeignorewithonly", top: "pages/main", tpls: map[string]string{
		"pages/main": "<{% include '#./part=pages/part#' ignore missing " + relIncOnly + " %}>", "pages/part": "({{ x|@f }})"},
		decoys: map[string]string{"./part": "ROOT"}},
	{name: "relincludeup", top: "pages/main", tpls: map[string]string{
		"pages/main": "<{% include '#../lib/part=lib/part#' %}>", "lib/part": "({{ x|@f }})"},
		decoys: map[string]string{"../lib/part": "ROOT"}},
	{name: "relincludeupignore", top: "pages/main", tpls: map[string]string{
		"pages/main": "<{% include '#../lib/part=lib/part#' ignore missing %}>", "lib/part": "({{ x|@f }})"},
		decoys: map[string]string{"../lib/part": "ROOT"}},
	{name: "relincludeupignorewith", top: "pages/main", tpls: map[string]string{
		"pages/main": "<{% include '#../lib/part=lib/part#' ignore missing with {'y': 2} only %}>", "lib/part": "({{ y|@f }})"},
		decoys: map[string]string{"../lib/part": "ROOT"}},
	{name: "relincludedeepdir", top: "site/pages/main", tpls: map[string]string{
		"site/pages/main": "<{% include '#../lib/part=site/lib/part#' ignore missing %}>", "site/lib/part": "({{ x|@f }})"},
		decoys: map[string]string{"../lib/part": "ROOT"}},
	{name: "relincludeloop", top: "pages/main", tpls: map[string]string{
		"pages/main": "{% for i in xs %}{% include '#./part=pages/part#' ignore missing %}{% endfor %}k", "pages/part": "({{ i|@f }})"},
		decoys: map[string]string{"./part": "ROOT"}},
	{name: "relincludeblock", top: "pages/main", tpls: map[string]string{
		"pages/main": "{% block b %}x{% include '#./part=pages/part#' ignore missing %}y{% endblock %}", "pages/part": "({{ x|@f }})"},
		decoys: map[string]string{"./part": "ROOT"}},
	{name: "relincludeif", top: "pages/main", tpls: map[string]string{
		"pages/main": "{% if x is @t %}{% include '#./part=pages/part#' %}{% else %}n{% endif %}", "pages/part": "({{ x|@f }})"},
		decoys: map[string]string{"./part": "ROOT"}},
	{name: "relincludeexpr", top: "pages/main", tpls: map[string]string{
		"pages/main": "<{% include @g(1) ? '#./part=pages/part#' : 'zznone' %}>", "pages/part": "({{ x|@f }})"},
		decoys: map[string]string{"./part": "ROOT"}},
	{name: "relincludeexprignore", top: "pages/main", tpls: map[string]string{
		"pages/main": "<{% include @g(1) ? '#./part=pages/part#' : 'zznone' ignore missing %}>", "pages/part": "({{ x|@f }})"},
		decoys: map[string]string{"./part": "ROOT"}},
	{name: "relincludetwice", top: "pages/main", tpls: map[string]string{
		"pages/main": "{% include '#./part=pages/part#' %}|{% include '#./part=pages/part#' ignore missing %}", "pages/part": "({{ x|@f }})"},
		decoys: map[string]string{"./part": "ROOT"}},
	// the included template (in another directory) refers to its own sibling
	{name: "relincludechain", top: "pages/main", tpls: map[string]string{
		"pages/main": "<{% include '#../lib/a=lib/a#' %}>",
		"lib/a":      "A{% include '#./b=lib/b#' ignore missing %}",
		"lib/b":      "({{ x|@f }})"},
		decoys: map[string]string{"../lib/a": "ROOT", "./b": "ROOT"}},
	{name: "relincludedown", top: "pages/main", tpls: map[string]string{
		"pages/main":     "<{% include '#./sub/part=pages/sub/part#' %}>",
		"pages/sub/part": "S{% include '#../other=pages/other#' ignore missing %}",
		"pages/other":    "({{ x|@f }})"},
		decoys: map[string]string{"./sub/part": "ROOT", "../other": "ROOT"}},
	{name: "relextends", top: "pages/child", tpls: map[string]string{
		"pages/base":  "[{% block b %}B{% endblock %}{{ @g(1) }}]",
		"pages/child": "{% extends '#./base=pages/base#' %}{% block b %}C{{ x|@f }}{% endblock %}"},
		decoys: map[string]string{"./base": "ROOT"}},
	{name: "relextendsup", top: "pages/child", tpls: map[string]string{
		"layouts/base": "[{% block b %}B{% endblock %}{{ @g(1) }}]",
		"pages/child":  "{% extends '#../layouts/base=layouts/base#' %}{% block b %}C{{ x|@f }}{% endblock %}"},
		decoys: map[string]string{"../layouts/base": "ROOT"}},
	{name: "relextends2", top: "pages/leaf", tpls: map[string]string{
		"layouts/base": "[{% block b %}B{{ @g(1) }}{% endblock %}]",
		"pages/mid":    "{% extends '#../layouts/base=layouts/base#' %}{% block b %}M{{ parent() }}{% endblock %}",
		"pages/leaf":   "{% extends '#./mid=pages/mid#' %}{% block b %}L{{ parent() }}{% endblock %}"},
		decoys: map[string]string{"../layouts/base": "ROOT", "./mid": "ROOT"}},
	{name: "relextendsinclude", top: "pages/main", tpls: map[string]string{
		"pages/main":  "<{% include '#./child=pages/child#' ignore missing %}>",
		"pages/base":  "[{% block b %}B{% endblock %}]",
		"pages/child": "{% extends '#./base=pages/base#' %}{% block b %}C{{ @g(1) }}{% endblock %}"},
		decoys: map[string]string{"./child": "ROOT", "./base": "ROOT"}},
	{name: "relimport", top: "pages/main", tpls: map[string]string{
		"pages/m":    relMacro,
		"pages/main": "{% import '#./m=pages/m#' as l %}{{ l.$mm$(x) }}"},
		decoys: map[string]string{"./m": decoyMacro}},
	{name: "relimportup", top: "pages/main", tpls: map[string]string{
		"lib/m":      relMacro,
		"pages/main": "{% import '#../lib/m=lib/m#' as l %}{{ l.$mm$(x) }}"},
		decoys: map[string]string{"../lib/m": decoyMacro}},
	{name: "relimportinblock", top: "pages/child", tpls: map[string]string{
		"pages/base":  "[{% block b %}B{% endblock %}]",
		"lib/m":       relMacro,
		"pages/child": "{% extends '#./base=pages/base#' %}{% block b %}{% import '#../lib/m=lib/m#' as l %}{{ l.$mm$(x) }}{% endblock %}"},
		decoys: map[string]string{"../lib/m": decoyMacro, "./base": "ROOT"}},
	{name: "relfrom", top: "pages/main", tpls: map[string]string{
		"pages/m":    relMacro,
		"pages/main": "{% from '#./m=pages/m#' import $mm$ %}{{ mm(x) }}"},
		decoys: map[string]string{"./m": decoyMacro}},
	{name: "relfromup", top: "pages/main", tpls: map[string]string{
		"lib/m":      relMacro,
		"pages/main": "{% from '#../lib/m=lib/m#' import $mm$ as q %}{{ q(x) }}"},
		decoys: map[string]string{"../lib/m": decoyMacro}},
	{name: "relfrominclude", top: "pages/main", tpls: map[string]string{
		"pages/main": "<{% include '#./part=pages/part#' ignore missing %}>",
		"pages/part": "{% from '#../lib/m=lib/m#' import $mm$ %}{{ mm(x) }}",
		"lib/m":      relMacro},
		decoys: map[string]string{"./part": "ROOT", "../lib/m": decoyMacro}},
	// imported through a relative name, never called (see group "unused")
	{name: "relfromunused", top: "pages/main", tpls: map[string]string{
		"lib/m":      relMacro + "{% macro nn(a) %}({{ a }}){% endmacro %}",
		"pages/main": "{% from '#../lib/m=lib/m#' import $mm$, $nn$ as q %}{{ mm(x) }}"},
		decoys: map[string]string{"../lib/m": decoyMacro + "{% macro nn(a) %}ROOT{% endmacro %}"}},
	{name: "relimportunused", top: "pages/main", tpls: map[string]string{
		"pages/m":    relMacro,
		"pages/main": "a{% import '#./m=pages/m#' as l %}b"},
		decoys: map[string]string{"./m": decoyMacro}},
}

func init() {
	for _, p := range relPositions {
		p.group, p.rel = "relative", true
		plain := p
		plain.decoys = nil
		positions = append(positions, plain)
	}
	for _, p := range relPositions {
		p.group, p.rel = "relative", true
		p.name += "+root"
		tp := map[string]string{}
		for n, s := range p.tpls {
			tp[n] = s
		}
		for n, s := range p.decoys {
			tp[n] = s
		}
		p.tpls = tp
		positions = append(positions, p)
	}
}

type form struct{ name, src string }

var exprForms = []form{
	{"filter", "x|@f"},
	{"func", "@g(x)"},
	{"test", "x is @t"},
	{"testnot", "x is not @t"},
	{"testfalse", "x is @u"},
	{"filterchain", "x|@f|@f"},
	{"funcnested", "@g(@g(x))"},
	{"filterarg", "x|@f(@g(1), 2)"},
	{"filteronfunc", "@g(x)|@f"},
	{"funconfilter", "@g(x|@f)"},
	{"filterbuiltinafter", "x|@f|upper"},
	{"filterbuiltinbefore", "s|upper|@f"},
	{"array", "[@g(1), @g(2)]|length"},
	{"hash", "{'k': @g(3), 'j': x|@f}|length"},
	{"index", "xs[@g(0)]"},
	{"indexon", "@g(xs)[0]"},
	{"attron", "@g(m)['k']"},
	{"mapkey", "m[@g('k')]"},
	{"ternfalse", "@g(0) ? @g(1) : @g(2)"},
	{"terntrue", "@g(1) ? @g(1) : @g(2)"},
	{"and", "@g(1) and @g(0)"},
	{"andshort", "@g(0) and @g(1)"},
	{"or", "@g(0) or @g(2)"},
	{"orshort", "@g(1) or @g(2)"},
	{"default", "x|default(@g(1))"},
	{"defaultundef", "undefinedvar|default(@g(1))"},
	{"defaultfilter", "x|default(x|@f)"},
	{"add", "@g(1) + @g(2)"},
	{"concat", "@g('a') ~ x|@f"},
	{"compare", "@g(1) == 1"},
	{"not", "not @g(0)"},
	{"neg", "-@g(1)"},
	{"testarg", "x is @t(@g(1))"},
	{"testonfilter", "x|@f is @t"},
	{"definedfunc", "@g(x) is defined"},
	{"in", "x in [@g(1), 2]"},
	{"notin", "@g(1) not in [2]"},
	{"startswith", "@g('ab') starts with 'a'"},
	{"matches", "@g('a') matches '/a/'"},
	{"max", "max(@g(1), 2)"},
	{"range", "range(1, @g(2))|length"},
	{"paren", "(@g(1) + 1) * (@g(2)|@f)"},
	{"andtest", "@g(1) > 0 and x is @u"},
	{"seqfilterlen", "xs|@f|length"},
	{"seqfilterfirst", "xs|@f|first"},
	{"join", "[x|@f, @g(2)]|join(@g(','))"},
	// an item access with a callback inside its container or its index, as the base of a filter chain
	// (starting with `default`, and with other filters). `g(m).k` / `(m|f).k` do not parse (see NOTES).
	{"defitemon", "@g(m)['k']|default('d')"},
	{"defindex", "xs[@g(0)]|default('d')"},
	{"defmapkey", "m[@g('k')]|default('d')"},
	{"defitemfilter", "(xs|@f)[0]|default('d')"},
	{"defindexfilter", "xs[x|@f]|default('d')"},
	{"defindextest", "xs[x is @t ? 0 : 1]|default('d')"},
	{"defindextestfalse", "xs[x is @u]|default('d')"},
	{"defmissingkey", "m[@g('nokey')]|default('d')"},
	{"defitemboth", "@g(xs)[@g(1)]|default('d')"},
	{"defchain", "@g(m)['k']|default('d')|upper"},
	{"defchainharness", "xs[@g(0)]|default('d')|@f"},
	{"defarg", "@g(m)['k']|default(@g('d'))"},
	{"defnested", "m[@g('nokey')]|default(xs[@g(0)]|default('e'))"},
	{"defafter", "@g(m)['k']|upper|default('d')"},
	{"defconcat", "@g(m)['k']|default('d') ~ xs[@g(0)]|default('e')"},
	{"itemfilter", "@g(m)['k']|@f"},
	{"itembuiltin", "xs[@g(0)]|upper"},
	{"itemlength", "([xs]|@f)[@g(0)]|length"},
	// a filter applied to a base that itself CONTAINS another filter outside the chain (function argument,
	// list / hash literal, parenthesised operand, ternary arm, filter argument, item-access container),
	// one and two deep. Every site fails in turn and is unknown in turn: the outer filter fails / is unknown
	// with the inner one healthy, and the other way round. All sites are Live (branch-free forms; the
	// ternaries have a literal in the arm that is not taken).
	{"fbfunc", "@G(x|@F)|@F"},
	{"fblist", "[x|@F]|@F"},
	{"fbparen", "(x|@F ~ '!')|@F"},
	{"fbtern", "(@G(1) ? x|@F : 'n')|@F"},
	{"fbternfalse", "(@G(0) ? 'n' : x|@F)|@F"},
	{"fbhash", "{'k': x|@F}|@F"},
	{"fbfilterarg", "x|@F(s|@F)|@F"},
	{"fbgroup", "(x|@F)|@F"},
	{"fbadd", "(x|@F + 1)|@F"},
	{"fbitem", "[x|@F][0]|@F"},
	{"fbhashitem", "{'k': x|@F}['k']|@F"},
	{"fbbuiltininner", "@G(s|upper)|@F"},
	{"fbbuiltinouter", "@G(s|@F)|upper"},
	{"fbinnerchain", "@G(x|@F|@F)|@F"},
	{"fbouterchain", "@G(x|@F)|@F|@F"},
	{"fbdefault", "@G(x|@F)|default('d')|@F"},
	{"fbtest", "@G(x|@F)|@F is @T"},
	{"fbtwoargs", "@G(x|@F, s|@F)|@F"},
	{"fbconcat", "@G(x|@F)|@F ~ [s|@F]|@F|length"},
	{"fb2func", "@G(@G(x|@F)|@F)|@F"},
	{"fb2list", "@G([x|@F]|@F)|@F"},
	{"fb2paren", "[(x|@F ~ '!')|@F]|@F"},
	{"fb2hashtern", "{'k': (@G(1) ? x|@F : 'n')|@F}|@F"},
	{"fb2filterarg", "x|@F(@G(s|@F)|@F)|@F"},
}

var seqForms = []form{
	{"seqfilter", "xs|@f"},
	{"seqfunc", "@g(xs)"},
	{"seqchain", "xs|@f|@f"},
	{"seqbuiltin", "xs|@f|reverse"},
	{"seqbuiltinbefore", "xs|reverse|@f"},
	{"seqarray", "[@g(1), x|@f]"},
	{"seqrange", "range(1, @g(2))"},
	{"seqfilterarg", "xs|@f(@g(1))"},
	{"seqtern", "@g(1) ? xs|@f : []"},
	{"seqmap", "m|@f"},
	{"seqempty", "@g([])"},
	{"seqnil", "@g()"},
	{"seqslice", "xs|slice(@g(0), 2)"},
	// item access (callback in container / index) as the base of the sequence's filter chain
	{"seqdefitem", "@g([xs])[0]|default([])"},
	{"seqdefindex", "[xs][@g(0)]|default([])"},
	{"seqdefitemfilter", "([xs]|@f)[0]|default([])"},
	{"seqdefhashkey", "{'l': xs}[@g('l')]|default([])"},
	{"seqdefchain", "@g([xs])[0]|default([])|reverse"},
	{"seqdefmissing", "m[@g('nokey')]|default(xs|@f)"},
	{"seqitemfilter", "@g([xs])[@g(0)]|@f"},
	// the sequence's filter chain on a base that contains another filter outside the chain (see exprForms)
	{"seqfbfunc", "@G(xs|@F)|@F"},
	{"seqfblist", "[x|@F, 2]|@F"},
	{"seqfbparen", "(xs|@F)|@F"},
	{"seqfbtern", "(@G(1) ? xs|@F : [])|@F"},
	{"seqfbhash", "{'k': x|@F}|@F"},
	{"seqfbfilterarg", "xs|@F(s|@F)|@F"},
	{"seqfbitem", "[xs|@F][0]|@F"},
	{"seqfbbuiltininner", "@G(xs|reverse)|@F"},
	{"seqfbbuiltinouter", "@G(xs|@F)|reverse"},
	{"seqfbouterchain", "@G(xs|@F)|@F|reverse"},
	{"seqfb2func", "@G(@G(xs|@F)|@F)|@F"},
	{"seqfb2list", "@G([x|@F]|@F)|@F"},
}

var nameForms = []form{
	{"namefunc", "@g('part')"},
	{"namefilter", "nm|@f"},
	{"nametern", "@g(1) ? '#part#' : 'zznone'"},
	{"nameconcat", "@g('pa') ~ 'rt'"},
	{"namedefitem", "@g(['part'])[0]|default('zznone')"},
	{"namedefindex", "['part'][@g(0)]|default('zznone')"},
	{"namefbfunc", "@G(nm|@F)|@F"},
	{"namefbparen", "(nm|@F ~ '')|@F"},
	{"namefbitem", "[nm|@F][0]|@F"},
	{"namefb2func", "@G(@G(nm|@F)|@F)|@F"},
}

var ctxVars = map[string]interface{}{
	"x":  1,
	"xs": []interface{}{1, 2, 3},
	"m":  map[string]interface{}{"k": 5, "j": 6},
	"s":  "ab",
	"nm": "part",
}

// ---------------------------------------------------------------------------------------------
// programs

type site struct {
	Key     string // "f3", "g4", "t5", "u6" (callbacks) / "T7" (template name) / "M8" (macro name)
	Kind    byte
	Tpl     string // template the site is written in
	Ref     string // referenced template (the name the loader is asked for) / macro name
	Written string // (template names) the name as written in the source: Ref, or a ./ ../ name that resolves to Ref
	Ignore  bool   // (template names) written in a tag that carries `ignore missing`
	Live    bool   // (callbacks) written as @F @G @T @U: stands in a branch-free expression — evaluated whenever any
	// other Live site of the program is (no short-circuit, no untaken arm between them)
}

type program struct {
	id     string
	pos    *position
	form   string
	top    string
	raw    map[string]string // marker form
	names  []string          // sorted template names
	sites  []site
	hasTol bool
	nested bool
}

var markerRE = regexp.MustCompile(`@[fgtuFGTU]|#[a-z0-9./]+(?:=[a-z0-9/]+)?#|\$[a-z0-9]+\$`)

func newProgram(p *position, f form) *program {
	id := p.name + "/" + f.name
	if p.hole == 0 {
		id = p.name
	}
	raw := map[string]string{}
	for n, s := range p.tpls {
		s = strings.ReplaceAll(s, "<E>", f.src)
		s = strings.ReplaceAll(s, "<S>", f.src)
		s = strings.ReplaceAll(s, "<N>", f.src)
		raw[n] = s
	}
	return buildProgram(id, p, f.name, p.top, raw)
}

func buildProgram(id string, p *position, formName, top string, raw map[string]string) *program {
	pr := &program{id: id, pos: p, form: formName, top: top, raw: raw}
	if pr.top == "" {
		pr.top = "top"
	}
	for n, s := range raw {
		pr.names = append(pr.names, n)
		if strings.Contains(s, "«") {
			pr.hasTol = true
		}
	}
	sort.Strings(pr.names)
	// number the sites
	k := 0
	for _, n := range pr.names {
		src := pr.raw[n]
		for _, loc := range markerRE.FindAllStringIndex(src, -1) {
			mk := src[loc[0]:loc[1]]
			k++
			switch mk[0] {
			case '@':
				kind, live := mk[1], false
				if kind < 'a' {
					kind, live = kind+('a'-'A'), true
				}
				pr.sites = append(pr.sites, site{Key: fmt.Sprintf("%c%d", kind, k), Kind: kind, Tpl: n, Live: live})
			case '#':
				// is the reference written in a tag that carries `ignore missing`?
				ignore := false
				if a := strings.LastIndex(src[:loc[0]], "{%"); a >= 0 {
					if b := strings.Index(src[loc[1]:], "%}"); b >= 0 {
						ignore = strings.Contains(src[a:loc[1]+b], "ignore missing")
					}
				}
				written := mk[1 : len(mk)-1]
				ref := written
				if eq := strings.IndexByte(written, '='); eq >= 0 {
					written, ref = written[:eq], written[eq+1:]
				}
				pr.sites = append(pr.sites, site{Key: fmt.Sprintf("T%d", k), Kind: 'T', Tpl: n, Ref: ref, Written: written, Ignore: ignore})
			case '$':
				pr.sites = append(pr.sites, site{Key: fmt.Sprintf("M%d", k), Kind: 'M', Tpl: n, Ref: mk[1 : len(mk)-1]})
			}
		}
	}
	return pr
}

// ---- depth-2 nesting: a whole program placed inside a statement-level wrapper

type wrapper struct {
	name, group, top string
	tpls             map[string]string // <B> = the place of the inner program
}

const wp = "x, xs, m, s"

var wrappers = []wrapper{
	{name: "wloop", group: "loop", tpls: map[string]string{"top": "{% for q in [1, 2] %}<B>{% endfor %}"}},
	{name: "wif", group: "if", tpls: map[string]string{"top": "{% if x is @t %}<B>{% endif %}"}},
	{name: "welse", group: "if", tpls: map[string]string{"top": "{% if @g(0) %}n{% else %}<B>{% endif %}"}},
	{name: "wblock", group: "block", tpls: map[string]string{"top": "[{% block w %}<B>{% endblock %}]"}},
	{name: "wchild", group: "extends", tpls: map[string]string{
		"wbase": "[{% block w %}W{% endblock %}]",
		"top":   "{% extends '#wbase#' %}{% block w %}<B>{% endblock %}"}},
	{name: "wparent", group: "parent", tpls: map[string]string{
		"wbase": "[{% block w %}<B>{% endblock %}]",
		"top":   "{% extends '#wbase#' %}{% block w %}C{{ parent() }}{% endblock %}"}},
	{name: "winclude", group: "include", tpls: map[string]string{
		"top": "<{% include '#wpart#' %}>", "wpart": "(<B>)"}},
	{name: "wincludeonly", group: "include", tpls: map[string]string{
		"top": "<{% include '#wpart#' with {'x': x, 'xs': xs, 'm': m, 's': s} only %}>", "wpart": "(<B>)"}},
	{name: "wmacro", group: "macro", tpls: map[string]string{
		"top": "{% macro wm(" + wp + ") %}[<B>]{% endmacro %}{{ $wm$(" + wp + ") }}"}},
	{name: "wimport", group: "macro", tpls: map[string]string{
		"wlib": "{% macro wm(" + wp + ") %}[<B>]{% endmacro %}",
		"top":  "{% import '#wlib#' as wl %}{{ wl.$wm$(" + wp + ") }}"}},
	{name: "wapply", group: "apply", tpls: map[string]string{"top": "{% apply @f %}<B>{% endapply %}"}},
	{name: "wspaceless", group: "spaceless", tpls: map[string]string{"top": "{% spaceless %}<B>{% endspaceless %}"}},
}

var nestedExprForms = map[string]bool{"filter": true, "func": true, "test": true, "filterarg": true, "ternfalse": true, "and": true, "hash": true, "seqfilterfirst": true,
	"defitemon": true, "defindex": true, "defitemfilter": true, "fbfunc": true, "fblist": true}
var nestedSeqForms = map[string]bool{"seqfilter": true, "seqfunc": true, "seqarray": true, "seqdefitem": true, "seqfbfunc": true}

var refRE = regexp.MustCompile(`#([a-z0-9./]+=)?([a-z0-9/]+)#`)

// nest places the inner program inside the wrapper: inline where the inner top template is a plain
// body, through an include where it extends another template or defines macros.
func nest(w *wrapper, in *program) *program {
	raw := map[string]string{}
	// every inner template gets the prefix "i" (a relative reference keeps its written form, its
	// resolved name gets the prefix
	// — the relative-name programs move into a directory "i/" instead, so that ../ keeps working)
	pfx := "i"
	if in.pos.rel {
		pfx = "i/"
	}
	ren := func(s string) string { return refRE.ReplaceAllString(s, "#${1}"+pfx+"$2#") }
	innerTop := ren(in.raw[in.top])
	body := innerTop
	inline := !strings.Contains(innerTop, "{% extends") && !strings.Contains(innerTop, "{% macro") && !in.pos.rel
	for n, s := range in.raw {
		if n == in.top && inline {
			continue
		}
		if strings.HasPrefix(n, ".") {
			raw[n] = s // a template under a name as written ("./part") keeps that name
			continue
		}
		raw[pfx+n] = ren(s)
	}
	if !inline {
		body = "{% include '#" + pfx + in.top + "#' %}"
	}
	for n, s := range w.tpls {
		raw[n] = strings.ReplaceAll(s, "<B>", body)
	}
	p := &position{name: w.name + ">" + in.pos.name, group: w.group + ">" + in.pos.group, spless: in.pos.spless, rel: in.pos.rel}
	pr := buildProgram(w.name+">"+in.id, p, in.form, "top", raw)
	pr.nested = true
	return pr
}

func nestedPrograms(allForms bool) []*program {
	var ps []*program
	for wi := range wrappers {
		w := &wrappers[wi]
		for i := range positions {
			p := &positions[i]
			var forms []form
			switch p.hole {
			case 'E':
				for _, f := range exprForms {
					if allForms || nestedExprForms[f.name] {
						forms = append(forms, f)
					}
				}
			case 'S':
				for _, f := range seqForms {
					if allForms || nestedSeqForms[f.name] {
						forms = append(forms, f)
					}
				}
			case 'N':
				continue // name expressions spell template names out; not nested
			default:
				forms = []form{{"-", ""}}
			}
			for _, f := range forms {
				in := newProgram(p, f)
				if skipCombos[in.id] {
					continue
				}
				ps = append(ps, nest(w, in))
			}
		}
	}
	return ps
}

// sources materialises the templates. rename maps a site key to the name written at that site
// instead of the regular one; dropTol deletes the «…» statements (tolerance twin).
func (pr *program) sources(rename map[string]string, dropTol bool) map[string]string {
	out := map[string]string{}
	k := 0
	for _, n := range pr.names {
		s := markerRE.ReplaceAllStringFunc(pr.raw[n], func(mk string) string {
			k++
			st := pr.sites[k-1]
			if r, ok := rename[st.Key]; ok {
				return r
			}
			if st.Kind == 'T' {
				return st.Written
			}
			if st.Kind == 'M' {
				return st.Ref
			}
			return st.Key
		})
		if dropTol {
			for {
				i := strings.Index(s, "«")
				if i < 0 {
					break
				}
				j := strings.Index(s, "»")
				s = s[:i] + s[j+len("»"):]
			}
		} else {
			s = strings.ReplaceAll(strings.ReplaceAll(s, "«", ""), "»", "")
		}
		out[n] = s
	}
	return out
}

// combinations the parser does not accept (a matter of other properties); not generated
var skipCombos = map[string]bool{
	"do/compare":                 true, // `{% do a == b %}` is read as an assignment
	"includewithvalue/filterarg": true, // a call with two arguments inside a one-entry `with` hash
	"includewithvalue/max":       true,
	"includewithvalue/range":     true,
}

// forms of the filter-on-a-base-that-contains-a-filter family that only the thorough tier generates (the quick
// tier keeps the twelve value / seven sequence / two name forms that span the kinds of base: call argument,
// list, hash, parenthesised operand, ternary arm, filter argument, item access, built-in inner filter, longer
// outer chain, two deep)
var thoroughOnlyForms = map[string]bool{
	"fbternfalse": true, "fbgroup": true, "fbadd": true, "fbhashitem": true, "fbbuiltinouter": true, "fbinnerchain": true,
	"fbdefault": true, "fbtest": true, "fbtwoargs": true, "fbconcat": true, "fb2paren": true, "fb2filterarg": true,
	"seqfbparen": true, "seqfbitem": true, "seqfbbuiltinouter": true, "seqfbouterchain": true, "seqfb2list": true,
	"namefbitem": true, "namefb2func": true,
}

// CALL POSITIONS of a macro whose body holds the failing construct (C17-K): the same macro body — the
// expression hole, an include of a template, a call of a sibling macro — and the call written directly in a
// print tag (the `macro…` positions above), as the VALUE OF A SET TAG (the variable printed later, printed in a
// loop, used in a later expression, or never used), and INSIDE AN EXPRESSION (concatenation operand, base of a
// filter, argument of a filter), the macro coming from the same template (bare and through _self), from
// `import … as` and from `from … import`. Flat programs only (not nested); the quick tier uses the value forms of
// the depth-2 corpus. A call whose text is never produced on the engine under test (the fault-free run does not
// invoke the sites of the body) gets no fault injected: whether a value that is never used must be computed is
// not determined by the statement — but once the body runs, its failure must reach the caller.
const callBody = "{% macro mm(" + mp + ") %}[{{ <E> }}]{% endmacro %}"

var callPositions = []position{
	{name: "callsetself", group: "macrocall", hole: 'E', tpls: map[string]string{
		"top": callBody + "{% set v = $mm$(" + mp + ") %}<{{ v }}>"}},
	{name: "callsetselfunused", group: "macrocall", hole: 'E', tpls: map[string]string{
		"top": callBody + "{% set v = $mm$(" + mp + ") %}k"}},
	{name: "callsetselfdot", group: "macrocall", hole: 'E', tpls: map[string]string{
		"top": callBody + "{% set v = _self.$mm$(" + mp + ") %}<{{ v }}>"}},
	{name: "callsetselfdotunused", group: "macrocall", hole: 'E', tpls: map[string]string{
		"top": callBody + "{% set v = _self.$mm$(" + mp + ") %}k"}},
	{name: "callsetimport", group: "macrocall", hole: 'E', tpls: map[string]string{
		"lib": callBody, "top": "{% import '#lib#' as l %}{% set v = l.$mm$(" + mp + ") %}<{{ v }}>"}},
	{name: "callsetimportunused", group: "macrocall", hole: 'E', tpls: map[string]string{
		"lib": callBody, "top": "{% import '#lib#' as l %}{% set v = l.$mm$(" + mp + ") %}k"}},
	{name: "callsetfrom", group: "macrocall", hole: 'E', tpls: map[string]string{
		"lib": callBody, "top": "{% from '#lib#' import $mm$ as q %}{% set v = q(" + mp + ") %}<{{ v }}>"}},
	{name: "callsetfromunused", group: "macrocall", hole: 'E', tpls: map[string]string{
		"lib": callBody, "top": "{% from '#lib#' import $mm$ as q %}{% set v = q(" + mp + ") %}k"}},
	{name: "callsetloop", group: "macrocall", hole: 'E', tpls: map[string]string{
		"lib": callBody, "top": "{% import '#lib#' as l %}{% for i in [1, 2] %}{% set v = l.$mm$(" + mp + ") %}{{ v }}{% endfor %}d"}},
	{name: "callsetlater", group: "macrocall", hole: 'E', tpls: map[string]string{
		"lib": callBody, "top": "{% import '#lib#' as l %}{% set v = l.$mm$(" + mp + ") %}{% if x %}<{{ v }}>{% endif %}"}},
	{name: "callsetinclude", group: "macrocall", hole: 'E', tpls: map[string]string{
		"part": "({{ <E> }})",
		"top":  "{% macro mm(" + mp + ") %}[{% include '#part#' %}]{% endmacro %}{% set v = $mm$(" + mp + ") %}<{{ v }}>"}},
	{name: "callsetincludeunused", group: "macrocall", hole: 'E', tpls: map[string]string{
		"part": "({{ <E> }})",
		"lib":  "{% macro mm(" + mp + ") %}[{% include '#part#' %}]{% endmacro %}",
		"top":  "{% import '#lib#' as l %}{% set v = l.$mm$(" + mp + ") %}k"}},
	{name: "callsetsibling", group: "macrocall", hole: 'E', tpls: map[string]string{
		"lib": "{% macro inner(" + mp + ") %}({{ <E> }}){% endmacro %}{% macro mm(" + mp + ") %}[{{ $inner$(" + mp + ") }}]{% endmacro %}",
		"top": "{% import '#lib#' as l %}{% set v = l.$mm$(" + mp + ") %}<{{ v }}>"}},
	{name: "callsetimportinner", group: "macrocall", hole: 'E', tpls: map[string]string{
		"lib2": callBody,
		"lib":  "{% macro oo(" + mp + ") %}{% import '#lib2#' as k %}{% set w = k.$mm$(" + mp + ") %}({{ w }}){% endmacro %}",
		"top":  "{% from '#lib#' import $oo$ %}{% set v = oo(" + mp + ") %}<{{ v }}>"}},
	// not generated: a macro call as a concatenation operand or as the base of a filter (`'a' ~ l.mm(…)`,
	// `mm(…)|upper`) — the engine prints the address of the deferred call there, the body never runs (a matter of
	// the output properties, and the text would differ from build to build)
	{name: "callfilterarg", group: "macrocall", hole: 'E', tpls: map[string]string{
		"top": callBody + "{{ undefinedvar|default(_self.$mm$(" + mp + ")) }}"}},
}

func callPrograms(thorough bool) []*program {
	var ps []*program
	for i := range callPositions {
		for _, f := range exprForms {
			if thorough && !thoroughOnlyForms[f.name] || nestedExprForms[f.name] {
				ps = append(ps, newProgram(&callPositions[i], f))
			}
		}
	}
	return ps
}

func allPrograms(thorough bool) []*program {
	var ps []*program
	for i := range positions {
		p := &positions[i]
		var forms []form
		switch p.hole {
		case 'E':
			forms = exprForms
		case 'S':
			forms = seqForms
		case 'N':
			forms = nameForms
		}
		for _, f := range forms {
			if thorough || !thoroughOnlyForms[f.name] {
				ps = append(ps, newProgram(p, f))
			}
		}
		switch p.hole {
		case 'E', 'S', 'N':
		default:
			ps = append(ps, newProgram(p, form{"-", ""}))
		}
	}
	ps = append(ps, callPrograms(thorough)...)
	kept := ps[:0]
	for _, p := range ps {
		if !skipCombos[p.id] {
			kept = append(kept, p)
		}
	}
	return kept
}

// ---------------------------------------------------------------------------------------------
// harness: callbacks, loader, fault plan

type injected struct {
	Site string
	Nth  int
}

func (e *injected) Error() string { return fmt.Sprintf("injected failure at %s#%d", e.Site, e.Nth) }

type arm struct {
	Site string
	Nth  int
}

type plan struct {
	arms   []arm // Nth == 0: a PERSISTENT fault — every invocation of the site fails
	value  bool  // failing callbacks return (value, err) instead of (nil/false, err)
	counts map[string]int
	order  []string // sites in order of invocation (baseline only)
	fired  []*injected
	record bool
	off    bool // the arms are switched off (a fault that is turned on and off between renders)
}

func (pl *plan) hit(site string) error {
	pl.counts[site]++
	if pl.record && len(pl.order) < 4096 {
		pl.order = append(pl.order, site)
	}
	if pl.off {
		return nil
	}
	for _, a := range pl.arms {
		if a.Site == site && (a.Nth == pl.counts[site] || a.Nth == 0) {
			e := &injected{site, pl.counts[site]}
			pl.fired = append(pl.fired, e)
			return e
		}
	}
	return nil
}

type hloader struct {
	src map[string]string
	pl  *plan
	mt  map[string]int64 // modification "times" (tloader only)
}

// tloader is the harness loader as a TimestampAwareLoader (used with SetAutoReload(true) only)
type tloader struct{ *hloader }

func (l tloader) GetModifiedTime(n string) (int64, error) { return 1 + l.mt[n], nil }

func (l *hloader) Load(n string) (string, error) {
	if err := l.pl.hit("L:" + n); err != nil {
		return "", err
	}
	if s, ok := l.src[n]; ok {
		return s, nil
	}
	return "", fmt.Errorf("%w: %s", twig.ErrTemplateNotFound, n)
}
func (l *hloader) Exists(n string) bool { _, ok := l.src[n]; return ok }

const brokenSource = "{% if %}{{ }"

// fsDir as a template source: the FileSystemLoader variant creates a DIRECTORY where the template file is
// expected, so that reading it fails with an I/O error (EISDIR) although the name exists
const fsDir = "\x00directory"

var modes = []string{"R", "D", "V", "O", "W", "WD", "T"}
var loaderVariants = []string{"solo", "afterempty", "beforeempty", "chain", "chainafterempty"}

type result struct {
	out string
	err error
}

// engOpts: engine settings of the repeated-render cases (the zero value is twig's default: cache on)
type engOpts struct {
	cacheOff   bool // SetCache(false): every Load asks the loaders again
	autoReload bool // cache on + SetAutoReload(true) + a TimestampAwareLoader
}

// session is one engine on which the program's top template is rendered once or several times.
type session struct {
	e       *twig.Engine
	h       *hloader
	pr      *program
	mode    string
	kept    *twig.Template // mode "K": the handle returned by the first successful Engine.Load
	cleanup func()
}

func (s *session) close() {
	if s.cleanup != nil {
		s.cleanup()
	}
}

// run renders the program's top template on a fresh engine.
func run(pr *program, src map[string]string, mode, variant string, pl *plan) (res result) {
	s := open(pr, src, mode, variant, pl, engOpts{})
	defer s.close()
	return s.render()
}

// open builds a fresh engine for the program: callbacks, loaders, API-built templates.
func open(pr *program, src map[string]string, mode, variant string, pl *plan, opts engOpts) *session {
	ses := &session{pr: pr, mode: mode}
	e := twig.New()
	ses.e = e
	if opts.cacheOff {
		e.SetCache(false)
	}
	if opts.autoReload {
		e.SetAutoReload(true)
	}
	switch mode {
	case "D", "WD":
		e.SetDebug(true) // also sets the global log level to DebugInfo
	case "V":
		e.SetDebug(true)
		twig.SetDebugLevel(twig.DebugVerbose)
	case "O":
		e.SetDebug(true)
		twig.SetDebugLevel(twig.DebugOff)
	default:
		twig.SetDebugLevel(twig.DebugOff)
	}
	for _, st := range pr.sites {
		key := st.Key
		switch st.Kind {
		case 'f':
			e.AddFilter(key, func(v interface{}, a ...interface{}) (interface{}, error) {
				if err := pl.hit(key); err != nil {
					if pl.value {
						return v, err
					}
					return nil, err
				}
				return v, nil
			})
		case 'g':
			e.AddFunction(key, func(a ...interface{}) (interface{}, error) {
				var v interface{}
				if len(a) > 0 {
					v = a[0]
				}
				if err := pl.hit(key); err != nil {
					if pl.value {
						return v, err
					}
					return nil, err
				}
				return v, nil
			})
		case 't', 'u':
			truth := st.Kind == 't'
			e.AddTest(key, func(v interface{}, a ...interface{}) (bool, error) {
				if err := pl.hit(key); err != nil {
					if pl.value {
						return true, err
					}
					return false, err
				}
				return truth, nil
			})
		}
	}
	if pr.pos.spless {
		e.AddFilter("spaceless", func(v interface{}, a ...interface{}) (interface{}, error) {
			if err := pl.hit("F:spaceless"); err != nil {
				if pl.value {
					return v, err
				}
				return nil, err
			}
			return v, nil
		})
	}
	served := map[string]string{"broken": brokenSource, "zzempty": ""}
	for n, s := range src {
		if strings.HasPrefix(s, "API-MACRO|") {
			continue
		}
		served[n] = s
		if d := path.Dir(n); d != "." && !strings.HasPrefix(n, ".") {
			served[d+"/broken"] = brokenSource // a sibling with a syntax error in every sub-directory
			served[d+"/zzempty"] = ""          // and an empty one
		}
	}
	h := &hloader{src: served, pl: pl, mt: map[string]int64{}}
	ses.h = h
	empty := func() twig.Loader { return twig.NewArrayLoader(map[string]string{}) }
	switch variant {
	case "fs":
		// a real FileSystemLoader on a temporary directory: template `n` is the file <root>/n.twig
		// (a template under a written name such as "../lib/m" lands beside the root, where joining
		// the written name to the root puts it); the source fsDir makes a directory of that name
		tmp, err := os.MkdirTemp(vlib.Scratch(), "c17fs") // "" (replay mode): the default temporary directory
		if err != nil {
			panic(err)
		}
		ses.cleanup = func() { os.RemoveAll(tmp) }
		root := filepath.Join(tmp, "r", "r")
		names := make([]string, 0, len(served))
		for n := range served {
			names = append(names, n)
		}
		sort.Strings(names)
		for _, n := range names {
			file := filepath.Join(root, n) + ".twig"
			if err := os.MkdirAll(filepath.Dir(file), 0o755); err != nil {
				panic(err)
			}
			if served[n] == fsDir {
				err = os.MkdirAll(file, 0o755)
			} else {
				err = os.WriteFile(file, []byte(served[n]), 0o644)
			}
			if err != nil {
				panic(err)
			}
		}
		e.RegisterLoader(twig.NewFileSystemLoader([]string{root}))
	case "afterempty":
		e.RegisterLoader(empty())
		e.RegisterLoader(h)
	case "beforeempty":
		e.RegisterLoader(h)
		e.RegisterLoader(empty())
	case "chain":
		e.RegisterLoader(twig.NewChainLoader([]twig.Loader{h}))
	case "chainafterempty":
		e.RegisterLoader(twig.NewChainLoader([]twig.Loader{empty(), h}))
	default:
		if opts.autoReload {
			e.RegisterLoader(tloader{h})
		} else {
			e.RegisterLoader(h)
		}
	}
	for _, n := range pr.names {
		s := src[n]
		if !strings.HasPrefix(s, "API-MACRO|") {
			continue
		}
		// "API-MACRO|name|param|text": a library with one macro whose body is a single text node
		parts := strings.SplitN(s, "|", 4)
		macro := twig.NewMacroNode(parts[1], []string{parts[2]}, nil, []twig.Node{twig.NewTextNode(parts[3], 1)}, 1)
		root := twig.NewRootNode([]twig.Node{macro}, 1)
		e.RegisterTemplate(n, e.NewTemplate(n, "", root))
	}
	return ses
}

// render renders the top template once in the session's mode.
func (s *session) render() (res result) {
	e, pr := s.e, s.pr
	switch s.mode {
	case "W", "WD":
		var b bytes.Buffer
		res.err = e.RenderTo(&b, pr.top, ctxVars)
		res.out = b.String()
	case "T":
		t, err := e.Load(pr.top)
		if err != nil {
			return result{"", err}
		}
		res.out, res.err = t.Render(ctxVars)
	case "K":
		// the handle of the top template is loaded once and kept between renders
		if s.kept == nil {
			t, err := e.Load(pr.top)
			if err != nil {
				return result{"", err}
			}
			s.kept = t
		}
		res.out, res.err = s.kept.Render(ctxVars)
	default:
		res.out, res.err = e.Render(pr.top, ctxVars)
	}
	return res
}

func newPlan(arms []arm, value bool) *plan {
	return &plan{arms: arms, value: value, counts: map[string]int{}}
}

// baseline is the fault-free run: which sites are invoked how often, and in which order.
type baseline struct {
	ok     bool
	out    string
	err    error
	counts map[string]int
	order  []string
	keys   []string // invoked sites, sorted
}

func computeBaseline(pr *program) (b baseline) {
	defer func() {
		if r := recover(); r != nil {
			b = baseline{err: fmt.Errorf("panic: %v", r)}
		}
	}()
	pl := newPlan(nil, false)
	pl.record = true
	res := run(pr, pr.sources(nil, false), "R", "solo", pl)
	b = baseline{ok: res.err == nil, out: res.out, err: res.err, counts: pl.counts, order: pl.order}
	for k := range pl.counts {
		b.keys = append(b.keys, k)
	}
	sort.Strings(b.keys)
	return b
}

// holeEvaluated: some Live site of the program was invoked in the fault-free run, i.e. the branch-free
// expression that carries the Live sites is evaluated.
func (pr *program) holeEvaluated(b *baseline) bool {
	for _, st := range pr.sites {
		if st.Live && b.counts[st.Key] > 0 {
			return true
		}
	}
	return false
}

// reached: the callback site is reached when the program is rendered — it was invoked in the fault-free run,
// or it is a Live site of an expression that is evaluated (all Live sites of a program are evaluated together
// by the language's semantics; that the engine under test did NOT invoke one of them does not make its name
// "unreached": an unknown name there must still be reported).
func (pr *program) reached(b *baseline, st site) bool {
	return b.counts[st.Key] > 0 || (st.Live && pr.holeEvaluated(b))
}

// liveCase records whether every Live site of a program whose hole is evaluated was invoked in the fault-free
// run. A Live site that the engine never invokes cannot be made to fail (no fault case exists for it — counted
// as live_site_not_invoked, not a violation: the statement speaks about callbacks that ARE invoked); the name
// faults for it are generated all the same.
func liveCase(pr *program, b *baseline) *vlib.Outcome {
	o := &vlib.Outcome{Counters: map[string]int64{}}
	if !pr.holeEvaluated(b) {
		o.Class = "live/hole-not-evaluated"
		o.Counters["live_hole_not_evaluated"] = 1
		return o
	}
	o.Nontrivial = true
	o.Class = "live/all-invoked"
	for _, st := range pr.sites {
		if st.Live {
			o.Counters["live_sites"]++
			if b.counts[st.Key] == 0 {
				o.Counters["live_site_not_invoked"]++
				o.Class = "live/site-not-invoked"
			}
		}
	}
	return o
}

// ---------------------------------------------------------------------------------------------
// the cases

type detail struct {
	Program   string            `json:"program"`
	Templates map[string]string `json:"templates"`
	Top       string            `json:"render"`
	Mode      string            `json:"mode"`
	Loaders   string            `json:"loaders"`
	Fault     string            `json:"fault"`
	Output    string            `json:"observed_output"`
	Err       string            `json:"observed_error"`
}

func errText(err error) string {
	if err == nil {
		return "<nil>"
	}
	s := err.Error()
	if len(s) > 300 {
		s = s[:300] + "…"
	}
	return s
}

func siteKind(key string) string {
	switch key[0] {
	case 'f':
		return "filter"
	case 'g':
		return "function"
	case 't', 'u':
		return "test"
	case 'L':
		return "loader"
	case 'F':
		return "spaceless-filter"
	case 'T':
		return "template-name"
	case 'M':
		return "macro-name"
	}
	return "?"
}

// faultCase: the arms fail; whichever fires first must be reachable through the returned error.
func faultCase(pr *program, mode, variant string, arms []arm, value bool, faultDesc string) *vlib.Outcome {
	src := pr.sources(nil, false)
	pl := newPlan(arms, value)
	res := run(pr, src, mode, variant, pl)
	o := &vlib.Outcome{Counters: map[string]int64{"renders": 1}}
	kind := siteKind(arms[0].Site)
	if len(arms) > 1 {
		kind = "pair"
	}
	if len(pl.fired) == 0 {
		// the armed invocation did not happen (possible only if the number of invocations differs
		// from the fault-free run); nothing to demand
		o.Class = pr.pos.group + "/" + kind + "/fault-not-reached"
		o.Counters["faults_not_reached"] = 1
		if res.err != nil && res.out != "" && !isWriterMode(mode) {
			o.Violation = fmt.Sprintf("%s: Render returned an error together with output %q (err=%s)", pr.id, res.out, errText(res.err))
		}
		return o
	}
	o.Nontrivial = true
	first := pl.fired[0]
	var viol string
	var as *injected
	switch {
	case res.err == nil:
		viol = fmt.Sprintf("the failure %q was swallowed: err == nil, output %q", first.Error(), res.out)
		o.Class = pr.pos.group + "/" + kind + "/swallowed"
	case !errors.Is(res.err, first):
		viol = fmt.Sprintf("the returned error does not wrap the cause %q (errors.Is false): %s", first.Error(), errText(res.err))
		o.Class = pr.pos.group + "/" + kind + "/cause-lost"
	case !errors.As(res.err, &as) || (len(arms) == 1 && as != first):
		viol = fmt.Sprintf("errors.As does not find the injected error %q in: %s", first.Error(), errText(res.err))
		o.Class = pr.pos.group + "/" + kind + "/as-lost"
	case res.out != "" && !isWriterMode(mode):
		viol = fmt.Sprintf("Render returned the error %s together with non-empty output %q", errText(res.err), res.out)
		o.Class = pr.pos.group + "/" + kind + "/error-with-output"
	default:
		o.Class = pr.pos.group + "/" + kind + "/surfaced"
	}
	if viol != "" {
		o.Violation = fmt.Sprintf("program %s (render %q of %v), mode %s, loaders %s, fault %s: %s", pr.id, pr.top, src, mode, variant, faultDesc, viol)
		o.Detail = detail{pr.id, src, pr.top, mode, variant, faultDesc, res.out, errText(res.err)}
	}
	return o
}

func isWriterMode(m string) bool { return m == "W" || m == "WD" }

// relName gives the name to write at a template-name site so that it refers to `base` in the same
// directory as the regular target: "zznone" for a plain site, "./zznone" / "../lib/zznone" for a
// relative one.
func relName(st site, base string) string {
	if i := strings.LastIndexByte(st.Written, '/'); i >= 0 && st.Written != st.Ref {
		return st.Written[:i+1] + base
	}
	return base
}

// syntaxCause is the innermost error that loading a template with the source brokenSource gives on a
// fresh engine: the cause that must stay reachable when such a template is referenced during a render.
var syntaxCause = func() error {
	e := twig.New()
	e.RegisterLoader(twig.NewArrayLoader(map[string]string{"b": brokenSource}))
	_, err := e.Load("b")
	for err != nil {
		u := errors.Unwrap(err)
		if u == nil {
			break
		}
		err = u
	}
	return err
}()

// chainHas walks the error tree the way errors.Is / errors.As do and reports whether it contains an
// error of the same dynamic type and text as cause (errors.As to the cause's type finds its equal).
func chainHas(err, cause error) bool {
	if err == nil || cause == nil {
		return false
	}
	if reflect.TypeOf(err) == reflect.TypeOf(cause) && err.Error() == cause.Error() {
		return true
	}
	switch u := err.(type) {
	case interface{ Unwrap() error }:
		return chainHas(u.Unwrap(), cause)
	case interface{ Unwrap() []error }:
		for _, e := range u.Unwrap() {
			if chainHas(e, cause) {
				return true
			}
		}
	}
	return false
}

// nameSources materialises the program with one name fault (see nameCase).
func nameSources(pr *program, st site, kind string) (src map[string]string, repl string) {
	repl = kind
	switch kind {
	case "callback":
		repl = "zz" + st.Key
		src = pr.sources(map[string]string{st.Key: repl}, false)
	case "macro":
		repl = "zzmacro"
		src = pr.sources(map[string]string{st.Key: repl}, false)
	case "missing":
		repl = "zznone"
		src = pr.sources(map[string]string{st.Key: relName(st, repl)}, false)
	case "broken":
		src = pr.sources(map[string]string{st.Key: relName(st, repl)}, false)
	case "brokeninplace":
		src = pr.sources(nil, false)
		src[st.Ref] = brokenSource
	case "isdir":
		src = pr.sources(nil, false)
		src[st.Ref] = fsDir
	default:
		panic("nameSources: " + kind)
	}
	return src, repl
}

// nameCase: one reached name is replaced by one that cannot be resolved; for a template name also: by a
// sibling with a syntax error ("broken"), the referenced template itself gets a syntax error
// ("brokeninplace"), or (FileSystemLoader) is a directory that cannot be read ("isdir").
func nameCase(pr *program, mode, variant string, st site, kind string, tolerated bool, faultDesc string) *vlib.Outcome {
	src, repl := nameSources(pr, st, kind)
	pl := newPlan(nil, false)
	res := run(pr, src, mode, variant, pl)
	o := &vlib.Outcome{Nontrivial: true, Counters: map[string]int64{"renders": 1}}
	skind := siteKind(st.Key)
	if variant == "fs" {
		skind = "fs-" + skind
	}
	var viol string
	if tolerated {
		// `ignore missing` on a template that no loader has: same as the program without the statement.
		// The twin is the program in which the statement refers to an existing empty template.
		twinSrc := pr.sources(map[string]string{st.Key: relName(st, "zzempty")}, false)
		twin := run(pr, twinSrc, mode, variant, newPlan(nil, false))
		o.Counters["renders"]++
		switch {
		case res.err != nil:
			viol = fmt.Sprintf("`ignore missing` on a missing template failed: %s", errText(res.err))
			o.Class = pr.pos.group + "/" + skind + "/ignore-missing-failed"
		case twin.err != nil || twin.out != res.out:
			viol = fmt.Sprintf("`ignore missing` on a missing template gave %q, the program with an empty template gives %q (err=%s)", res.out, twin.out, errText(twin.err))
			o.Class = pr.pos.group + "/" + skind + "/ignore-missing-differs"
		default:
			o.Class = pr.pos.group + "/" + skind + "/ignore-missing-empty"
		}
	} else {
		var pe *fs.PathError
		switch {
		case res.err == nil:
			viol = fmt.Sprintf("the failure was swallowed: err == nil, output %q", res.out)
			o.Class = pr.pos.group + "/" + skind + "/swallowed"
		case res.out != "" && !isWriterMode(mode):
			viol = fmt.Sprintf("Render returned the error %s together with non-empty output %q", errText(res.err), res.out)
			o.Class = pr.pos.group + "/" + skind + "/error-with-output"
		case kind == "missing" && !errors.Is(res.err, twig.ErrTemplateNotFound):
			viol = fmt.Sprintf("the error for a template no loader has does not match ErrTemplateNotFound: %s", errText(res.err))
			o.Class = pr.pos.group + "/" + skind + "/cause-lost"
		case (kind == "broken" || kind == "brokeninplace") && !chainHas(res.err, syntaxCause):
			viol = fmt.Sprintf("the syntax error of the referenced template (%T %q) cannot be found in the returned error: %s", syntaxCause, syntaxCause.Error(), errText(res.err))
			o.Class = pr.pos.group + "/" + skind + "/cause-lost"
		case kind == "isdir" && !(errors.Is(res.err, syscall.EISDIR) && errors.As(res.err, &pe)):
			viol = fmt.Sprintf("the I/O error of the loader (*fs.PathError, EISDIR) cannot be found in the returned error: %s", errText(res.err))
			o.Class = pr.pos.group + "/" + skind + "/cause-lost"
		default:
			o.Class = pr.pos.group + "/" + skind + "/" + repl + "-surfaced"
		}
	}
	if viol != "" {
		o.Violation = fmt.Sprintf("program %s (render %q of %v), mode %s, loaders %s, %s: %s", pr.id, pr.top, src, mode, variant, faultDesc, viol)
		o.Detail = detail{pr.id, src, pr.top, mode, variant, faultDesc, res.out, errText(res.err)}
	}
	return o
}

// toleranceCase: undefined variables and attributes print as empty — the program renders like its
// twin without the tolerated statements.
func toleranceCase(pr *program, mode string) *vlib.Outcome {
	src := pr.sources(nil, false)
	res := run(pr, src, mode, "solo", newPlan(nil, false))
	twin := run(pr, pr.sources(nil, true), mode, "solo", newPlan(nil, false))
	o := &vlib.Outcome{Nontrivial: true, Counters: map[string]int64{"renders": 2}}
	var viol string
	switch {
	case res.err != nil:
		viol = fmt.Sprintf("an undefined variable/attribute made the render fail: %s", errText(res.err))
		o.Class = "tolerance/failed"
	case twin.err != nil || twin.out != res.out:
		viol = fmt.Sprintf("output %q differs from the program without the undefined prints: %q (err=%s)", res.out, twin.out, errText(twin.err))
		o.Class = "tolerance/differs"
	default:
		o.Class = "tolerance/empty"
	}
	if viol != "" {
		o.Violation = fmt.Sprintf("program %s (render %q of %v), mode %s: %s", pr.id, pr.top, src, mode, viol)
		o.Detail = detail{pr.id, src, pr.top, mode, "solo", "none (tolerance)", res.out, errText(res.err)}
	}
	return o
}

// baseCase: the fault-free render itself must not return output together with an error.
func baseCase(pr *program, mode string) *vlib.Outcome {
	src := pr.sources(nil, false)
	res := run(pr, src, mode, "solo", newPlan(nil, false))
	o := &vlib.Outcome{Counters: map[string]int64{"renders": 1}}
	if res.err != nil {
		o.Class = "baseline/fails"
		o.Counters["baseline_failures"] = 1
		if res.out != "" && !isWriterMode(mode) {
			o.Violation = fmt.Sprintf("program %s, mode %s: Render returned the error %s together with output %q", pr.id, mode, errText(res.err), res.out)
			o.Detail = detail{pr.id, src, pr.top, mode, "solo", "none", res.out, errText(res.err)}
		}
	} else {
		o.Class = "baseline/ok"
	}
	return o
}

func main() {
	twig.SetDebugWriter(io.Discard)
	if os.Getenv("C17_DUMP") == "count" {
		fmt.Printf("positions=%d exprForms=%d seqForms=%d nameForms=%d flat(quick)=%d flat(thorough)=%d nested(quick)=%d nested(thorough)=%d\n",
			len(positions), len(exprForms), len(seqForms), len(nameForms), len(allPrograms(false)), len(allPrograms(true)), len(nestedPrograms(false)), len(nestedPrograms(true)))
		return
	}
	if os.Getenv("C17_DUMP") != "" {
		for _, pr := range append(allPrograms(true), nestedPrograms(false)...) {
			b := computeBaseline(pr)
			n := 0
			for _, c := range b.counts {
				n += c
			}
			fmt.Printf("%-40s K=%-3d out=%q err=%s\n    %v\n", pr.id, n, b.out, errText(b.err), pr.sources(nil, false))
		}
		return
	}
	vlib.Main(vlib.Spec{
		ID:    "C17",
		Level: "fault_enumeration",
		Rule: "programs = every structural position (if/for/set/do/block/extends/parent()/include/macro/import/apply/spaceless/API-built macro text, " +
			"nested and in loops) × every expression form with harness filters, functions and tests, all templates from a harness loader; each program is run " +
			"fault-free to count the invocations of every call site, then once per (site, n) with exactly the n-th invocation failing with a fresh sentinel, " +
			"in every render mode and for both result flavours; loader invocations additionally under every loader arrangement; every reached callback, macro and " +
			"template name is replaced once by an unresolvable one; thorough adds every pair of armed invocations. Templates in sub-directories referring to each other " +
			"by ./ and ../ names (include with every option set, extends, import, from; with and without a template under the name as written) get the RESOLVED target " +
			"faulted: loader failure for exactly that name, a syntax error in it, the name missing — through the harness loader and through a FileSystemLoader on a " +
			"temporary directory (unreadable target = a directory in place of the file). REPEATED RENDERS on one engine: every fault that persists (a callback / a loader " +
			"that fails at EVERY invocation, every unresolvable name, a referenced template with a syntax error) is rendered three times on the same engine, template cache " +
			"on and off — every render must fail with the cause reachable; and every fault is switched on and off between five renders on one engine (template replaced by a " +
			"failing version through RegisterString / through the loader with cache off / with auto-reload, and back; loader or callback that starts to fail and recovers). " +
			"FAILING RELOADS (cache on + auto-reload + a loader with modification times): after a successful render the modification time of one template — the one named in the " +
			"render call, or one reached by include / extends / import / from — moves forward and the reload fails (the loader's Load returns an error; the new source has a syntax " +
			"error), through Engine.Render, Engine.RenderTo and Load + Template.Render (thorough: also the debug modes and a kept template handle): the render must fail with the " +
			"cause reachable, never serve the cached copy with a nil error. " +
			"Expression forms include a filter applied to a base that itself contains another filter outside the chain (call argument, list, hash, parenthesised operand, " +
			"ternary arm, filter argument, item access; one and two deep), every filter failing / unknown in turn; the call sites of these branch-free forms count as reached " +
			"whenever one of them is invoked (an engine that skips one of them still has to report an unknown name there). " +
			"Positions of group `unused`: a from-import / import statement on the rendered path whose names are never called afterwards (alone, beside used names, " +
			"aliased, called only in unreached code, inside loops / includes / blocks / parents / macro bodies / library top-level code): the imported macro name / the " +
			"library template is replaced by an unresolvable one and the render must fail although nothing uses the name. " +
			"Positions of group `macrocall`: the failing construct stands in a macro body and the call is the value of a set tag (variable printed, printed in a loop, " +
			"never used) or a filter argument, the macro coming from the same template, _self, import and from-import. " +
			"Non-trivial = the armed invocation really happened (or the renamed site is reached in the fault-free run)",
		Assumptions: []string{
			"positions and expression forms outside the listed corpus are not explored; at most two failures per render",
			"a loader that fails while a LATER loader has the template is not generated (whether the later loader may serve it is not determined by the statement)",
			"a name that is never reached (dead branch, short-circuited operand, a from-import that is itself not executed) is not renamed: whether it must be resolved is not determined by the statement; a from-import that IS executed resolves its names there, called or not",
			"for RenderTo only the returned error is checked (partial output may already have been written to the caller's writer)",
			"sandboxed includes and security-policy violations are outside this property",
			"repeated renders: renders made while a switched fault is OFF are not judged (recovery is not part of the statement); a loader whose content changes while the cache is on without auto-reload is not generated",
		},
		QuickDeadline:    150,
		ThoroughDeadline: 840,
		Run:              runAll,
	})
}

func runAll(t *vlib.T) {
	progs := append(allPrograms(t.Thorough()), nestedPrograms(t.Thorough())...)
	bases := make([]baseline, len(progs))
	for i, pr := range progs {
		bases[i] = computeBaseline(pr)
		t.Progress() // every worker renders the whole corpus once before its first case
	}
	quickModes := []string{"R", "D", "W", "T"}
	useModes := quickModes
	if t.Thorough() {
		useModes = modes
	}
	// debug aid: C17_ONLY=reload runs the baselines and the failing-reload family (phase 5b) only — for looking at
	// that family alone on a loaded machine; never set by run.sh, the evidence of such a run says exhaustive for
	// that family only
	onlyReload := os.Getenv("C17_ONLY") == "reload"
	if onlyReload {
		useModes = []string{"R"}
		t.Note("C17_ONLY=reload: only the baselines (mode R) and the failing-reload family are enumerated")
	}
	// in the quick tier the depth-2 programs run in the plain and the debug mode only
	skip := func(pr *program, mode string) bool {
		return pr.nested && !t.Thorough() && mode != "R" && mode != "D"
	}
	note := func(s string) { t.Note(s) }
	nBaseFail := 0
	for i, pr := range progs {
		if !bases[i].ok {
			nBaseFail++
			if nBaseFail <= 5 {
				note(fmt.Sprintf("fault-free render of program %s fails (%s); no faults are injected into it", pr.id, errText(bases[i].err)))
			}
		}
	}
	if nBaseFail > 0 {
		note(fmt.Sprintf("%d of %d programs fail fault-free", nBaseFail, len(progs)))
	}

	// phase 0: baselines in every mode
	for _, mode := range useModes {
		for _, pr := range progs {
			if t.Stopped() {
				return // the deadline was reached: the rest of the enumeration is not covered (exhaustive:false)
			}
			t.Progress()
			pr, mode := pr, mode
			if skip(pr, mode) {
				continue
			}
			t.Case(pr.id+"|"+mode+"|base", func() *vlib.Outcome { return baseCase(pr, mode) })
		}
	}
	// phase 0b: programs with Live sites — were all of them invoked in the fault-free run?
	for i, pr := range progs {
		if t.Stopped() {
			return // the deadline was reached: the rest of the enumeration is not covered (exhaustive:false)
		}
		t.Progress()
		if !bases[i].ok {
			continue
		}
		hasLive := false
		for _, st := range pr.sites {
			hasLive = hasLive || st.Live
		}
		if hasLive {
			pr, b := pr, &bases[i]
			t.Case(pr.id+"|R|live", func() *vlib.Outcome { return liveCase(pr, b) })
		}
	}
	// phase 1: single faults, mode by mode (plain mode first)
	for _, mode := range useModes {
		if onlyReload {
			break
		}
		for i, pr := range progs {
			if t.Stopped() {
				return // the deadline was reached: the rest of the enumeration is not covered (exhaustive:false)
			}
			t.Progress()
			b := bases[i]
			if !b.ok || skip(pr, mode) {
				continue
			}
			for _, key := range b.keys {
				variants := []string{"solo"}
				if key[0] == 'L' {
					variants = loaderVariants
					if pr.nested && !t.Thorough() {
						variants = []string{"solo", "beforeempty"}
					}
				}
				for n := 1; n <= b.counts[key]; n++ {
					for _, value := range []bool{false, true} {
						if value && key[0] == 'L' {
							continue // a loader has no value to return along with its error
						}
						for _, variant := range variants {
							pr, mode, key, n, value, variant := pr, mode, key, n, value, variant
							fl := "nil"
							if value {
								fl = "value"
							}
							desc := fmt.Sprintf("%s#%d/%s", key, n, fl)
							t.Case(pr.id+"|"+mode+"|"+variant+"|"+desc, func() *vlib.Outcome {
								return faultCase(pr, mode, variant, []arm{{key, n}}, value, "invocation "+strconv.Itoa(n)+" of "+siteKind(key)+" "+key+" fails, returning ("+fl+", err)")
							})
						}
					}
				}
			}
		}
	}
	// phase 2: name faults and tolerances
	nameModes := []string{"R", "D"}
	if t.Thorough() {
		nameModes = []string{"R", "D", "V", "W", "T"}
	}
	if onlyReload {
		nameModes = nil
	}
	for _, mode := range nameModes {
		for i, pr := range progs {
			if t.Stopped() {
				return // the deadline was reached: the rest of the enumeration is not covered (exhaustive:false)
			}
			t.Progress()
			b := bases[i]
			if !b.ok {
				continue
			}
			if pr.hasTol {
				pr, mode := pr, mode
				t.Case(pr.id+"|"+mode+"|tolerance", func() *vlib.Outcome { return toleranceCase(pr, mode) })
			}
			for _, st := range pr.sites {
				st := st
				pr, mode := pr, mode
				switch st.Kind {
				case 'f', 'g', 't', 'u':
					if !pr.reached(&b, st) {
						continue // never reached
					}
					t.Case(pr.id+"|"+mode+"|name:"+st.Key, func() *vlib.Outcome {
						return nameCase(pr, mode, "solo", st, "callback", false, "unknown "+siteKind(st.Key)+" name at site "+st.Key)
					})
				case 'M':
					t.Case(pr.id+"|"+mode+"|name:"+st.Key, func() *vlib.Outcome {
						return nameCase(pr, mode, "solo", st, "macro", false, "unknown macro name at site "+st.Key+" ("+st.Ref+")")
					})
				case 'T':
					if b.counts["L:"+st.Ref] == 0 && !strings.HasPrefix(pr.raw[st.Ref], "API-MACRO|") {
						continue // the reference is never followed
					}
					ignore := st.Ignore
					t.Case(pr.id+"|"+mode+"|name:"+st.Key+":missing", func() *vlib.Outcome {
						return nameCase(pr, mode, "solo", st, "missing", ignore, "template name at site "+st.Key+" ("+st.Written+") replaced by one no loader has")
					})
					t.Case(pr.id+"|"+mode+"|name:"+st.Key+":broken", func() *vlib.Outcome {
						return nameCase(pr, mode, "solo", st, "broken", false, "template name at site "+st.Key+" ("+st.Written+") replaced by a template with a syntax error")
					})
					if st.Written != st.Ref {
						t.Case(pr.id+"|"+mode+"|name:"+st.Key+":brokeninplace", func() *vlib.Outcome {
							return nameCase(pr, mode, "solo", st, "brokeninplace", false, "the template "+st.Ref+" that "+st.Written+" at site "+st.Key+" resolves to has a syntax error")
						})
					}
				}
			}
		}
	}
	// phase 2b: the relative-name programs once more through a real FileSystemLoader on a temporary
	// directory: failing callbacks; the resolved target missing, with a syntax error, unreadable
	for _, mode := range nameModes {
		for i, pr := range progs {
			if t.Stopped() {
				return // the deadline was reached: the rest of the enumeration is not covered (exhaustive:false)
			}
			t.Progress()
			b := bases[i]
			if !b.ok || !pr.pos.rel || pr.nested {
				continue
			}
			pr, mode, want := pr, mode, b.out
			fsOK := func() *vlib.Outcome {
				res := run(pr, pr.sources(nil, false), mode, "fs", newPlan(nil, false))
				if res.err != nil || res.out != want {
					// the fault-free render through the FileSystemLoader is not the one of the harness
					// loader (name resolution is not this property's business): no faults are judged
					return &vlib.Outcome{Class: "relative/fs/baseline-differs", Counters: map[string]int64{"renders": 1, "fs_baseline_differs": 1}}
				}
				return nil
			}
			t.Case(pr.id+"|"+mode+"|fs|base", func() *vlib.Outcome {
				if o := fsOK(); o != nil {
					return o
				}
				return &vlib.Outcome{Nontrivial: true, Class: "relative/fs/baseline-same", Counters: map[string]int64{"renders": 1}}
			})
			for _, key := range b.keys {
				if key[0] == 'L' {
					continue
				}
				for n := 1; n <= b.counts[key]; n++ {
					key, n := key, n
					t.Case(fmt.Sprintf("%s|%s|fs|%s#%d/nil", pr.id, mode, key, n), func() *vlib.Outcome {
						if o := fsOK(); o != nil {
							return o
						}
						return faultCase(pr, mode, "fs", []arm{{key, n}}, false, "invocation "+strconv.Itoa(n)+" of "+siteKind(key)+" "+key+" fails, returning (nil, err)")
					})
				}
			}
			for _, st := range pr.sites {
				if st.Kind != 'T' || b.counts["L:"+st.Ref] == 0 {
					continue
				}
				st := st
				for _, kind := range []string{"missing", "broken", "brokeninplace", "isdir"} {
					kind := kind
					t.Case(pr.id+"|"+mode+"|fs|name:"+st.Key+":"+kind, func() *vlib.Outcome {
						if o := fsOK(); o != nil {
							return o
						}
						return nameCase(pr, mode, "fs", st, kind, kind == "missing" && st.Ignore, "FileSystemLoader; the target "+st.Ref+" of "+st.Written+" at site "+st.Key+": "+kind)
					})
				}
			}
		}
	}
	// phase 4: REPEATED RENDERS on one engine with a persistent fault (three renders, cache on and off)
	repModes := func(pr *program, cache string) []string {
		switch {
		case t.Thorough() && !pr.nested:
			return []string{"R", "D", "W", "T", "K"}
		case t.Thorough() && cache == "on":
			return []string{"R", "D"}
		case t.Thorough():
			return []string{"R"}
		case pr.nested:
			if cache == "off" {
				return nil
			}
			return []string{"R"}
		case cache == "off":
			return []string{"R"}
		}
		return []string{"R", "D"}
	}
	for _, cache := range []string{"on", "off"} {
		if onlyReload {
			break
		}
		for i, pr := range progs {
			if t.Stopped() {
				return // the deadline was reached: the rest of the enumeration is not covered (exhaustive:false)
			}
			t.Progress()
			b := bases[i]
			if !b.ok || (cache == "off" && pr.hasAPITemplate()) {
				continue
			}
			for _, mode := range repModes(pr, cache) {
				pfx := pr.id + "|" + mode + "|rep-" + cache + "|"
				// a callback that always fails, a loader that always fails for one name
				for _, key := range b.keys {
					variants := []string{"solo"}
					if key[0] == 'L' && t.Thorough() && !pr.nested {
						variants = []string{"solo", "chainafterempty"}
					}
					for _, value := range []bool{false, true} {
						if value && (key[0] == 'L' || !t.Thorough() || pr.nested) {
							continue
						}
						for _, variant := range variants {
							pr, mode, cache, key, value, variant := pr, mode, cache, key, value, variant
							fl := "nil"
							if value {
								fl = "value"
							}
							t.Case(pfx+variant+"|"+key+"#*/"+fl, func() *vlib.Outcome {
								return repeatFaultCase(pr, mode, variant, cache, key, value, "every invocation of "+siteKind(key)+" "+key+" fails, returning ("+fl+", err)")
							})
						}
					}
				}
				// a name that cannot be resolved, a referenced template with a syntax error
				for _, st := range pr.sites {
					st := st
					pr, mode, cache := pr, mode, cache
					switch st.Kind {
					case 'f', 'g', 't', 'u':
						if !pr.reached(&b, st) {
							continue // never reached
						}
						t.Case(pfx+"name:"+st.Key, func() *vlib.Outcome {
							return repeatNameCase(pr, mode, "solo", cache, st, "callback", false, "unknown "+siteKind(st.Key)+" name at site "+st.Key)
						})
					case 'M':
						t.Case(pfx+"name:"+st.Key, func() *vlib.Outcome {
							return repeatNameCase(pr, mode, "solo", cache, st, "macro", false, "unknown macro name at site "+st.Key+" ("+st.Ref+")")
						})
					case 'T':
						if b.counts["L:"+st.Ref] == 0 && !strings.HasPrefix(pr.raw[st.Ref], "API-MACRO|") {
							continue // the reference is never followed
						}
						ignore := st.Ignore
						t.Case(pfx+"name:"+st.Key+":missing", func() *vlib.Outcome {
							return repeatNameCase(pr, mode, "solo", cache, st, "missing", ignore, "template name at site "+st.Key+" ("+st.Written+") replaced by one no loader has")
						})
						t.Case(pfx+"name:"+st.Key+":broken", func() *vlib.Outcome {
							return repeatNameCase(pr, mode, "solo", cache, st, "broken", false, "template name at site "+st.Key+" ("+st.Written+") replaced by a template with a syntax error")
						})
						t.Case(pfx+"name:"+st.Key+":brokeninplace", func() *vlib.Outcome {
							return repeatNameCase(pr, mode, "solo", cache, st, "brokeninplace", false, "the template "+st.Ref+" that "+st.Written+" at site "+st.Key+" refers to has a syntax error")
						})
						if pr.pos.rel && !pr.nested && b.counts["L:"+st.Ref] > 0 && (mode == "R" || mode == "D") {
							want := b.out
							for _, kind := range []string{"missing", "broken", "brokeninplace", "isdir"} {
								kind := kind
								t.Case(pfx+"fs|name:"+st.Key+":"+kind, func() *vlib.Outcome {
									res := run(pr, pr.sources(nil, false), mode, "fs", newPlan(nil, false))
									if res.err != nil || res.out != want {
										return &vlib.Outcome{Class: "relative/fs/baseline-differs", Counters: map[string]int64{"renders": 1, "fs_baseline_differs": 1}}
									}
									return repeatNameCase(pr, mode, "fs", cache, st, kind, kind == "missing" && st.Ignore, "FileSystemLoader; the target "+st.Ref+" of "+st.Written+" at site "+st.Key+": "+kind)
								})
							}
						}
					}
				}
			}
		}
	}
	// phase 5: a fault that is switched ON and OFF between renders on one engine (healthy, failing, failing,
	// healthy, failing): a template replaced by a failing version and back (RegisterString with the cache on;
	// the loader's source with the cache off and with cache + auto-reload), a loader / a callback that starts
	// to fail. Quick: the flat corpus with the value / sequence forms that are also used for nesting, mode R;
	// thorough: the whole flat corpus in R and D, the nested corpus of those forms in R.
	seqModes := []string{"R"}
	if t.Thorough() {
		seqModes = []string{"R", "D"}
	}
	for _, mode := range seqModes {
		if onlyReload {
			break
		}
		for i, pr := range progs {
			if t.Stopped() {
				return // the deadline was reached: the rest of the enumeration is not covered (exhaustive:false)
			}
			t.Progress()
			b := bases[i]
			if !b.ok {
				continue
			}
			subset := nestedExprForms[pr.form] || nestedSeqForms[pr.form] || pr.form == "-"
			switch {
			case !pr.nested && (t.Thorough() || subset || pr.pos.hole == 'N'):
			case pr.nested && t.Thorough() && subset && mode == "R":
			default:
				continue
			}
			pfx := pr.id + "|" + mode + "|seq|"
			want := b.out
			api := pr.hasAPITemplate()
			for _, st := range pr.sites {
				st := st
				pr, mode := pr, mode
				switch st.Kind {
				case 'f', 'g', 't', 'u':
					if !pr.reached(&b, st) || strings.HasPrefix(pr.raw[st.Tpl], "API-MACRO|") {
						continue
					}
					desc := "template " + st.Tpl + " replaced by a version with an unknown " + siteKind(st.Key) + " name at site " + st.Key + " and back"
					t.Case(pfx+"reg|name:"+st.Key, func() *vlib.Outcome {
						return seqCase(pr, mode, "on", "reg", "name", st, "", want, desc)
					})
					if !api {
						t.Case(pfx+"ldr|name:"+st.Key, func() *vlib.Outcome {
							return seqCase(pr, mode, "off", "src", "name", st, "", want, desc)
						})
					}
					t.Case(pfx+"reload|name:"+st.Key, func() *vlib.Outcome {
						return seqCase(pr, mode, "reload", "src", "name", st, "", want, desc)
					})
				case 'T':
					if b.counts["L:"+st.Ref] == 0 {
						continue
					}
					desc := "template " + st.Ref + " (referred to at site " + st.Key + ") replaced by one with a syntax error and back"
					if !api {
						t.Case(pfx+"ldr|syntax:"+st.Key, func() *vlib.Outcome {
							return seqCase(pr, mode, "off", "src", "syntax", st, "", want, desc)
						})
					}
					t.Case(pfx+"reload|syntax:"+st.Key, func() *vlib.Outcome {
						return seqCase(pr, mode, "reload", "src", "syntax", st, "", want, desc)
					})
				}
			}
			for _, key := range b.keys {
				key := key
				pr, mode := pr, mode
				if key[0] == 'L' {
					if !api {
						t.Case(pfx+"off|"+key+"#*", func() *vlib.Outcome {
							return seqCase(pr, mode, "off", "arm", "loaderfail", site{}, key, want, "the loader starts to fail for every Load of "+key[2:]+" and recovers")
						})
					}
					continue
				}
				for _, cache := range []string{"on", "off"} {
					if cache == "off" && api {
						continue
					}
					cache := cache
					t.Case(pfx+cache+"|"+key+"#*", func() *vlib.Outcome {
						return seqCase(pr, mode, cache, "arm", "cb", site{}, key, want, siteKind(key)+" "+key+" starts to fail at every invocation and recovers")
					})
				}
			}
		}
	}
	// phase 5b: FAILING RELOADS (cache on + auto-reload + a loader with modification times). The program is rendered
	// successfully, so every template it reaches is cached; then the modification time of ONE template (the one
	// named in the render call, or one reached by include / extends / import / from) moves forward and the reload
	// fails — the loader's Load returns an error (`reload|L:name#*`), or the new source has a syntax error
	// (`reload|syntax:top` for the top template in every mode; `reload|syntax:Tn` for the references in the
	// entry points phase 5 does not use). Sequence H F F H F as above; every render made while the reload fails
	// must return "" and an error wrapping the cause, never output of the cached copy with a nil error.
	// Quick: the phase-5 subset of the flat corpus through Engine.Render, Engine.RenderTo, Load + Template.Render;
	// thorough: the whole flat corpus also in the debug modes and with a kept template handle (K: nested
	// templates only — the handle itself legitimately stays what it was), the nested corpus of the subset in R.
	reloadModes := []string{"R", "W", "T"}
	if t.Thorough() {
		reloadModes = []string{"R", "D", "W", "WD", "T", "K"}
	}
	for _, mode := range reloadModes {
		inSeq := false
		for _, m := range seqModes {
			inSeq = inSeq || m == mode
		}
		for i, pr := range progs {
			if t.Stopped() {
				return // the deadline was reached: the rest of the enumeration is not covered (exhaustive:false)
			}
			t.Progress()
			b := bases[i]
			if !b.ok {
				continue
			}
			subset := nestedExprForms[pr.form] || nestedSeqForms[pr.form] || pr.form == "-"
			switch {
			case !pr.nested && (t.Thorough() || subset || pr.pos.hole == 'N'):
			case pr.nested && t.Thorough() && subset && mode == "R":
			default:
				continue
			}
			pfx := pr.id + "|" + mode + "|seq|"
			want := b.out
			for _, key := range b.keys {
				if key[0] != 'L' || (mode == "K" && key[2:] == pr.top) {
					continue
				}
				pr, mode, key := pr, mode, key
				t.Case(pfx+"reload|"+key+"#*", func() *vlib.Outcome {
					return seqCase(pr, mode, "reload", "armtouch", "loaderfail", site{}, key, want, "the cached template "+key[2:]+" changes (its modification time moves forward) and the loader fails for every Load of it, then recovers")
				})
			}
			if mode == "K" {
				continue
			}
			if b.counts["L:"+pr.top] > 0 {
				pr, mode := pr, mode
				t.Case(pfx+"reload|syntax:top", func() *vlib.Outcome {
					return seqCase(pr, mode, "reload", "src", "syntax", site{Key: "top", Ref: pr.top}, "", want, "the template "+pr.top+" named in the render call is replaced by one with a syntax error and back")
				})
			}
			if inSeq {
				continue // phase 5 has the references in this mode
			}
			for _, st := range pr.sites {
				if st.Kind != 'T' || b.counts["L:"+st.Ref] == 0 {
					continue
				}
				st := st
				pr, mode := pr, mode
				t.Case(pfx+"reload|syntax:"+st.Key, func() *vlib.Outcome {
					return seqCase(pr, mode, "reload", "src", "syntax", st, "", want, "template "+st.Ref+" (referred to at site "+st.Key+") replaced by one with a syntax error and back")
				})
			}
		}
	}
	// phase 3 (thorough): every pair of armed invocations; the one that fires first must win
	if t.Thorough() && !onlyReload {
		for _, mode := range []string{"R", "D"} {
			for i, pr := range progs {
				if t.Stopped() {
					return // the deadline was reached: the rest of the enumeration is not covered (exhaustive:false)
				}
				t.Progress()
				b := bases[i]
				if !b.ok {
					continue
				}
				var all []arm
				for _, key := range b.keys {
					for n := 1; n <= b.counts[key]; n++ {
						all = append(all, arm{key, n})
					}
				}
				if len(all) > 40 {
					all = all[:40]
				}
				for x := 0; x < len(all); x++ {
					for y := x + 1; y < len(all); y++ {
						pr, mode, a1, a2 := pr, mode, all[x], all[y]
						desc := fmt.Sprintf("pair:%s#%d+%s#%d", a1.Site, a1.Nth, a2.Site, a2.Nth)
						t.Case(pr.id+"|"+mode+"|solo|"+desc, func() *vlib.Outcome {
							return faultCase(pr, mode, "solo", []arm{a1, a2}, false, desc+" both armed")
						})
					}
				}
			}
		}
	}
}
