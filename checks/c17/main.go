// C17 — failures during rendering always surface as errors that wrap their cause.
//
// Fault enumeration. A corpus of template programs is generated as the full product
// (structural position) × (expression form): every expression position carries harness callbacks
// (filters, functions, tests — each call site under its own name) and every template comes from a
// harness loader. Each program is rendered once fault-free to learn which call sites are invoked how
// often; then once per (site, n) with exactly the n-th invocation of that site failing with a fresh
// sentinel error. The render must return "" and an error through which the sentinel is found with
// errors.Is and errors.As — in every render mode (plain, debug levels, RenderTo, Template.Render),
// for both callback result flavours (nil, err) and (value, err), and for every loader arrangement.
// Name faults replace one reached filter/function/test/macro/template name by an unknown one.
// The documented tolerances (undefined variable/attribute, `ignore missing`) are checked against the
// twin program in which the tolerated statement is deleted.
package main

import (
	"bytes"
	"errors"
	"fmt"
	"io"
	"os"
	"regexp"
	"sort"
	"strconv"
	"strings"

	"github.com/semihalev/twig"

	"verif/lib/vlib"
)

// ---------------------------------------------------------------------------------------------
// corpus: positions × expression forms
//
// Markers in template sources:
//   @f @g @t @u   a filter / function / true-test / false-test call site (each gets its own name)
//   #name#        a reference to template `name` (include / extends / import / from)
//   $name$        a call of (or import of) macro `name`
//   «…»           a statement that is covered by a documented tolerance (its twin is the program
//                 with the statement deleted)

type position struct {
	name   string
	group  string // coarse structure label used in the outcome class
	hole   byte   // 'E' value expression, 'S' sequence expression, 'N' template-name expression, 0 none
	top    string
	tpls   map[string]string
	spless bool // register a harness filter under the built-in name "spaceless"
}

// macro parameter list that re-binds every context variable an expression form may use
const mp = "x, xs, m, s"

var positions = []position{
	{name: "print", group: "top", hole: 'E', tpls: map[string]string{"top": "a{{ <E> }}b"}},
	{name: "print2nd", group: "top", hole: 'E', tpls: map[string]string{"top": "a{{ x }}b{{ <E> }}c"}},
	{name: "ifcond", group: "if", hole: 'E', tpls: map[string]string{"top": "{% if <E> %}T{% else %}F{% endif %}"}},
	{name: "elseifcond", group: "if", hole: 'E', tpls: map[string]string{"top": "{% if @g(0) %}T{% elseif <E> %}U{% else %}F{% endif %}"}},
	{name: "ifbody", group: "if", hole: 'E', tpls: map[string]string{"top": "{% if x %}[{{ <E> }}]{% endif %}"}},
	{name: "elsebody", group: "if", hole: 'E', tpls: map[string]string{"top": "{% if @g(0) %}T{% else %}[{{ <E> }}]{% endif %}"}},
	{name: "elseifbody", group: "if", hole: 'E', tpls: map[string]string{"top": "{% if 0 %}T{% elseif x is @t %}[{{ <E> }}]{% else %}F{% endif %}"}},
	{name: "nestedif", group: "if", hole: 'E', tpls: map[string]string{"top": "{% if x %}{% if x is @u %}n{% else %}{% if <E> %}y{% endif %}{% endif %}{% endif %}"}},
	{name: "forbody", group: "loop", hole: 'E', tpls: map[string]string{"top": "{% for i in xs %}<{{ <E> }}>{% endfor %}"}},
	{name: "forbodykv", group: "loop", hole: 'E', tpls: map[string]string{"top": "{% for k, v in m %}{{ k }}={{ <E> }};{% endfor %}"}},
	{name: "forbodystr", group: "loop", hole: 'E', tpls: map[string]string{"top": "{% for c in s %}{{ c }}{{ <E> }}{% endfor %}"}},
	{name: "forelse", group: "loop", hole: 'E', tpls: map[string]string{"top": "{% for i in [] %}n{% else %}[{{ <E> }}]{% endfor %}"}},
	{name: "forelseundef", group: "loop", hole: 'E', tpls: map[string]string{"top": "{% for i in undefinedvar %}n{% else %}[{{ <E> }}]{% endfor %}"}},
	{name: "fornested", group: "loop", hole: 'E', tpls: map[string]string{"top": "{% for i in xs %}{% for j in [1, 2] %}{{ <E> }}{% endfor %}/{% endfor %}"}},
	{name: "forifcond", group: "loop", hole: 'E', tpls: map[string]string{"top": "{% for i in xs %}{% if <E> %}y{% else %}n{% endif %}{% endfor %}"}},
	{name: "forset", group: "loop", hole: 'E', tpls: map[string]string{"top": "{% for i in xs %}{% set v = <E> %}{{ v }}{% endfor %}"}},
	{name: "forafter", group: "loop", hole: 'E', tpls: map[string]string{"top": "{% for i in xs %}{{ i }}{% endfor %}{{ <E> }}"}},
	{name: "forseq", group: "loopseq", hole: 'S', tpls: map[string]string{"top": "{% for i in <S> %}{{ i }}{% else %}e{% endfor %}"}},
	{name: "forseqkv", group: "loopseq", hole: 'S', tpls: map[string]string{"top": "{% for k, i in <S> %}{{ k }}{{ i|@f }}{% endfor %}"}},
	{name: "forseqnested", group: "loopseq", hole: 'S', tpls: map[string]string{"top": "{% for j in [1, 2] %}{% for i in <S> %}{{ i }}{% endfor %}{% endfor %}"}},
	{name: "set", group: "set", hole: 'E', tpls: map[string]string{"top": "{% set v = <E> %}[{{ v }}]"}},
	{name: "setuse", group: "set", hole: 'E', tpls: map[string]string{"top": "{% set v = <E> %}{% set w = @g(v) %}[{{ w }}]"}},
	{name: "do", group: "do", hole: 'E', tpls: map[string]string{"top": "{% do <E> %}k"}},
	{name: "block", group: "block", hole: 'E', tpls: map[string]string{"top": "[{% block b %}{{ <E> }}{% endblock %}]"}},
	{name: "blockinloop", group: "block", hole: 'E', tpls: map[string]string{"top": "{% for i in xs %}{% block b %}{{ <E> }}{% endblock %}{% endfor %}"}},
	{name: "blocknested", group: "block", hole: 'E', tpls: map[string]string{"top": "{% block o %}o{% block b %}{{ <E> }}{% endblock %}{% endblock %}"}},
	{name: "childblock", group: "extends", hole: 'E', top: "child", tpls: map[string]string{
		"base":  "[{% block b %}B{% endblock %}]",
		"child": "{% extends '#base#' %}{% block b %}C{{ <E> }}{% endblock %}"}},
	{name: "basedefault", group: "extends", hole: 'E', top: "child", tpls: map[string]string{
		"base":  "[{% block b %}B{{ <E> }}{% endblock %}{% block c %}c{% endblock %}]",
		"child": "{% extends '#base#' %}{% block c %}C{% endblock %}"}},
	{name: "baseoutside", group: "extends", hole: 'E', top: "child", tpls: map[string]string{
		"base":  "[{{ <E> }}{% block b %}B{% endblock %}]",
		"child": "{% extends '#base#' %}{% block b %}C{% endblock %}"}},
	{name: "baseafter", group: "extends", hole: 'E', top: "child", tpls: map[string]string{
		"base":  "[{% block b %}B{% endblock %}{{ <E> }}]",
		"child": "{% extends '#base#' %}{% block b %}C{{ @g(1) }}{% endblock %}"}},
	{name: "parent", group: "parent", hole: 'E', top: "child", tpls: map[string]string{
		"base":  "[{% block b %}B{{ <E> }}{% endblock %}]",
		"child": "{% extends '#base#' %}{% block b %}C{{ parent() }}D{% endblock %}"}},
	{name: "parentchild", group: "parent", hole: 'E', top: "child", tpls: map[string]string{
		"base":  "[{% block b %}B{{ x|@f }}{% endblock %}]",
		"child": "{% extends '#base#' %}{% block b %}C{{ parent() }}{{ <E> }}{% endblock %}"}},
	{name: "parent2base", group: "parent", hole: 'E', top: "leaf", tpls: map[string]string{
		"base": "[{% block b %}B{{ <E> }}{% endblock %}]",
		"mid":  "{% extends '#base#' %}{% block b %}M{{ parent() }}{% endblock %}",
		"leaf": "{% extends '#mid#' %}{% block b %}L{{ parent() }}{% endblock %}"}},
	{name: "parent2mid", group: "parent", hole: 'E', top: "leaf", tpls: map[string]string{
		"base": "[{% block b %}B{% endblock %}]",
		"mid":  "{% extends '#base#' %}{% block b %}M{{ <E> }}{{ parent() }}{% endblock %}",
		"leaf": "{% extends '#mid#' %}{% block b %}L{{ parent() }}{% endblock %}"}},
	{name: "midblock", group: "extends", hole: 'E', top: "leaf", tpls: map[string]string{
		"base": "[{% block b %}B{% endblock %}{% block c %}c{% endblock %}]",
		"mid":  "{% extends '#base#' %}{% block b %}M{{ <E> }}{% endblock %}",
		"leaf": "{% extends '#mid#' %}{% block c %}L{% endblock %}"}},
	{name: "parentinloop", group: "parent", hole: 'E', top: "child", tpls: map[string]string{
		"base":  "[{% block b %}B{{ <E> }}{% endblock %}]",
		"child": "{% extends '#base#' %}{% block b %}{% for i in [1, 2] %}{{ parent() }}{% endfor %}{% endblock %}"}},
	{name: "extendsname", group: "extends", hole: 'N', top: "child", tpls: map[string]string{
		"part":  "[{% block b %}B{% endblock %}]",
		"child": "{% extends <N> %}{% block b %}C{% endblock %}"}},
	{name: "include", group: "include", hole: 'E', tpls: map[string]string{
		"top": "<{% include '#part#' %}>", "part": "({{ <E> }})"}},
	{name: "includewith", group: "include", hole: 'E', tpls: map[string]string{
		"top": "<{% include '#part#' with {'y': 2} %}>", "part": "({{ <E> }}{{ y }})"}},
	{name: "includeonly", group: "include", hole: 'E', tpls: map[string]string{
		"top": "<{% include '#part#' with {'x': x, 'xs': xs, 'm': m, 's': s} only %}>", "part": "({{ <E> }})"}},
	{name: "includeignore", group: "include", hole: 'E', tpls: map[string]string{
		"top": "<{% include '#part#' ignore missing %}>", "part": "({{ <E> }})"}},
	{name: "includeignorewith", group: "include", hole: 'E', tpls: map[string]string{
		"top": "<{% include '#part#' ignore missing with {'y': @g(2)} %}>", "part": "({{ <E> }})"}},
	{name: "includewithvalue", group: "include", hole: 'E', tpls: map[string]string{
		"top": "<{% include '#part#' with {'y': <E>} %}>", "part": "({{ y }})"}},
	{name: "includewithvalues", group: "include", hole: 'E', tpls: map[string]string{
		"top": "<{% include '#part#' with {'y': <E>, 'z': @g(2)} only %}>", "part": "({{ y }}{{ z }})"}},
	{name: "includename", group: "include", hole: 'N', tpls: map[string]string{
		"top": "<{% include <N> %}>", "part": "({{ x|@f }})"}},
	{name: "includenameignore", group: "include", hole: 'N', tpls: map[string]string{
		"top": "<{% include <N> ignore missing %}>", "part": "({{ x|@f }})"}},
	{name: "includeinloop", group: "include", hole: 'E', tpls: map[string]string{
		"top": "{% for i in xs %}{% include '#part#' %}{% endfor %}", "part": "({{ <E> }})"}},
	{name: "includedeep", group: "include", hole: 'E', tpls: map[string]string{
		"top": "<{% include '#mid#' %}>", "mid": "{{ x|@f }}{% include '#part#' %}", "part": "({{ <E> }})"}},
	{name: "includeinblock", group: "include", hole: 'E', top: "child", tpls: map[string]string{
		"base":  "[{% block b %}B{% endblock %}]",
		"child": "{% extends '#base#' %}{% block b %}{% include '#part#' %}{% endblock %}",
		"part":  "({{ <E> }})"}},
	{name: "includeextends", group: "include", hole: 'E', tpls: map[string]string{
		"top":   "<{% include '#child#' %}>",
		"base":  "[{% block b %}B{% endblock %}]",
		"child": "{% extends '#base#' %}{% block b %}C{{ <E> }}{% endblock %}"}},
	{name: "includetwice", group: "include", hole: 'E', tpls: map[string]string{
		"top": "{% include '#part#' %}|{% include '#part#' %}", "part": "({{ <E> }})"}},
	{name: "macroself", group: "macro", hole: 'E', tpls: map[string]string{
		"top": "{% macro mm(" + mp + ") %}[{{ <E> }}]{% endmacro %}{{ $mm$(" + mp + ") }}"}},
	{name: "macroselfdot", group: "macro", hole: 'E', tpls: map[string]string{
		"top": "{% macro mm(" + mp + ") %}[{{ <E> }}]{% endmacro %}{{ _self.$mm$(" + mp + ") }}"}},
	{name: "macroarg", group: "macro", hole: 'E', tpls: map[string]string{
		"top": "{% macro mm(a, b = 2) %}[{{ a }}{{ b }}]{% endmacro %}{{ $mm$(<E>) }}"}},
	{name: "macroarg2", group: "macro", hole: 'E', tpls: map[string]string{
		"top": "{% macro mm(a, b = 2) %}[{{ a }}{{ b|@f }}]{% endmacro %}{{ _self.$mm$(@g(1), <E>) }}"}},
	{name: "macroimport", group: "macro", hole: 'E', tpls: map[string]string{
		"lib": "{% macro mm(" + mp + ") %}[{{ <E> }}]{% endmacro %}",
		"top": "{% import '#lib#' as l %}{{ l.$mm$(" + mp + ") }}"}},
	{name: "macrofrom", group: "macro", hole: 'E', tpls: map[string]string{
		"lib": "{% macro mm(" + mp + ") %}[{{ <E> }}]{% endmacro %}",
		"top": "{% from '#lib#' import $mm$ as q %}{{ q(" + mp + ") }}"}},
	{name: "macrofromplain", group: "macro", hole: 'E', tpls: map[string]string{
		"lib": "{% macro mm(" + mp + ") %}[{{ <E> }}]{% endmacro %}",
		"top": "{% from '#lib#' import mm %}{{ $mm$(" + mp + ") }}"}},
	{name: "macroimportarg", group: "macro", hole: 'E', tpls: map[string]string{
		"lib": "{% macro mm(a) %}[{{ a|@f }}]{% endmacro %}",
		"top": "{% import '#lib#' as l %}{{ l.$mm$(<E>) }}"}},
	{name: "macrosibling", group: "macro", hole: 'E', tpls: map[string]string{
		"lib": "{% macro inner(" + mp + ") %}({{ <E> }}){% endmacro %}{% macro mm(" + mp + ") %}[{{ $inner$(" + mp + ") }}]{% endmacro %}",
		"top": "{% import '#lib#' as l %}{{ l.$mm$(" + mp + ") }}"}},
	{name: "macroinloop", group: "macro", hole: 'E', tpls: map[string]string{
		"top": "{% macro mm(" + mp + ") %}[{{ <E> }}]{% endmacro %}{% for i in [1, 2] %}{{ $mm$(" + mp + ") }}{% endfor %}"}},
	{name: "macroinblock", group: "macro", hole: 'E', top: "child", tpls: map[string]string{
		"base":  "[{% block b %}B{% endblock %}]",
		"lib":   "{% macro mm(" + mp + ") %}[{{ <E> }}]{% endmacro %}",
		"child": "{% extends '#base#' %}{% block b %}{% import '#lib#' as l %}{{ l.$mm$(" + mp + ") }}{% endblock %}"}},
	{name: "macroinclude", group: "macro", hole: 'E', tpls: map[string]string{
		"part": "({{ <E> }})",
		"top":  "{% macro mm(" + mp + ") %}[{% include '#part#' %}]{% endmacro %}{{ $mm$(" + mp + ") }}"}},
	{name: "macroloopbody", group: "macro", hole: 'E', tpls: map[string]string{
		"top": "{% macro mm(" + mp + ") %}{% for i in xs %}{% if i %}{{ <E> }}{% endif %}{% endfor %}{% endmacro %}{{ $mm$(" + mp + ") }}"}},
	{name: "libtoplevel", group: "macro", hole: 'E', tpls: map[string]string{
		"lib": "{% set q = <E> %}{% macro mm(a) %}[{{ a }}]{% endmacro %}",
		"top": "{% import '#lib#' as l %}{{ l.$mm$(1) }}"}},
	{name: "libtoplevelfrom", group: "macro", hole: 'E', tpls: map[string]string{
		"lib": "{{ <E> }}{% macro mm(a) %}[{{ a }}]{% endmacro %}",
		"top": "{% from '#lib#' import $mm$ %}{{ mm(1) }}"}},
	{name: "applybuiltin", group: "apply", hole: 'E', tpls: map[string]string{"top": "{% apply upper %}a{{ <E> }}b{% endapply %}"}},
	{name: "applyharness", group: "apply", hole: 'E', tpls: map[string]string{"top": "{% apply @f %}a{{ <E> }}b{% endapply %}"}},
	{name: "applynested", group: "apply", hole: 'E', tpls: map[string]string{"top": "{% apply @f %}{% apply lower %}{{ <E> }}{% endapply %}{% endapply %}"}},
	{name: "applyinloop", group: "apply", hole: 'E', tpls: map[string]string{"top": "{% for i in [1, 2] %}{% apply @f %}{{ <E> }}{% endapply %}{% endfor %}"}},
	{name: "spaceless", group: "spaceless", hole: 'E', tpls: map[string]string{"top": "{% spaceless %}<a> {{ <E> }} </a>{% endspaceless %}"}},
	{name: "spacelessuser", group: "spaceless", hole: 'E', spless: true, tpls: map[string]string{"top": "{% spaceless %}<a> {{ <E> }} </a>{% endspaceless %}"}},
	{name: "spacelessapply", group: "spaceless", hole: 'E', spless: true, tpls: map[string]string{"top": "{% spaceless %}{% apply @f %}<b> {{ <E> }} </b>{% endapply %}{% endspaceless %}"}},
	{name: "spacelessinloop", group: "spaceless", hole: 'E', spless: true, tpls: map[string]string{"top": "{% for i in [1, 2] %}{% spaceless %}<i> </i>{% endspaceless %}{% endfor %}{{ <E> }}"}},
	{name: "spacelessinclude", group: "spaceless", hole: 'E', spless: true, tpls: map[string]string{
		"top": "{% include '#part#' %}", "part": "{% spaceless %}<a> {{ <E> }} </a>{% endspaceless %}"}},
	{name: "spacelessfilter", group: "spaceless", hole: 'E', spless: true, tpls: map[string]string{"top": "{{ <E> }}{{ s|spaceless }}"}},
	{name: "spacelessshort", group: "spaceless", hole: 'E', spless: true, tpls: map[string]string{"top": "{% spaceless %}{{ <E> }}{% endspaceless %}"}},
	{name: "spacelessempty", group: "spaceless", hole: 0, spless: true, tpls: map[string]string{"top": "{% spaceless %}{% endspaceless %}k{% spaceless %} {% endspaceless %}"}},
	{name: "applyempty", group: "apply", hole: 0, tpls: map[string]string{"top": "{% apply @f %}{% endapply %}k{% apply @f %}{{ undefinedvar }}{% endapply %}"}},
	// macro bodies built through the exported node constructors: text containing {{ name|filter }}
	// is interpolated by CallMacro itself
	{name: "apimacrotext", group: "apimacro", hole: 0, tpls: map[string]string{
		"apilib": "API-MACRO|mm|a|[{{ a|@f }}]<{{ a|@f }}>",
		"top":    "{% import '#apilib#' as l %}{{ l.$mm$(x) }}"}},
	{name: "apimacrotextloop", group: "apimacro", hole: 0, tpls: map[string]string{
		"apilib": "API-MACRO|mm|a|[{{ a|@f }}]",
		"top":    "{% from '#apilib#' import $mm$ %}{% for i in xs %}{{ mm(i) }}{% endfor %}"}},
	{name: "apimacrotextarg", group: "apimacro", hole: 'E', tpls: map[string]string{
		"apilib": "API-MACRO|mm|a|[{{ a|@f }}]",
		"top":    "{% import '#apilib#' as l %}{{ l.$mm$(<E>) }}"}},
	// macro parameter defaults (closed expressions only)
	{name: "macrodefault", group: "macro", hole: 0, tpls: map[string]string{
		"top": "{% macro mm(a, b = @g(2), c = 3|@f) %}[{{ a }}{{ b }}{{ c }}]{% endmacro %}{{ $mm$(1) }}{{ _self.$mm$(1, 2) }}"}},
	{name: "macrodefaultimport", group: "macro", hole: 0, tpls: map[string]string{
		"lib": "{% macro mm(a, b = @g(2)) %}[{{ a }}{{ b }}]{% endmacro %}",
		"top": "{% import '#lib#' as l %}{{ l.$mm$(1) }}{% for i in [1, 2] %}{{ l.$mm$(i) }}{% endfor %}"}},
	// documented tolerances
	{name: "tolundefvar", group: "tolerance", hole: 'E', tpls: map[string]string{"top": "a«{{ undefinedvar }}»{{ <E> }}b"}},
	{name: "tolundefattr", group: "tolerance", hole: 'E', tpls: map[string]string{"top": "a«{{ m.nope }}{{ x.nope }}{{ undefinedvar.a.b }}»{{ <E> }}b"}},
	{name: "tolundefloop", group: "tolerance", hole: 'E', tpls: map[string]string{"top": "{% for i in xs %}«{{ i.nope }}{{ nosuch }}»{{ <E> }}{% endfor %}"}},
	{name: "tolundefinclude", group: "tolerance", hole: 'E', tpls: map[string]string{
		"top": "<{% include '#part#' only %}>{{ <E> }}", "part": "(«{{ x }}{{ m.k }}»)"}},
	{name: "tolundefmacro", group: "tolerance", hole: 'E', tpls: map[string]string{
		"top": "{% macro mm(a) %}[«{{ a }}{{ a.b }}»]{% endmacro %}{{ $mm$() }}{{ <E> }}"}},
}

type form struct{ name, src string }

var exprForms = []form{
	{"filter", "x|@f"},
	{"func", "@g(x)"},
	{"test", "x is @t"},
	{"testnot", "x is not @t"},
	{"testfalse", "x is @u"},
	{"filterchain", "x|@f|@f"},
	{"funcnested", "@g(@g(x))"},
	{"filterarg", "x|@f(@g(1), 2)"},
	{"filteronfunc", "@g(x)|@f"},
	{"funconfilter", "@g(x|@f)"},
	{"filterbuiltinafter", "x|@f|upper"},
	{"filterbuiltinbefore", "s|upper|@f"},
	{"array", "[@g(1), @g(2)]|length"},
	{"hash", "{'k': @g(3), 'j': x|@f}|length"},
	{"index", "xs[@g(0)]"},
	{"indexon", "@g(xs)[0]"},
	{"attron", "@g(m)['k']"},
	{"mapkey", "m[@g('k')]"},
	{"ternfalse", "@g(0) ? @g(1) : @g(2)"},
	{"terntrue", "@g(1) ? @g(1) : @g(2)"},
	{"and", "@g(1) and @g(0)"},
	{"andshort", "@g(0) and @g(1)"},
	{"or", "@g(0) or @g(2)"},
	{"orshort", "@g(1) or @g(2)"},
	{"default", "x|default(@g(1))"},
	{"defaultundef", "undefinedvar|default(@g(1))"},
	{"defaultfilter", "x|default(x|@f)"},
	{"add", "@g(1) + @g(2)"},
	{"concat", "@g('a') ~ x|@f"},
	{"compare", "@g(1) == 1"},
	{"not", "not @g(0)"},
	{"neg", "-@g(1)"},
	{"testarg", "x is @t(@g(1))"},
	{"testonfilter", "x|@f is @t"},
	{"definedfunc", "@g(x) is defined"},
	{"in", "x in [@g(1), 2]"},
	{"notin", "@g(1) not in [2]"},
	{"startswith", "@g('ab') starts with 'a'"},
	{"matches", "@g('a') matches '/a/'"},
	{"max", "max(@g(1), 2)"},
	{"range", "range(1, @g(2))|length"},
	{"paren", "(@g(1) + 1) * (@g(2)|@f)"},
	{"andtest", "@g(1) > 0 and x is @u"},
	{"seqfilterlen", "xs|@f|length"},
	{"seqfilterfirst", "xs|@f|first"},
	{"join", "[x|@f, @g(2)]|join(@g(','))"},
}

var seqForms = []form{
	{"seqfilter", "xs|@f"},
	{"seqfunc", "@g(xs)"},
	{"seqchain", "xs|@f|@f"},
	{"seqbuiltin", "xs|@f|reverse"},
	{"seqbuiltinbefore", "xs|reverse|@f"},
	{"seqarray", "[@g(1), x|@f]"},
	{"seqrange", "range(1, @g(2))"},
	{"seqfilterarg", "xs|@f(@g(1))"},
	{"seqtern", "@g(1) ? xs|@f : []"},
	{"seqmap", "m|@f"},
	{"seqempty", "@g([])"},
	{"seqnil", "@g()"},
	{"seqslice", "xs|slice(@g(0), 2)"},
}

var nameForms = []form{
	{"namefunc", "@g('part')"},
	{"namefilter", "nm|@f"},
	{"nametern", "@g(1) ? '#part#' : 'zznone'"},
	{"nameconcat", "@g('pa') ~ 'rt'"},
}

var ctxVars = map[string]interface{}{
	"x":  1,
	"xs": []interface{}{1, 2, 3},
	"m":  map[string]interface{}{"k": 5, "j": 6},
	"s":  "ab",
	"nm": "part",
}

// ---------------------------------------------------------------------------------------------
// programs

type site struct {
	Key    string // "f3", "g4", "t5", "u6" (callbacks) / "T7" (template name) / "M8" (macro name)
	Kind   byte
	Tpl    string // template the site is written in
	Ref    string // referenced template / macro name
	Ignore bool   // (template names) written in a tag that carries `ignore missing`
}

type program struct {
	id     string
	pos    *position
	form   string
	top    string
	raw    map[string]string // marker form
	names  []string          // sorted template names
	sites  []site
	hasTol bool
	nested bool
}

var markerRE = regexp.MustCompile(`@[fgtu]|#[a-z0-9]+#|\$[a-z0-9]+\$`)

func newProgram(p *position, f form) *program {
	id := p.name + "/" + f.name
	if p.hole == 0 {
		id = p.name
	}
	raw := map[string]string{}
	for n, s := range p.tpls {
		s = strings.ReplaceAll(s, "<E>", f.src)
		s = strings.ReplaceAll(s, "<S>", f.src)
		s = strings.ReplaceAll(s, "<N>", f.src)
		raw[n] = s
	}
	return buildProgram(id, p, f.name, p.top, raw)
}

func buildProgram(id string, p *position, formName, top string, raw map[string]string) *program {
	pr := &program{id: id, pos: p, form: formName, top: top, raw: raw}
	if pr.top == "" {
		pr.top = "top"
	}
	for n, s := range raw {
		pr.names = append(pr.names, n)
		if strings.Contains(s, "«") {
			pr.hasTol = true
		}
	}
	sort.Strings(pr.names)
	// number the sites
	k := 0
	for _, n := range pr.names {
		src := pr.raw[n]
		for _, loc := range markerRE.FindAllStringIndex(src, -1) {
			mk := src[loc[0]:loc[1]]
			k++
			switch mk[0] {
			case '@':
				pr.sites = append(pr.sites, site{Key: fmt.Sprintf("%c%d", mk[1], k), Kind: mk[1], Tpl: n})
			case '#':
				// is the reference written in a tag that carries `ignore missing`?
				ignore := false
				if a := strings.LastIndex(src[:loc[0]], "{%"); a >= 0 {
					if b := strings.Index(src[loc[1]:], "%}"); b >= 0 {
						ignore = strings.Contains(src[a:loc[1]+b], "ignore missing")
					}
				}
				pr.sites = append(pr.sites, site{Key: fmt.Sprintf("T%d", k), Kind: 'T', Tpl: n, Ref: mk[1 : len(mk)-1], Ignore: ignore})
			case '$':
				pr.sites = append(pr.sites, site{Key: fmt.Sprintf("M%d", k), Kind: 'M', Tpl: n, Ref: mk[1 : len(mk)-1]})
			}
		}
	}
	return pr
}

// ---- depth-2 nesting: a whole program placed inside a statement-level wrapper

type wrapper struct {
	name, group, top string
	tpls             map[string]string // <B> = the place of the inner program
}

const wp = "x, xs, m, s"

var wrappers = []wrapper{
	{name: "wloop", group: "loop", tpls: map[string]string{"top": "{% for q in [1, 2] %}<B>{% endfor %}"}},
	{name: "wif", group: "if", tpls: map[string]string{"top": "{% if x is @t %}<B>{% endif %}"}},
	{name: "welse", group: "if", tpls: map[string]string{"top": "{% if @g(0) %}n{% else %}<B>{% endif %}"}},
	{name: "wblock", group: "block", tpls: map[string]string{"top": "[{% block w %}<B>{% endblock %}]"}},
	{name: "wchild", group: "extends", tpls: map[string]string{
		"wbase": "[{% block w %}W{% endblock %}]",
		"top":   "{% extends '#wbase#' %}{% block w %}<B>{% endblock %}"}},
	{name: "wparent", group: "parent", tpls: map[string]string{
		"wbase": "[{% block w %}<B>{% endblock %}]",
		"top":   "{% extends '#wbase#' %}{% block w %}C{{ parent() }}{% endblock %}"}},
	{name: "winclude", group: "include", tpls: map[string]string{
		"top": "<{% include '#wpart#' %}>", "wpart": "(<B>)"}},
	{name: "wincludeonly", group: "include", tpls: map[string]string{
		"top": "<{% include '#wpart#' with {'x': x, 'xs': xs, 'm': m, 's': s} only %}>", "wpart": "(<B>)"}},
	{name: "wmacro", group: "macro", tpls: map[string]string{
		"top": "{% macro wm(" + wp + ") %}[<B>]{% endmacro %}{{ $wm$(" + wp + ") }}"}},
	{name: "wimport", group: "macro", tpls: map[string]string{
		"wlib": "{% macro wm(" + wp + ") %}[<B>]{% endmacro %}",
		"top":  "{% import '#wlib#' as wl %}{{ wl.$wm$(" + wp + ") }}"}},
	{name: "wapply", group: "apply", tpls: map[string]string{"top": "{% apply @f %}<B>{% endapply %}"}},
	{name: "wspaceless", group: "spaceless", tpls: map[string]string{"top": "{% spaceless %}<B>{% endspaceless %}"}},
}

var nestedExprForms = map[string]bool{"filter": true, "func": true, "test": true, "filterarg": true, "ternfalse": true, "and": true, "hash": true, "seqfilterfirst": true}
var nestedSeqForms = map[string]bool{"seqfilter": true, "seqfunc": true, "seqarray": true}

var refRE = regexp.MustCompile(`#([a-z0-9]+)#`)

// nest places the inner program inside the wrapper: inline where the inner top template is a plain
// body, through an include where it extends another template or defines macros.
func nest(w *wrapper, in *program) *program {
	raw := map[string]string{}
	ren := func(s string) string { return refRE.ReplaceAllString(s, "#i$1#") }
	innerTop := ren(in.raw[in.top])
	body := innerTop
	inline := !strings.Contains(innerTop, "{% extends") && !strings.Contains(innerTop, "{% macro")
	for n, s := range in.raw {
		if n == in.top && inline {
			continue
		}
		raw["i"+n] = ren(s)
	}
	if !inline {
		body = "{% include '#i" + in.top + "#' %}"
	}
	for n, s := range w.tpls {
		raw[n] = strings.ReplaceAll(s, "<B>", body)
	}
	p := &position{name: w.name + ">" + in.pos.name, group: w.group + ">" + in.pos.group, spless: in.pos.spless}
	pr := buildProgram(w.name+">"+in.id, p, in.form, "top", raw)
	pr.nested = true
	return pr
}

func nestedPrograms(allForms bool) []*program {
	var ps []*program
	for wi := range wrappers {
		w := &wrappers[wi]
		for i := range positions {
			p := &positions[i]
			var forms []form
			switch p.hole {
			case 'E':
				for _, f := range exprForms {
					if allForms || nestedExprForms[f.name] {
						forms = append(forms, f)
					}
				}
			case 'S':
				for _, f := range seqForms {
					if allForms || nestedSeqForms[f.name] {
						forms = append(forms, f)
					}
				}
			case 'N':
				continue // name expressions spell template names out; not nested
			default:
				forms = []form{{"-", ""}}
			}
			for _, f := range forms {
				in := newProgram(p, f)
				if skipCombos[in.id] {
					continue
				}
				ps = append(ps, nest(w, in))
			}
		}
	}
	return ps
}

// sources materialises the templates. rename maps a site key to the name written at that site
// instead of the regular one; dropTol deletes the «…» statements (tolerance twin).
func (pr *program) sources(rename map[string]string, dropTol bool) map[string]string {
	out := map[string]string{}
	k := 0
	for _, n := range pr.names {
		s := markerRE.ReplaceAllStringFunc(pr.raw[n], func(mk string) string {
			k++
			st := pr.sites[k-1]
			if r, ok := rename[st.Key]; ok {
				return r
			}
			if st.Kind == 'T' || st.Kind == 'M' {
				return st.Ref
			}
			return st.Key
		})
		if dropTol {
			for {
				i := strings.Index(s, "«")
				if i < 0 {
					break
				}
				j := strings.Index(s, "»")
				s = s[:i] + s[j+len("»"):]
			}
		} else {
			s = strings.ReplaceAll(strings.ReplaceAll(s, "«", ""), "»", "")
		}
		out[n] = s
	}
	return out
}

// combinations the parser does not accept (a matter of other properties); not generated
var skipCombos = map[string]bool{
	"do/compare":                 true, // `{% do a == b %}` is read as an assignment
	"includewithvalue/filterarg": true, // a call with two arguments inside a one-entry `with` hash
	"includewithvalue/max":       true,
	"includewithvalue/range":     true,
}

func allPrograms() []*program {
	var ps []*program
	for i := range positions {
		p := &positions[i]
		switch p.hole {
		case 'E':
			for _, f := range exprForms {
				ps = append(ps, newProgram(p, f))
			}
		case 'S':
			for _, f := range seqForms {
				ps = append(ps, newProgram(p, f))
			}
		case 'N':
			for _, f := range nameForms {
				ps = append(ps, newProgram(p, f))
			}
		default:
			ps = append(ps, newProgram(p, form{"-", ""}))
		}
	}
	kept := ps[:0]
	for _, p := range ps {
		if !skipCombos[p.id] {
			kept = append(kept, p)
		}
	}
	return kept
}

// ---------------------------------------------------------------------------------------------
// harness: callbacks, loader, fault plan

type injected struct {
	Site string
	Nth  int
}

func (e *injected) Error() string { return fmt.Sprintf("injected failure at %s#%d", e.Site, e.Nth) }

type arm struct {
	Site string
	Nth  int
}

type plan struct {
	arms   []arm
	value  bool // failing callbacks return (value, err) instead of (nil/false, err)
	counts map[string]int
	order  []string // sites in order of invocation (baseline only)
	fired  []*injected
	record bool
}

func (pl *plan) hit(site string) error {
	pl.counts[site]++
	if pl.record && len(pl.order) < 4096 {
		pl.order = append(pl.order, site)
	}
	for _, a := range pl.arms {
		if a.Site == site && a.Nth == pl.counts[site] {
			e := &injected{site, a.Nth}
			pl.fired = append(pl.fired, e)
			return e
		}
	}
	return nil
}

type hloader struct {
	src map[string]string
	pl  *plan
}

func (l *hloader) Load(n string) (string, error) {
	if err := l.pl.hit("L:" + n); err != nil {
		return "", err
	}
	if s, ok := l.src[n]; ok {
		return s, nil
	}
	return "", fmt.Errorf("%w: %s", twig.ErrTemplateNotFound, n)
}
func (l *hloader) Exists(n string) bool { _, ok := l.src[n]; return ok }

const brokenSource = "{% if %}{{ }"

var modes = []string{"R", "D", "V", "O", "W", "WD", "T"}
var loaderVariants = []string{"solo", "afterempty", "beforeempty", "chain", "chainafterempty"}

type result struct {
	out string
	err error
}

// run renders the program's top template on a fresh engine.
func run(pr *program, src map[string]string, mode, variant string, pl *plan) (res result) {
	e := twig.New()
	switch mode {
	case "D", "WD":
		e.SetDebug(true) // also sets the global log level to DebugInfo
	case "V":
		e.SetDebug(true)
		twig.SetDebugLevel(twig.DebugVerbose)
	case "O":
		e.SetDebug(true)
		twig.SetDebugLevel(twig.DebugOff)
	default:
		twig.SetDebugLevel(twig.DebugOff)
	}
	for _, st := range pr.sites {
		key := st.Key
		switch st.Kind {
		case 'f':
			e.AddFilter(key, func(v interface{}, a ...interface{}) (interface{}, error) {
				if err := pl.hit(key); err != nil {
					if pl.value {
						return v, err
					}
					return nil, err
				}
				return v, nil
			})
		case 'g':
			e.AddFunction(key, func(a ...interface{}) (interface{}, error) {
				var v interface{}
				if len(a) > 0 {
					v = a[0]
				}
				if err := pl.hit(key); err != nil {
					if pl.value {
						return v, err
					}
					return nil, err
				}
				return v, nil
			})
		case 't', 'u':
			truth := st.Kind == 't'
			e.AddTest(key, func(v interface{}, a ...interface{}) (bool, error) {
				if err := pl.hit(key); err != nil {
					if pl.value {
						return true, err
					}
					return false, err
				}
				return truth, nil
			})
		}
	}
	if pr.pos.spless {
		e.AddFilter("spaceless", func(v interface{}, a ...interface{}) (interface{}, error) {
			if err := pl.hit("F:spaceless"); err != nil {
				if pl.value {
					return v, err
				}
				return nil, err
			}
			return v, nil
		})
	}
	served := map[string]string{"broken": brokenSource}
	for n, s := range src {
		if strings.HasPrefix(s, "API-MACRO|") {
			continue
		}
		served[n] = s
	}
	h := &hloader{src: served, pl: pl}
	empty := func() twig.Loader { return twig.NewArrayLoader(map[string]string{}) }
	switch variant {
	case "afterempty":
		e.RegisterLoader(empty())
		e.RegisterLoader(h)
	case "beforeempty":
		e.RegisterLoader(h)
		e.RegisterLoader(empty())
	case "chain":
		e.RegisterLoader(twig.NewChainLoader([]twig.Loader{h}))
	case "chainafterempty":
		e.RegisterLoader(twig.NewChainLoader([]twig.Loader{empty(), h}))
	default:
		e.RegisterLoader(h)
	}
	for _, n := range pr.names {
		s := src[n]
		if !strings.HasPrefix(s, "API-MACRO|") {
			continue
		}
		// "API-MACRO|name|param|text": a library with one macro whose body is a single text node
		parts := strings.SplitN(s, "|", 4)
		macro := twig.NewMacroNode(parts[1], []string{parts[2]}, nil, []twig.Node{twig.NewTextNode(parts[3], 1)}, 1)
		root := twig.NewRootNode([]twig.Node{macro}, 1)
		e.RegisterTemplate(n, e.NewTemplate(n, "", root))
	}
	switch mode {
	case "W", "WD":
		var b bytes.Buffer
		res.err = e.RenderTo(&b, pr.top, ctxVars)
		res.out = b.String()
	case "T":
		t, err := e.Load(pr.top)
		if err != nil {
			return result{"", err}
		}
		res.out, res.err = t.Render(ctxVars)
	default:
		res.out, res.err = e.Render(pr.top, ctxVars)
	}
	return res
}

func newPlan(arms []arm, value bool) *plan {
	return &plan{arms: arms, value: value, counts: map[string]int{}}
}

// baseline is the fault-free run: which sites are invoked how often, and in which order.
type baseline struct {
	ok     bool
	out    string
	err    error
	counts map[string]int
	order  []string
	keys   []string // invoked sites, sorted
}

func computeBaseline(pr *program) (b baseline) {
	defer func() {
		if r := recover(); r != nil {
			b = baseline{err: fmt.Errorf("panic: %v", r)}
		}
	}()
	pl := newPlan(nil, false)
	pl.record = true
	res := run(pr, pr.sources(nil, false), "R", "solo", pl)
	b = baseline{ok: res.err == nil, out: res.out, err: res.err, counts: pl.counts, order: pl.order}
	for k := range pl.counts {
		b.keys = append(b.keys, k)
	}
	sort.Strings(b.keys)
	return b
}

// ---------------------------------------------------------------------------------------------
// the cases

type detail struct {
	Program   string            `json:"program"`
	Templates map[string]string `json:"templates"`
	Top       string            `json:"render"`
	Mode      string            `json:"mode"`
	Loaders   string            `json:"loaders"`
	Fault     string            `json:"fault"`
	Output    string            `json:"observed_output"`
	Err       string            `json:"observed_error"`
}

func errText(err error) string {
	if err == nil {
		return "<nil>"
	}
	s := err.Error()
	if len(s) > 300 {
		s = s[:300] + "…"
	}
	return s
}

func siteKind(key string) string {
	switch key[0] {
	case 'f':
		return "filter"
	case 'g':
		return "function"
	case 't', 'u':
		return "test"
	case 'L':
		return "loader"
	case 'F':
		return "spaceless-filter"
	case 'T':
		return "template-name"
	case 'M':
		return "macro-name"
	}
	return "?"
}

// faultCase: the arms fail; whichever fires first must be reachable through the returned error.
func faultCase(pr *program, mode, variant string, arms []arm, value bool, faultDesc string) *vlib.Outcome {
	src := pr.sources(nil, false)
	pl := newPlan(arms, value)
	res := run(pr, src, mode, variant, pl)
	o := &vlib.Outcome{Counters: map[string]int64{"renders": 1}}
	kind := siteKind(arms[0].Site)
	if len(arms) > 1 {
		kind = "pair"
	}
	if len(pl.fired) == 0 {
		// the armed invocation did not happen (possible only if the number of invocations differs
		// from the fault-free run); nothing to demand
		o.Class = pr.pos.group + "/" + kind + "/fault-not-reached"
		o.Counters["faults_not_reached"] = 1
		if res.err != nil && res.out != "" && !isWriterMode(mode) {
			o.Violation = fmt.Sprintf("%s: Render returned an error together with output %q (err=%s)", pr.id, res.out, errText(res.err))
		}
		return o
	}
	o.Nontrivial = true
	first := pl.fired[0]
	var viol string
	var as *injected
	switch {
	case res.err == nil:
		viol = fmt.Sprintf("the failure %q was swallowed: err == nil, output %q", first.Error(), res.out)
		o.Class = pr.pos.group + "/" + kind + "/swallowed"
	case !errors.Is(res.err, first):
		viol = fmt.Sprintf("the returned error does not wrap the cause %q (errors.Is false): %s", first.Error(), errText(res.err))
		o.Class = pr.pos.group + "/" + kind + "/cause-lost"
	case !errors.As(res.err, &as) || (len(arms) == 1 && as != first):
		viol = fmt.Sprintf("errors.As does not find the injected error %q in: %s", first.Error(), errText(res.err))
		o.Class = pr.pos.group + "/" + kind + "/as-lost"
	case res.out != "" && !isWriterMode(mode):
		viol = fmt.Sprintf("Render returned the error %s together with non-empty output %q", errText(res.err), res.out)
		o.Class = pr.pos.group + "/" + kind + "/error-with-output"
	default:
		o.Class = pr.pos.group + "/" + kind + "/surfaced"
	}
	if viol != "" {
		o.Violation = fmt.Sprintf("program %s (render %q of %v), mode %s, loaders %s, fault %s: %s", pr.id, pr.top, src, mode, variant, faultDesc, viol)
		o.Detail = detail{pr.id, src, pr.top, mode, variant, faultDesc, res.out, errText(res.err)}
	}
	return o
}

func isWriterMode(m string) bool { return m == "W" || m == "WD" }

// nameCase: one reached name is replaced by one that cannot be resolved (or, for a template name,
// by a template with a syntax error).
func nameCase(pr *program, mode string, st site, repl string, tolerated bool, faultDesc string) *vlib.Outcome {
	src := pr.sources(map[string]string{st.Key: repl}, false)
	pl := newPlan(nil, false)
	res := run(pr, src, mode, "solo", pl)
	o := &vlib.Outcome{Nontrivial: true, Counters: map[string]int64{"renders": 1}}
	kind := siteKind(st.Key)
	var viol string
	if tolerated {
		// `ignore missing` on a template that no loader has: same as the program without the statement.
		// The statement is the only one of its template that produces output in these programs, so the
		// twin is the program whose included template is empty.
		twinSrc := pr.sources(nil, false)
		twinSrc[st.Ref] = ""
		twin := run(pr, twinSrc, mode, "solo", newPlan(nil, false))
		o.Counters["renders"]++
		switch {
		case res.err != nil:
			viol = fmt.Sprintf("`ignore missing` on a missing template failed: %s", errText(res.err))
			o.Class = pr.pos.group + "/" + kind + "/ignore-missing-failed"
		case twin.err != nil || twin.out != res.out:
			viol = fmt.Sprintf("`ignore missing` on a missing template gave %q, the program with an empty template gives %q (err=%s)", res.out, twin.out, errText(twin.err))
			o.Class = pr.pos.group + "/" + kind + "/ignore-missing-differs"
		default:
			o.Class = pr.pos.group + "/" + kind + "/ignore-missing-empty"
		}
	} else {
		switch {
		case res.err == nil:
			viol = fmt.Sprintf("the unresolvable name %q was swallowed: err == nil, output %q", repl, res.out)
			o.Class = pr.pos.group + "/" + kind + "/swallowed"
		case res.out != "" && !isWriterMode(mode):
			viol = fmt.Sprintf("Render returned the error %s together with non-empty output %q", errText(res.err), res.out)
			o.Class = pr.pos.group + "/" + kind + "/error-with-output"
		case repl == "zznone" && !errors.Is(res.err, twig.ErrTemplateNotFound):
			viol = fmt.Sprintf("the error for a template no loader has does not match ErrTemplateNotFound: %s", errText(res.err))
			o.Class = pr.pos.group + "/" + kind + "/cause-lost"
		default:
			o.Class = pr.pos.group + "/" + kind + "/" + repl + "-surfaced"
		}
	}
	if viol != "" {
		o.Violation = fmt.Sprintf("program %s (render %q of %v), mode %s, %s: %s", pr.id, pr.top, src, mode, faultDesc, viol)
		o.Detail = detail{pr.id, src, pr.top, mode, "solo", faultDesc, res.out, errText(res.err)}
	}
	return o
}

// toleranceCase: undefined variables and attributes print as empty — the program renders like its
// twin without the tolerated statements.
func toleranceCase(pr *program, mode string) *vlib.Outcome {
	src := pr.sources(nil, false)
	res := run(pr, src, mode, "solo", newPlan(nil, false))
	twin := run(pr, pr.sources(nil, true), mode, "solo", newPlan(nil, false))
	o := &vlib.Outcome{Nontrivial: true, Counters: map[string]int64{"renders": 2}}
	var viol string
	switch {
	case res.err != nil:
		viol = fmt.Sprintf("an undefined variable/attribute made the render fail: %s", errText(res.err))
		o.Class = "tolerance/failed"
	case twin.err != nil || twin.out != res.out:
		viol = fmt.Sprintf("output %q differs from the program without the undefined prints: %q (err=%s)", res.out, twin.out, errText(twin.err))
		o.Class = "tolerance/differs"
	default:
		o.Class = "tolerance/empty"
	}
	if viol != "" {
		o.Violation = fmt.Sprintf("program %s (render %q of %v), mode %s: %s", pr.id, pr.top, src, mode, viol)
		o.Detail = detail{pr.id, src, pr.top, mode, "solo", "none (tolerance)", res.out, errText(res.err)}
	}
	return o
}

// baseCase: the fault-free render itself must not return output together with an error.
func baseCase(pr *program, mode string) *vlib.Outcome {
	src := pr.sources(nil, false)
	res := run(pr, src, mode, "solo", newPlan(nil, false))
	o := &vlib.Outcome{Counters: map[string]int64{"renders": 1}}
	if res.err != nil {
		o.Class = "baseline/fails"
		o.Counters["baseline_failures"] = 1
		if res.out != "" && !isWriterMode(mode) {
			o.Violation = fmt.Sprintf("program %s, mode %s: Render returned the error %s together with output %q", pr.id, mode, errText(res.err), res.out)
			o.Detail = detail{pr.id, src, pr.top, mode, "solo", "none", res.out, errText(res.err)}
		}
	} else {
		o.Class = "baseline/ok"
	}
	return o
}

func main() {
	twig.SetDebugWriter(io.Discard)
	if os.Getenv("C17_DUMP") != "" {
		for _, pr := range append(allPrograms(), nestedPrograms(false)...) {
			b := computeBaseline(pr)
			n := 0
			for _, c := range b.counts {
				n += c
			}
			fmt.Printf("%-40s K=%-3d out=%q err=%s\n    %v\n", pr.id, n, b.out, errText(b.err), pr.sources(nil, false))
		}
		return
	}
	vlib.Main(vlib.Spec{
		ID:    "C17",
		Level: "fault_enumeration",
		Rule: "programs = every structural position (if/for/set/do/block/extends/parent()/include/macro/import/apply/spaceless/API-built macro text, " +
			"nested and in loops) × every expression form with harness filters, functions and tests, all templates from a harness loader; each program is run " +
			"fault-free to count the invocations of every call site, then once per (site, n) with exactly the n-th invocation failing with a fresh sentinel, " +
			"in every render mode and for both result flavours; loader invocations additionally under every loader arrangement; every reached callback, macro and " +
			"template name is replaced once by an unresolvable one; thorough adds every pair of armed invocations. Non-trivial = the armed invocation really happened " +
			"(or the renamed site is reached in the fault-free run)",
		Assumptions: []string{
			"positions and expression forms outside the listed corpus are not explored; at most two failures per render",
			"a loader that fails while a LATER loader has the template is not generated (whether the later loader may serve it is not determined by the statement)",
			"a name that is never reached (dead branch, short-circuited operand) is not renamed: whether it must be resolved is not determined by the statement",
			"for RenderTo only the returned error is checked (partial output may already have been written to the caller's writer)",
			"sandboxed includes and security-policy violations are outside this property",
		},
		QuickDeadline:    150,
		ThoroughDeadline: 840,
		Run:              runAll,
	})
}

func runAll(t *vlib.T) {
	progs := append(allPrograms(), nestedPrograms(t.Thorough())...)
	bases := make([]baseline, len(progs))
	for i, pr := range progs {
		bases[i] = computeBaseline(pr)
	}
	quickModes := []string{"R", "D", "W", "T"}
	useModes := quickModes
	if t.Thorough() {
		useModes = modes
	}
	// in the quick tier the depth-2 programs run in the plain and the debug mode only
	skip := func(pr *program, mode string) bool {
		return pr.nested && !t.Thorough() && mode != "R" && mode != "D"
	}
	note := func(s string) { t.Note(s) }
	nBaseFail := 0
	for i, pr := range progs {
		if !bases[i].ok {
			nBaseFail++
			if nBaseFail <= 5 {
				note(fmt.Sprintf("fault-free render of program %s fails (%s); no faults are injected into it", pr.id, errText(bases[i].err)))
			}
		}
	}
	if nBaseFail > 0 {
		note(fmt.Sprintf("%d of %d programs fail fault-free", nBaseFail, len(progs)))
	}

	// phase 0: baselines in every mode
	for _, mode := range useModes {
		for _, pr := range progs {
			pr, mode := pr, mode
			if skip(pr, mode) {
				continue
			}
			t.Case(pr.id+"|"+mode+"|base", func() *vlib.Outcome { return baseCase(pr, mode) })
		}
	}
	// phase 1: single faults, mode by mode (plain mode first)
	for _, mode := range useModes {
		for i, pr := range progs {
			b := bases[i]
			if !b.ok || skip(pr, mode) {
				continue
			}
			for _, key := range b.keys {
				variants := []string{"solo"}
				if key[0] == 'L' {
					variants = loaderVariants
					if pr.nested && !t.Thorough() {
						variants = []string{"solo", "beforeempty"}
					}
				}
				for n := 1; n <= b.counts[key]; n++ {
					for _, value := range []bool{false, true} {
						if value && key[0] == 'L' {
							continue // a loader has no value to return along with its error
						}
						for _, variant := range variants {
							pr, mode, key, n, value, variant := pr, mode, key, n, value, variant
							fl := "nil"
							if value {
								fl = "value"
							}
							desc := fmt.Sprintf("%s#%d/%s", key, n, fl)
							t.Case(pr.id+"|"+mode+"|"+variant+"|"+desc, func() *vlib.Outcome {
								return faultCase(pr, mode, variant, []arm{{key, n}}, value, "invocation "+strconv.Itoa(n)+" of "+siteKind(key)+" "+key+" fails, returning ("+fl+", err)")
							})
						}
					}
				}
			}
		}
	}
	// phase 2: name faults and tolerances
	nameModes := []string{"R", "D"}
	if t.Thorough() {
		nameModes = []string{"R", "D", "V", "W", "T"}
	}
	for _, mode := range nameModes {
		for i, pr := range progs {
			b := bases[i]
			if !b.ok {
				continue
			}
			if pr.hasTol {
				pr, mode := pr, mode
				t.Case(pr.id+"|"+mode+"|tolerance", func() *vlib.Outcome { return toleranceCase(pr, mode) })
			}
			for _, st := range pr.sites {
				st := st
				pr, mode := pr, mode
				switch st.Kind {
				case 'f', 'g', 't', 'u':
					if b.counts[st.Key] == 0 {
						continue // never reached
					}
					t.Case(pr.id+"|"+mode+"|name:"+st.Key, func() *vlib.Outcome {
						return nameCase(pr, mode, st, "zz"+st.Key, false, "unknown "+siteKind(st.Key)+" name at site "+st.Key)
					})
				case 'M':
					t.Case(pr.id+"|"+mode+"|name:"+st.Key, func() *vlib.Outcome {
						return nameCase(pr, mode, st, "zzmacro", false, "unknown macro name at site "+st.Key+" ("+st.Ref+")")
					})
				case 'T':
					if b.counts["L:"+st.Ref] == 0 && !strings.HasPrefix(pr.raw[st.Ref], "API-MACRO|") {
						continue // the reference is never followed
					}
					ignore := st.Ignore
					t.Case(pr.id+"|"+mode+"|name:"+st.Key+":missing", func() *vlib.Outcome {
						return nameCase(pr, mode, st, "zznone", ignore, "template name at site "+st.Key+" ("+st.Ref+") replaced by one no loader has")
					})
					t.Case(pr.id+"|"+mode+"|name:"+st.Key+":broken", func() *vlib.Outcome {
						return nameCase(pr, mode, st, "broken", false, "template name at site "+st.Key+" ("+st.Ref+") replaced by a template with a syntax error")
					})
				}
			}
		}
	}
	// phase 3 (thorough): every pair of armed invocations; the one that fires first must win
	if t.Thorough() {
		for _, mode := range []string{"R", "D"} {
			for i, pr := range progs {
				b := bases[i]
				if !b.ok {
					continue
				}
				var all []arm
				for _, key := range b.keys {
					for n := 1; n <= b.counts[key]; n++ {
						all = append(all, arm{key, n})
					}
				}
				if len(all) > 40 {
					all = all[:40]
				}
				for x := 0; x < len(all); x++ {
					for y := x + 1; y < len(all); y++ {
						pr, mode, a1, a2 := pr, mode, all[x], all[y]
						desc := fmt.Sprintf("pair:%s#%d+%s#%d", a1.Site, a1.Nth, a2.Site, a2.Nth)
						t.Case(pr.id+"|"+mode+"|solo|"+desc, func() *vlib.Outcome {
							return faultCase(pr, mode, "solo", []arm{a1, a2}, false, desc+" both armed")
						})
					}
				}
			}
		}
	}
}
