package main

// Family `n` - numbers that are not finite, and extreme count / precision / length arguments.
//
// Added after the independent seeded change C05-K (number_format assembling its result in a
// pre-sized strings.Builder: reads the fraction part unconditionally and grows by an unchecked
// `decimals`) was missed: the grid withholds NaN / +-Inf (its shapes marked `huge`) as SUBJECT of the
// filters whose arguments drive a result size (number_format, round, format, date), has no
// non-finite number spelled as a string, and its most negative small integer is -3.
//
// Space: every filter the engine registers (same name list as the grid) x 19 subjects (NaN, +Inf,
// -Inf as float64 and float32; the strings 'NaN', 'inf', '-Inf', '+Infinity', '1e999', '-1e999';
// seven finite ones) x 9 call forms x 7 integer arguments d (-100, -1, 0, 1, 2, 3, 1 000 000), the
// argument given as a context value (int) and written as a literal in the source. An argument of
// 1 000 000 costs at most a result of about a megabyte; nothing here drives a size beyond that.
//
// Oracle: the property's - Render returns (output | error), no panic, no hang; canary afterwards.

import (
	"fmt"
	"math"

	"verif/lib/vlib"
)

type numSubject struct {
	name      string
	v         interface{}
	nonFinite bool
}

var numSubjects = []numSubject{
	{"nan", math.NaN(), true}, {"inf", math.Inf(1), true}, {"ninf", math.Inf(-1), true},
	{"nan32", float32(math.NaN()), true}, {"inf32", float32(math.Inf(1)), true}, {"ninf32", float32(math.Inf(-1)), true},
	{"sNaN", "NaN", true}, {"sinf", "inf", true}, {"sNInf", "-Inf", true}, {"sPInfinity", "+Infinity", true},
	{"s1e999", "1e999", true}, {"sm1e999", "-1e999", true},
	{"f", 1234.5678, false}, {"fneg", -1234.5, false}, {"i", 5, false}, {"i0", 0, false},
	{"snum", "12.5", false}, {"s", "héy", false}, {"l", []interface{}{3, 1, 2}, false},
}

var numArgs = []int{-100, -1, 0, 1, 2, 3, 1000000}

// call forms; %s = filter name, %v = the integer argument (the context variable `d` or a literal)
var numForms = []struct {
	name, src string
	arg       bool
}{
	{"0", "{{ v|%s }}", false},
	{"d", "{{ v|%s(%v) }}", true},
	{"dss", "{{ v|%s(%v, ',', ' ') }}", true},
	{"dd", "{{ v|%s(%v, %[2]v) }}", true},
	{"1d", "{{ v|%s(1, %v) }}", true},
	{"12d", "{{ v|%s(1, 2, %v) }}", true},
	{"sd", "{{ v|%s('%%.3f', %v) }}", true},
	{"apply", "{%% apply %s(%v) %%}{{ v }}{%% endapply %%}", true},
	{"chain", "{{ v|%s(%v)|%[1]s(%[2]v) }}", true},
}

func runNum(t *vlib.T) {
	for _, f := range filters {
		for _, fm := range numForms {
			for si := range numSubjects {
				s := &numSubjects[si]
				if t.Stopped() {
					return
				}
				// (1) the argument as a context value: one case, one render per d
				key := "n|" + f + "|" + fm.name + "|" + s.name
				src := fmt.Sprintf(fm.src, f, "d")
				if !fm.arg {
					src = fmt.Sprintf(fm.src, f)
				}
				if t.Owns(key) {
					f, src := f, src
					tcase(t, key, func() *vlib.Outcome {
						var ctxs []map[string]interface{}
						for _, d := range numArgs {
							ctxs = append(ctxs, map[string]interface{}{"v": s.v, "d": d})
							if !fm.arg {
								break
							}
						}
						o := runSource("n", src, ctxs, s.nonFinite || fm.arg, func() interface{} {
							return map[string]interface{}{"template": src, "v": fmt.Sprintf("%s = %#v", s.name, s.v), "d": numArgs, "filter": f}
						}, nil)
						if o.Counters["renders"] == 0 {
							o.Nontrivial = false
						}
						return o
					})
				}
				if !fm.arg {
					continue
				}
				// (2) the argument written in the source
				for _, d := range numArgs {
					key := fmt.Sprintf("n|%s|%s|%s|lit%d", f, fm.name, s.name, d)
					if !t.Owns(key) {
						continue
					}
					src := fmt.Sprintf(fm.src, f, d)
					tcase(t, key, func() *vlib.Outcome {
						o := runSource("n", src, []map[string]interface{}{{"v": s.v}}, true, func() interface{} {
							return map[string]interface{}{"template": src, "v": fmt.Sprintf("%s = %#v", s.name, s.v)}
						}, nil)
						if o.Counters["renders"] == 0 {
							o.Nontrivial = false
						}
						return o
					})
				}
			}
		}
	}
}
