package main

import (
	"strings"

	"verif/lib/vlib"
)

// ---- alphabets ----

var delims = []string{"{{", "}}", "{%", "%}", "{#", "#}", "{{-", "-}}", "{%-", "-%}", "{#-", "-#}"}

// every tag keyword the parser dispatches on
var openTags = []string{"if", "for", "block", "extends", "include", "set", "do", "macro", "import", "from", "spaceless", "verbatim", "apply"}
var closeTags = []string{"endif", "endfor", "endblock", "endmacro", "endspaceless", "endverbatim", "endapply", "endset", "else", "elseif"}

// lexemes that occur inside tags
var innerLex = []string{"x", "1", "'s'", "(", ")", "[", "]", "{", "}", "|", ".", ",", ":", "?", "=", "-", "~", "..", "==", "*",
	"is", "not", "in", "and", "with", "only", "as", "import", "ignore", "missing", "sandboxed", "_self", "upper", "defined", "m"}

// lexemes of the expression sub-language
var exprLex = []string{"x", "1", "0", "'s'", "(", ")", "[", "]", "{", "}", "|", ".", ",", ":", "?", "=", "-", "+", "*", "/", "%", "~", "..", "==", "<", "??", "^",
	"is", "not", "in", "and", "or", "upper", "defined", "range", "_self", "b-and", "matches", "starts"}

// alphabet of the free sequences: everything
var freeLex = func() []string {
	var a []string
	a = append(a, delims...)
	a = append(a, openTags...)
	a = append(a, closeTags...)
	a = append(a, innerLex[:27]...) // up to "as"
	return a
}()

// delimiter-heavy alphabet for the two-tokenizer comparison (unspaced sequences, padded and not)
var delimLex = append(append([]string{}, delims...), "x", "if", "endif", "'s'", " ", "\n", "-", "{", "}", "%", "#", "verbatim", "endverbatim")

// pad selects the second ("optimized") tokenizer, used for sources longer than 4096 bytes
var pad = strings.Repeat("p", 4100) + "\n"

// contexts for lexeme sources
var lexCtxs = []map[string]interface{}{
	nil,
	{"x": []interface{}{1, "s", map[string]interface{}{"s": 1}}, "m": map[int]string{1: "s"}},
}

func hasOpener(s string) bool {
	return strings.Contains(s, "{{") || strings.Contains(s, "{%") || strings.Contains(s, "{#")
}

// seqs calls f with every sequence of exactly n letters of alpha, in lexicographic index order.
func seqs(alpha []string, n int, f func(parts []string)) {
	parts := make([]string, n)
	var rec func(i int)
	rec = func(i int) {
		if i == n {
			f(parts)
			return
		}
		for _, a := range alpha {
			parts[i] = a
			rec(i + 1)
		}
	}
	rec(0)
}

func lexCase(t *vlib.T, fam, src string) {
	if t.Stopped() {
		return
	}
	key := fam + "|" + src
	tcase(t, key, func() *vlib.Outcome {
		ctxs := lexCtxs[:1]
		if strings.Contains(src, "x") || strings.Contains(src, "m") {
			ctxs = lexCtxs
		}
		return runSource(fam, src, ctxs, hasOpener(src), nil, nil)
	})
	if fam[len(fam)-1] == 'P' { // padded twin
		key = fam + "+pad|" + src
		tcase(t, key, func() *vlib.Outcome {
			return runSource(fam+"+pad", pad+src, lexCtxs[:1], hasOpener(src), nil, nil)
		})
	}
}

// core sub-alphabets used one level deeper than the full ones
var innerCore = []string{"x", "1", "'s'", "(", ")", "[", "]", "{", "}", "|", ".", ",", ":", "=", "in", "with", "only", "as", "import", "is"}
var exprCore = []string{"x", "1", "'s'", "(", ")", "[", "]", "{", "}", "|", ".", ",", ":", "?", "-", "+", "~", "..", "==", "is", "not", "in", "and", "upper"}
var delimCore = append(append([]string{}, delims...), "x", " ", "-", "{", "}", "%")

func runLex(t *vlib.T) {
	// bounds per tier: maximal number of lexemes
	free, dlFull, dlCore, tagFull, tagCore, exprFull, exprCoreN := 3, 3, 4, 2, 3, 3, 4
	if t.Thorough() {
		free, dlFull, dlCore, tagFull, tagCore, exprFull, exprCoreN = 4, 4, 5, 3, 4, 4, 5
	}
	var sb strings.Builder
	join := func(parts []string, sep string) string {
		sb.Reset()
		for i, p := range parts {
			if i > 0 {
				sb.WriteString(sep)
			}
			sb.WriteString(p)
		}
		return sb.String()
	}
	isOpener := map[string]bool{"{{": true, "{%": true, "{#": true, "{{-": true, "{%-": true, "{#-": true}
	allTags := append(append([]string{}, openTags...), closeTags...)
	tagCases := func(tag string, p []string) {
		body := join(p, " ")
		head := "{% " + tag
		if body != "" {
			head += " " + body
		}
		lexCase(t, "tu", head)
		lexCase(t, "tc", head+" %}")
		if end := endOf(tag); end != "" {
			lexCase(t, "te", head+" %}x{% "+end+" %}")
		}
	}
	// the families are interleaved by length so that a deadline cuts all of them at the same depth
	for n := 0; n <= 5 && !t.Stopped(); n++ {
		// (1) free sequences over the whole alphabet, spaced ("fs") and unspaced ("fu"); from three
		// lexemes on only sequences with at least one opening delimiter (the others are literal text,
		// which lengths 0..2 cover)
		if n <= free {
			seqs(freeLex, n, func(p []string) {
				if n >= 3 {
					op := false
					for _, l := range p {
						op = op || isOpener[l]
					}
					if !op {
						return
					}
				}
				lexCase(t, "fs", join(p, " "))
				if n >= 2 {
					lexCase(t, "fu", join(p, ""))
				}
			})
		}
		// (2) delimiter-heavy unspaced sequences, plain and behind the pad (both tokenizers)
		if n >= 1 && n <= dlFull {
			seqs(delimLex, n, func(p []string) { lexCase(t, "dP", join(p, "")) })
		} else if n >= 1 && n <= dlCore {
			seqs(delimCore, n, func(p []string) { lexCase(t, "dP", join(p, "")) })
		}
		// (3) {% tag <n inner lexemes> [%} [x {% endtag %}]]
		if n <= tagFull {
			for _, tag := range allTags {
				seqs(innerLex, n, func(p []string) { tagCases(tag, p) })
			}
		} else if n <= tagCore {
			for _, tag := range allTags {
				seqs(innerCore, n, func(p []string) { tagCases(tag, p) })
			}
		}
		// (4) {{ <n expression lexemes> }} closed and unclosed
		if n <= exprFull {
			seqs(exprLex, n, func(p []string) {
				body := join(p, " ")
				lexCase(t, "ec", "{{ "+body+" }}")
				lexCase(t, "eu", "{{ "+body)
			})
		} else if n <= exprCoreN {
			seqs(exprCore, n, func(p []string) { lexCase(t, "ec", "{{ "+join(p, " ")+" }}") })
		}
	}
}

func endOf(tag string) string {
	switch tag {
	case "if", "for", "block", "macro", "spaceless", "verbatim", "apply", "set":
		return "end" + tag
	case "else", "elseif":
		return "endif"
	}
	return ""
}
