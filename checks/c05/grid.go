package main

import (
	"fmt"
	"math"
	"os"
	"regexp"
	"sort"
	"strings"
	"time"

	"github.com/semihalev/twig"

	"verif/lib/vlib"
)

// ---- Go value shapes ----

type S struct {
	A int
	B string
}

func (s S) String() string { return "S!" } // value receiver, cannot panic on a valid S

type Str string
type Num int

type Inner struct{ P int }
type Emb struct { // promoted field behind a nil embedded pointer
	*Inner
	Q int
}
type Hid struct {
	A int
	b string // unexported
	s *S
}
type Nils struct { // every field nil
	N *int
	I interface{}
	M map[string]int
	L []string
	F func() string
	E error
	S *S
}
type Meth struct{ V int }

func (m Meth) Get() int              { return m.V }
func (m Meth) Greet(n string) string { return "hi " + n }
func (m Meth) Two() (int, error)     { return 1, nil }
func (m Meth) Void()                 {}
func (m *Meth) Ptr() string {
	if m == nil {
		return "nilrecv"
	}
	return "ptr"
}
func (m Meth) Variadic(a ...int) int { return len(a) }

type shape struct {
	name string
	v    interface{}
	huge bool // magnitude that must not drive a result size
	// scalar: plain untyped scalar (the ordinary test-suite case); everything else counts as a
	// shape that reaches the reflection code
	scalar bool
}

var shapes = func() []shape {
	n := 5
	var np *S
	var nm map[string]int
	var ns []int
	var nf func()
	var nip *int
	pn := &n
	ppn := &pn
	var ie interface{} = S{3, "z"}
	return []shape{
		{"nil", nil, false, true}, {"true", true, false, true}, {"false", false, false, true},
		{"i0", 0, false, true}, {"i1", 1, false, true}, {"im3", -3, false, true}, {"i2", 2, false, true},
		{"i8", int8(-8), false, false}, {"i16", int16(16), false, false}, {"i32", int32(32), false, false}, {"i64", int64(7), false, false},
		{"u", uint(4), false, false}, {"u8", uint8(3), false, false}, {"u16", uint16(6), false, false}, {"u32", uint32(9), false, false}, {"u64", uint64(5), false, false}, {"uptr", uintptr(2), false, false},
		{"imax", math.MaxInt64, true, false}, {"imin", math.MinInt64, true, false}, {"umax", uint64(math.MaxUint64), true, false},
		{"f", 1.5, false, true}, {"f32", float32(2.5), false, false}, {"fm0", math.Copysign(0, -1), false, false}, {"nan", math.NaN(), true, false}, {"inf", math.Inf(1), true, false}, {"ninf", math.Inf(-1), true, false},
		{"c128", complex(1, 2), false, false},
		{"s0", "", false, true}, {"s", "héy", false, true}, {"snum", "12", false, true}, {"sbad", "a\xffb\x00", false, false}, {"sfmt", "%d %s %v %[3]*.[2]*[1]f %!", false, false}, {"sre", "/(a/", false, false}, {"named", Str("q"), false, false}, {"num", Num(3), false, false},
		{"bytes", []byte("xy"), false, false}, {"rune", 'r', false, false},
		{"l0", []interface{}{}, false, false}, {"l", []interface{}{3, "a", nil}, false, false}, {"ll", []interface{}{[]interface{}{1}, 2}, false, false}, {"lm", []interface{}{map[string]interface{}{"k": 1}}, false, false},
		{"ls", []string{"b", "a"}, false, false}, {"li", []int{2, 1}, false, false}, {"lf", []float64{1.5, math.NaN()}, false, false}, {"lst", []S{{1, "x"}}, false, false}, {"lp", []*S{nil, {2, "y"}}, false, false}, {"lmap", []map[string]interface{}{{"k": 1}}, false, false},
		{"arr", [2]int{1, 2}, false, false}, {"arr0", [0]string{}, false, false}, {"parr", &[2]int{1, 2}, false, false},
		{"m0", map[string]interface{}{}, false, false}, {"m", map[string]interface{}{"k": 1, "j": "x", "a": nil}, false, false}, {"mm", map[string]interface{}{"a": map[string]interface{}{"b": 1}}, false, false},
		{"msi", map[string]int{"a": 1}, false, false}, {"mss", map[string]string{"a": "b"}, false, false}, {"mis", map[int]string{1: "a"}, false, false}, {"mii", map[interface{}]interface{}{1: "a", "k": 2, nil: 3}, false, false},
		{"mst", map[S]int{{1, "x"}: 1}, false, false}, {"mfs", map[float64]string{1.5: "a"}, false, false}, {"mbs", map[bool][]int{true: {1}}, false, false}, {"mnamed", map[Str]Str{"a": "b"}, false, false}, {"mptr", map[*S]int{nil: 1}, false, false},
		{"st", S{1, "x"}, false, false}, {"pst", &S{2, "y"}, false, false}, {"npst", np, false, false}, {"ist", &ie, false, false},
		{"emb", Emb{nil, 1}, false, false}, {"pemb", &Emb{nil, 1}, false, false}, {"emb2", Emb{&Inner{7}, 1}, false, false}, {"hid", Hid{1, "h", nil}, false, false}, {"nils", Nils{}, false, false}, {"pnils", &Nils{}, false, false},
		{"meth", Meth{1}, false, false}, {"pmeth", &Meth{2}, false, false}, {"npmeth", (*Meth)(nil), false, false}, {"anon", struct{ A, a int }{1, 2}, false, false}, {"empty", struct{}{}, false, false},
		{"pi", pn, false, false}, {"ppi", ppn, false, false}, {"npi", nip, false, false}, {"nm", nm, false, false}, {"ns", ns, false, false},
		{"t", time.Unix(0, 0).UTC(), false, false}, {"pt", &time.Time{}, false, false}, {"dur", time.Second, false, false}, {"err", fmt.Errorf("e"), false, false},
		{"fn", func() {}, false, false}, {"fn1", func(int) string { return "r" }, false, false}, {"fnv", func(...interface{}) (interface{}, error) { return 1, nil }, false, false}, {"nfn", nf, false, false},
		{"ch", make(chan int), false, false}, {"nch", (chan int)(nil), false, false},
		// lists above the 50-element threshold of the `in` fast path, holding unhashable elements
		{"big", bigList(60, []interface{}{1}), false, false}, {"bigm", bigList(51, map[string]interface{}{"k": 1}), false, false}, {"bigplain", bigList(64, 3), false, false},
		{"bigt", func() [][]int {
			r := make([][]int, 60)
			for i := range r {
				r[i] = []int{i}
			}
			return r
		}(), false, false},
		// numbers that pass a sign / zero test as floats and become 0, negative or garbage once they
		// are truncated to an integer: fractions strictly between 0 and 1 (also as float32 and as
		// numeric strings), magnitudes beyond every integer type, the first float beyond int64
		{"f05", 0.5, false, true}, {"f0999", 0.999, false, true}, {"fm05", -0.5, false, true}, {"f32f", float32(0.9), false, false},
		{"sf05", "0.5", false, true}, {"se300", "1e300", true, true},
		{"e300", 1e300, true, false}, {"me300", -1e300, true, false}, {"tiny", 5e-324, false, false}, {"f2p63", 9223372036854775808.0, true, false},
		// values of a comparable TYPE whose contents cannot be hashed or compared (a struct / array
		// with an interface field that holds a list), alone and inside lists above the 50-element
		// threshold; the whole space of these is family `gh` (hash.go), these representatives meet
		// every construct of the grid
		{"cellL", Cell{"tags", []string{"a", "b"}}, false, false}, {"arrL", [2]interface{}{"pair", []int{1, 2}}, false, false},
		{"bigcell", bigList(60, Cell{"tags", []string{"a"}}), false, false},
		{"bigarr", func() []interface{} { r := bigList(51, 3); r[50] = [2]interface{}{"pair", []int{1, 2}}; return r }(), false, false},
		{"bigtcell", func() []Cell {
			r := make([]Cell, 64)
			for i := range r {
				r[i] = Cell{"n", i}
			}
			r[33].Value = map[string]interface{}{"k": "v"}
			return r
		}(), false, false},
	}
}()

// Cell: a comparable struct type (Go accepts it as a map key type); whether a given VALUE can be
// hashed / compared depends on what the interface field holds.
type Cell struct {
	Label string
	Value interface{}
}

func bigList(n int, odd interface{}) []interface{} {
	r := make([]interface{}, n)
	for i := range r {
		r[i] = i
	}
	r[n/2] = odd
	return r
}

// second-argument shapes
var bShapes = []string{"i1", "nil", "s", "l", "m", "im3", "ls", "st", "imax", "imin", "big", "f05", "e300", "sf05", "cellL"}

// first-argument shapes of the quick tier (thorough: all): one representative per kind
var aQuick = []string{"nil", "true", "i1", "im3", "u8", "imax", "f", "nan", "s0", "s", "sbad", "sfmt", "named",
	"l0", "l", "ls", "arr", "m", "msi", "mis", "mii", "st", "npst", "ns", "fn", "big", "bigt",
	"f05", "f0999", "f32f", "sf05", "e300", "inf", "ninf", "cellL", "bigcell", "bigtcell"}
var bQuick = []string{"i1", "nil", "s", "l", "imax", "f05"}

var shapeByName = func() map[string]*shape {
	m := map[string]*shape{}
	for i := range shapes {
		if m[shapes[i].name] != nil {
			panic("duplicate shape " + shapes[i].name)
		}
		m[shapes[i].name] = &shapes[i]
	}
	return m
}()

// ---- constructs ----

type construct struct {
	src      string
	a, b     bool // uses the operands a, b
	sizeArgs bool // operands drive the size of the result: shapes marked huge are skipped
	unknown  bool // built from a name discovered in the engine: the huge integers are withheld
}

// The names the check was written with. They keep their place so that the enumeration order (and
// the meaning of a truncated run) does not change; every further name that the engine under test
// registers in its core extension is appended in sorted order (namesOf), so a filter / function /
// test / word operator added to the engine later is swept with the same call forms and the same
// argument shapes as the others. The last entry of each list does not exist (an error is fine).
var filtersFixed = []string{"default", "escape", "e", "upper", "lower", "trim", "raw", "length", "count", "join", "split", "date", "url_encode", "capitalize", "title", "first", "last", "slice", "reverse", "sort", "keys", "merge", "replace", "striptags", "number_format", "abs", "round", "nl2br", "format", "json_encode", "spaceless", "nosuchfilter"}
var functionsFixed = []string{"range", "date", "random", "max", "min", "dump", "constant", "cycle", "include", "json_encode", "length", "merge", "parent", "block", "attribute", "nosuchfunction"}
var testsFixed = []string{"defined", "empty", "null", "none", "even", "odd", "iterable", "same_as", "divisible_by", "constant", "equalto", "sameas", "starts_with", "ends_with", "matches", "nosuchtest"}
var binopsFixed = []string{"+", "-", "*", "/", "%", "^", "==", "!=", "<", ">", "<=", ">=", "and", "or", "~", "in", "not in", "matches", "starts with", "ends with", "..", "??", "//", "b-and", "is", "<=>"}

var reName = regexp.MustCompile(`^[A-Za-z_][A-Za-z0-9_]*( [A-Za-z_][A-Za-z0-9_]*)*$`)

// namesOf: fixed, then the registered names that are not in it (sorted; only plain identifiers - or
// words separated by one space for operators - so that a name cannot change the shape of the
// generated source). discovered collects the appended ones for the evidence file.
var discovered []string

func namesOf(kind string, fixed []string, registered []string) []string {
	have := map[string]bool{}
	for _, n := range fixed {
		have[n] = true
	}
	sort.Strings(registered)
	out := append([]string{}, fixed...)
	for _, n := range registered {
		if !have[n] && reName.MatchString(n) && len(n) <= 40 {
			have[n] = true
			out = append(out, n)
			discovered = append(discovered, kind+" "+n)
			unknownName[kind+" "+n] = true
		}
	}
	return out
}

// unknownName: names this check has no knowledge about. Whether one of their arguments drives the
// SIZE of the result cannot be known, so the three huge integers (imax, imin, umax) are withheld
// from them (see Exclusions: result sizes); fractions, huge floats, NaN and +-Inf are not an
// acceptable size for anything and are given to them like every other shape.
var unknownName = map[string]bool{}

func hugeInt(s *shape) bool { return s.name == "imax" || s.name == "imin" || s.name == "umax" }

// withheld: is shape s kept away from construct c as (first) argument / subject? Result sizes: the
// shapes marked huge for the constructs whose operands drive a size, the huge integers for names the
// check knows nothing about; and for both, time.Second in the forms that compute with it - `a / 4`
// makes the plain number 250 000 000 out of it (round / number_format would print that many
// decimals, range that many elements), which is a size like 2^63 and not a shape of its own.
func withheld(c *construct, s *shape) bool {
	if c.sizeArgs && s.huge || c.unknown && hugeInt(s) {
		return true
	}
	return (c.sizeArgs || c.unknown) && s.name == "dur" && strings.Contains(c.src, "a / 4")
}

var filters, functions, tests, binops = func() (fi, fu, te, bo []string) {
	core := &twig.CoreExtension{}
	keys := func(m interface{}) []string {
		var ks []string
		switch m := m.(type) {
		case map[string]twig.FilterFunc:
			for k := range m {
				ks = append(ks, k)
			}
		case map[string]twig.FunctionFunc:
			for k := range m {
				ks = append(ks, k)
			}
		case map[string]twig.TestFunc:
			for k := range m {
				ks = append(ks, k)
			}
		case map[string]twig.OperatorFunc:
			for k := range m {
				ks = append(ks, k)
			}
		}
		return ks
	}
	fi = namesOf("filter", filtersFixed, keys(core.GetFilters()))
	fu = namesOf("function", functionsFixed, keys(core.GetFunctions()))
	te = namesOf("test", testsFixed, keys(core.GetTests()))
	bo = namesOf("operator", binopsFixed, keys(core.GetOperators()))
	return
}()

var constructs = func() []construct {
	var cs []construct
	for _, f := range filters {
		size := f == "format" || f == "number_format" || f == "round" || f == "date"
		unk := unknownName["filter "+f]
		cs = append(cs,
			construct{"{{ v|" + f + " }}", false, false, size, unk},
			construct{"{{ v|" + f + "(a) }}", true, false, size, unk},
			construct{"{{ v|" + f + "(a, b) }}", true, true, size, unk},
			construct{"{{ v|" + f + "(a, b, a) }}", true, true, size, unk},
			construct{"{% apply " + f + "(a) %}t{{ v }}{% endapply %}", true, false, size, unk},
			// an argument computed in the template (i1 -> 0.25, u8 -> 0.75, im3 -> -0.75, ...), and
			// every first-argument shape in second place
			construct{"{{ v|" + f + "(a / 4) }}", true, false, size, unk},
			construct{"{{ v|" + f + "(1, a) }}", true, false, size, unk},
		)
	}
	for _, f := range functions {
		size := f == "range" || f == "date" || f == "random"
		unk := unknownName["function "+f]
		cs = append(cs,
			construct{"{{ " + f + "(v) }}", false, false, size, unk},
			construct{"{{ " + f + "(v, a) }}", true, false, size, unk},
			construct{"{{ " + f + "(v, a, b) }}", true, true, size, unk},
			construct{"{{ " + f + "(a, v, b, a) }}", true, true, size, unk},
			construct{"{{ " + f + "(a / 4) }}", true, false, size, unk},
			construct{"{{ " + f + "(v, a / 4) }}", true, false, size, unk},
		)
	}
	for _, f := range functions {
		cs = append(cs, construct{"{{ " + f + "() }}", false, false, false, false})
	}
	for _, f := range tests {
		unk := unknownName["test "+f]
		cs = append(cs,
			construct{"{{ v is " + f + " ? 1 : 0 }}", false, false, false, unk},
			construct{"{{ v is " + f + "(a) ? 1 : 0 }}", true, false, false, unk},
			construct{"{{ v is not " + f + "(a) ? 1 : 0 }}", true, false, false, unk},
			construct{"{{ v is " + f + "(a, b) ? 1 : 0 }}", true, true, false, unk},
			construct{"{{ v is " + f + "(a / 4) ? 1 : 0 }}", true, false, false, unk},
		)
	}
	for _, o := range binops {
		size := o == ".."
		unk := unknownName["operator "+o]
		cs = append(cs,
			construct{"{{ (v " + o + " a) ? 1 : 0 }}", true, false, size, unk},
			construct{"{{ v " + o + " a }}", true, false, size, unk},
			construct{"{% if v " + o + " a %}1{% endif %}", true, false, size, unk},
		)
	}
	for _, s := range []string{
		"{{ v }}", "{{ -v }}", "{{ +v }}", "{{ not v }}", "{{ v ? 1 : 2 }}", "{{ v ?: 2 }}", "{% if v %}1{% endif %}", "{% if not v %}1{% elseif v %}2{% endif %}",
		"{{ v.a }}", "{{ v.A }}", "{{ v.b }}", "{{ v.s }}", "{{ v.P }}", "{{ v.Q }}", "{{ v.Inner }}", "{{ v.Inner.P }}", "{{ v.N }}", "{{ v.I }}", "{{ v.M }}", "{{ v.M.k }}", "{{ v.F }}", "{{ v.E }}", "{{ v.S }}", "{{ v.S.A }}", "{{ v.k }}", "{{ v.V }}",
		"{{ v.String }}", "{{ v.String() }}", "{{ v.Get }}", "{{ v.Get() }}", "{{ v.Greet }}", "{{ v.Greet() }}", "{{ v.Greet('n') }}", "{{ v.Greet(1, 2) }}", "{{ v.Two }}", "{{ v.Void }}", "{{ v.Void() }}", "{{ v.Ptr }}", "{{ v.Ptr() }}", "{{ v.Variadic }}", "{{ v.Variadic(1) }}",
		"{{ v.Unix }}", "{{ v.Error }}", "{{ v.length }}", "{{ v.0 }}", "{{ v.1 }}", "{{ v['k'] }}", "{{ v[0] }}", "{{ v[1] }}", "{{ v[-1] }}", "{{ v[9] }}", "{{ v[1.5] }}", "{{ v[true] }}", "{{ v[null] }}", "{{ v[undefinedvar] }}", "{{ v[[1]] }}", "{{ v[{}] }}",
		"{{ v.a.b }}", "{{ v[0][0] }}", "{{ v[0].k }}", "{{ v.a['b'] }}", "{{ v() }}", "{{ v(1) }}", "{{ v(1, 2) }}", "{{ v.a() }}", "{{ v.k(1) }}",
		"{% for x in v %}{{ x }}{% endfor %}", "{% for k, x in v %}{{ k }}{{ x }}{{ loop.index }}{{ loop.last }}{{ loop.length }}{% else %}e{% endfor %}", "{% for x in v %}{% for y in x %}{{ y }}{% endfor %}{% endfor %}",
		"{% for x in v if x %}{{ x }}{% endfor %}", "{% for x in v|slice(0, 1) %}{{ x }}{% endfor %}", "{% for x in v|keys %}{{ x }}{% endfor %}", "{% for x in v|reverse %}{{ x }}{% endfor %}", "{% for x in v|sort %}{{ x }}{% endfor %}",
		"{% set q = v %}{{ q }}", "{% set q %}{{ v }}{% endset %}{{ q|length }}", "{% do v %}", "{% include v %}", "{% include v ignore missing %}", "{% include [v, 's'] %}", "{% include 's' with v %}", "{% include 's' with v only %}", "{% include 's' with {'x': v} %}",
		"{% extends v %}", "{% import v as mm %}{{ mm.m(1) }}", "{% from v import m %}{{ m(1) }}", "{% import 'lib' as l %}{{ l.m(v) }}", "{% import 'lib' as l %}{{ l.m(v, v, v) }}", "{% import 'lib' as l %}{{ l.nosuch(v) }}", "{% import 'lib' as l %}{{ l[v] }}",
		"{{ [v, v] }}", "{{ [v]|join(',') }}", "{{ [v, 1]|sort|join }}", "{{ [1, v]|first }}", "{{ {'k': v}|length }}", "{{ {'k': v}.k }}", "{{ {(v): 1}|length }}", "{{ {(v): 1}|keys|join }}", "{{ {'k': v}|json_encode }}", "{{ {'k': v}|merge({'j': v})|length }}",
		"{{ v|first|first }}", "{{ v|last|upper }}", "{{ v|keys|join(',') }}", "{{ v|keys|first }}", "{{ v|reverse|join(',') }}", "{{ v|sort|join(',') }}", "{{ v|sort|first }}", "{{ v|length + 1 }}", "{{ v|default(v) }}", "{{ v|merge(v)|length }}", "{{ v|merge(v)|keys|join }}", "{{ v|join(v) }}", "{{ v|slice(1)|join }}", "{{ v|slice(-1, 5)|length }}", "{{ v|first is same_as(v|last) ? 1 : 0 }}",
		"{{ v ~ v }}", "{{ v + v }}", "{{ v == v ? 1 : 0 }}", "{{ v < v ? 1 : 0 }}", "{{ v in v ? 1 : 0 }}", "{{ v is same_as(v) ? 1 : 0 }}", "{{ v matches v ? 1 : 0 }}", "{{ v starts with v ? 1 : 0 }}", "{{ max(v) }}", "{{ min(v) }}", "{{ max(v, v) }}", "{{ min([v, 1]) }}", "{{ cycle(v, 1) }}", "{{ cycle([1, 2], v) }}", "{{ dump(v) }}", "{{ length(v) }}", "{{ merge(v, v) }}", "{{ json_encode(v) }}",
		"{% apply upper %}{{ v }}{% endapply %}", "{% spaceless %}<a> {{ v }} </a>{% endspaceless %}", "{% block k %}{{ v }}{% endblock %}", "{% macro q(p) %}{{ p }}{{ p.a }}{{ p[0] }}{% endmacro %}{{ q(v) }}", "{% macro q(p = 1) %}{{ p }}{% endmacro %}{{ q(v, v) }}",
	} {
		cs = append(cs, construct{s, false, false, false, false})
	}
	for _, s := range []string{
		"{{ v[a] }}", "{{ a[v] }}", "{{ v[a][a] }}", "{{ v[a:] }}", "{{ v[:a] }}", "{{ v[a:a] }}", "{{ attribute(v, a) }}", "{{ v|slice(a) }}", "{{ v|slice(0, a) }}", "{{ v[a].k }}", "{{ {(a): v}|length }}", "{{ {(a): v, (v): a}|keys|join }}",
		"{% for x in v %}{{ x[a] }}{{ a[x] }}{% endfor %}", "{% for k, x in v %}{{ k in a ? 1 : 0 }}{{ x == a ? 1 : 0 }}{% endfor %}", "{{ [v, a]|sort|join }}", "{{ [v, a]|join(a) }}", "{{ [a, v, a]|reverse|first }}", "{{ max(v, a) }}", "{{ min([v, a]) }}", "{{ v|merge(a)|merge(v)|length }}", "{{ v|merge(a)|sort|join }}", "{{ v|merge(a)|keys|join }}", "{{ v|default(a)|length }}",
		"{% include 's' with {'x': v} %}{% include a ignore missing %}", "{% set q = v %}{% set q = q|merge(a) %}{{ q|length }}", "{{ v is same_as(a) ? 1 : 0 }}{{ a is same_as(v) ? 1 : 0 }}", "{{ cycle(v, a) }}", "{{ v ? a : v }}", "{{ (v ?? a) ? 1 : 0 }}", "{{ v.a(a) }}", "{{ v.Greet(a) }}", "{{ v.Variadic(a, a) }}", "{{ v(a) }}", "{{ v(a, a) }}",
	} {
		cs = append(cs, construct{s, true, false, false, false})
	}
	for _, s := range []string{"{{ v[a][b] }}", "{{ v[a:b] }}", "{{ v|slice(a, b) }}", "{{ v|replace({(a): b}) }}", "{{ range(v, a, b)|length }}", "{{ v|merge(a)|merge(b)|length }}", "{{ v ? a : b }}", "{{ [v, a, b]|sort|join }}", "{{ {(v): a}|merge({(a): b})|length }}"} {
		cs = append(cs, construct{s, true, true, strings.Contains(s, "range"), false})
	}
	return cs
}()

// development aids: C05_GRID_A / C05_GRID_B = comma-separated shape names; only cases whose first /
// second argument is one of them are run (never set by run.sh)
var gridOnlyA, gridOnlyB = nameSet(os.Getenv("C05_GRID_A")), nameSet(os.Getenv("C05_GRID_B"))

func nameSet(s string) map[string]bool {
	if s == "" {
		return nil
	}
	m := map[string]bool{}
	for _, n := range strings.Split(s, ",") {
		m[n] = true
	}
	return m
}

func runGrid(t *vlib.T) {
	for ci := range constructs {
		c := &constructs[ci]
		if (gridOnlyA != nil && !c.a) || (gridOnlyB != nil && !c.b) {
			continue
		}
		if g := os.Getenv("C05_GRID_SRC"); g != "" { // development aid: constructs containing one of the |-separated substrings
			hit := false
			for _, sub := range strings.Split(g, "|") {
				hit = hit || strings.Contains(c.src, sub)
			}
			if !hit {
				continue
			}
		}
		for vi := range shapes {
			v := &shapes[vi]
			if c.sizeArgs && v.huge || c.unknown && hugeInt(v) {
				continue
			}
			as := []*shape{shapeByName["i1"]}
			if c.a {
				as = as[:0]
				if t.Thorough() {
					for i := range shapes {
						as = append(as, &shapes[i])
					}
				} else {
					for _, n := range aQuick {
						as = append(as, shapeByName[n])
					}
				}
			}
			for _, a := range as {
				if gridOnlyA != nil && !gridOnlyA[a.name] {
					continue
				}
				if withheld(c, a) {
					continue
				}
				bs := bShapes[:1]
				if c.b {
					bs = bShapes
					if !t.Thorough() {
						bs = bQuick
					}
				}
				for _, bn := range bs {
					if t.Stopped() {
						return
					}
					if gridOnlyB != nil && !gridOnlyB[bn] {
						continue
					}
					if c.b && c.unknown && hugeInt(shapeByName[bn]) {
						continue
					}
					key := "g|" + c.src + "|" + v.name
					if c.a {
						key += "|" + a.name
					}
					if c.b {
						key += "|" + bn
					}
					if !t.Owns(key) {
						continue
					}
					a, bn := a, bn
					tcase(t, key, func() *vlib.Outcome {
						ctx := map[string]interface{}{"v": v.v, "a": a.v, "b": shapeByName[bn].v}
						o := runSource("g", c.src, []map[string]interface{}{ctx}, !v.scalar, func() interface{} {
							return map[string]interface{}{"template": c.src, "v": fmt.Sprintf("%s = %#v", v.name, v.v), "a": fmt.Sprintf("%s = %#v", a.name, a.v), "b": bn}
						}, func(pan string) string { return knownRenderPanic(c, v, a, shapeByName[bn], pan) })
						if o.Counters["renders"] == 0 {
							o.Nontrivial = false
						}
						return o
					})
				}
			}
		}
	}
}
