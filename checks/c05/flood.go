package main

// Long lookup histories in ONE process: more distinct (struct type, attribute name) pairs than the
// process-wide attribute cache holds, so that its eviction path runs, followed by further renders
// and the canary. No render may panic, and none may hang (a self-deadlock in the eviction path
// kills or stalls the worker, which the worker protocol reports). Added after the independent
// seeded change C05-B (eviction re-acquiring the cache lock) was missed: every other family uses a
// handful of types per process and never reaches eviction.

import (
	"fmt"
	"reflect"

	"github.com/semihalev/twig"

	"verif/lib/vlib"
)

func floodStruct(i int) interface{} {
	st := reflect.StructOf([]reflect.StructField{
		{Name: "F0", Type: reflect.TypeOf(0)},
		{Name: "F1", Type: reflect.TypeOf("")},
		{Name: fmt.Sprintf("X%d", i), Type: reflect.TypeOf(0)},
	})
	v := reflect.New(st).Elem()
	v.Field(0).SetInt(int64(i))
	v.Field(1).SetString("s")
	return v.Interface()
}

type floodT struct{ A, B string }

func runFlood(t *vlib.T) {
	sizes := []int{600, 1200}
	if t.Thorough() {
		sizes = []int{600, 1001, 1200, 2600}
	}
	for _, n := range sizes {
		for _, mode := range []string{"types", "names", "mixed"} {
			n, mode := n, mode
			tcase(t, fmt.Sprintf("flood|%s/%d", mode, n), func() *vlib.Outcome {
				o := &vlib.Outcome{Nontrivial: n > 500, Class: "flood/" + mode}
				e := newEngine()
				e.RegisterString("f", "{{ o.F0 }}{{ o.F1 }}")
				pan := guard(func() {
					for i := 0; i < n; i++ {
						switch {
						case mode == "types" || (mode == "mixed" && i%2 == 0):
							// two new (type, name) pairs per render
							out, err := e.Render("f", map[string]interface{}{"o": floodStruct(i)})
							if err == nil && out != fmt.Sprintf("%ds", i) {
								panic(fmt.Sprintf("HARNESS-OBSERVATION wrong output %q for filler %d", out, i))
							}
						default:
							// a new attribute NAME (mostly non-existent) on one fixed type
							name := fmt.Sprintf("n%d", i)
							e.RegisterString(name, fmt.Sprintf("{{ o.Q%d }}{{ o.A }}", i))
							out, err := e.Render(name, map[string]interface{}{"o": floodT{"a", "b"}})
							if err == nil && out != "a" {
								panic(fmt.Sprintf("HARNESS-OBSERVATION wrong output %q for name %d", out, i))
							}
						}
						if i%64 == 0 {
							t.Progress()
						}
					}
				})
				if pan != "" {
					o.Violation = fmt.Sprintf("after a history of %d lookups (%s): %s", n, mode, pan)
					return o
				}
				if c := checkCanary(e); c != "" {
					o.Violation = fmt.Sprintf("after a history of %d lookups (%s): %s", n, mode, c)
				}
				return o
			})
		}
	}
}

var _ = twig.New
