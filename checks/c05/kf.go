package main

import (
	"reflect"
	"regexp"
	"strings"
	"unicode/utf8"
)

// Known findings of C05 that are still open in the repository (checks/c05/known_findings.json).
// A panic is attributed to one of them only if (a) the PREDICATE below holds for the generated
// case - it looks at the generated source / operands only, never at what twig did - and (b) the
// observed panic is exactly the QUIRK (message and the twig function that raised it).

// ---- KF-C05-R3 / R4: the tag tokenizer ----

var reBlockTag = regexp.MustCompile(`(?s)\{%-?\s*([A-Za-z_]+)\s(.*?)-?%\}`)

// predTokenizerFold: the source has a for/include/from/import tag whose content changes its byte
// length under strings.ToLower (invalid UTF-8, U+0130, U+212A, ...).
func predTokenizerFold(src string) bool {
	for _, m := range reBlockTag.FindAllStringSubmatch(src, -1) {
		switch m[1] {
		case "for", "include", "from", "import":
			if len(strings.ToLower(m[2])) != len(m[2]) {
				return true
			}
		}
	}
	return false
}

// predTokenizerLoneQuote: the source has an include/extends/from/import tag whose template-path
// operand is a single quote character.
func predTokenizerLoneQuote(src string) bool {
	for _, m := range reBlockTag.FindAllStringSubmatch(src, -1) {
		switch m[1] {
		case "include", "extends", "from", "import":
			f := strings.Fields(m[2])
			if len(f) > 0 && (f[0] == "'" || f[0] == "\"") {
				return true
			}
		}
	}
	return false
}

// firstTwigFrame: name of the innermost twig function on the recovered stack (as rendered by guard).
func firstTwigFrame(pan string) string {
	for _, l := range strings.Split(pan, "\n") {
		if i := strings.Index(l, "semihalev/twig."); i >= 0 {
			l = l[i+len("semihalev/twig."):]
			if j := strings.Index(l, " @ "); j >= 0 {
				l = l[:j]
			}
			// drop the argument list
			if j := strings.LastIndex(l, "("); j > 0 {
				l = l[:j]
			}
			return l
		}
	}
	return ""
}

func panicMsg(pan string) string {
	if i := strings.IndexByte(pan, '\n'); i >= 0 {
		return pan[:i]
	}
	return pan
}

// knownParsePanic: which open finding, if any, explains this panic raised while parsing src.
func knownParsePanic(src, pan string) string {
	msg, fr := panicMsg(pan), firstTwigFrame(pan)
	if !strings.HasPrefix(msg, "runtime error: slice bounds out of range") {
		return ""
	}
	if fr == "(*ZeroAllocTokenizer).processBlockTag" && predTokenizerFold(src) {
		return "KF-C05-R3"
	}
	if fr == "(*ZeroAllocTokenizer).tokenizeTemplatePath" && strings.HasSuffix(msg, "[1:0]") && predTokenizerLoneQuote(src) {
		return "KF-C05-R4"
	}
	return ""
}

// ---- KF-C05-R1: split with a multi-byte delimiter that is not valid UTF-8 ----

func predSplitBadDelimiter(c *construct, a *shape) bool {
	if !c.a || !(strings.Contains(c.src, "|split(a") || strings.Contains(c.src, "apply split(a")) {
		return false
	}
	s, ok := a.v.(string)
	return ok && len(s) > 1 && !utf8.ValidString(s)
}

// ---- KF-C05-R2: item access on a map with interface keys using an unhashable index ----

func hasIfaceKeyMap(x interface{}, depth int) bool {
	v := reflect.ValueOf(x)
	for v.IsValid() && (v.Kind() == reflect.Ptr || v.Kind() == reflect.Interface) && !v.IsNil() {
		v = v.Elem()
	}
	if !v.IsValid() {
		return false
	}
	switch v.Kind() {
	case reflect.Map:
		if v.Type().Key().Kind() == reflect.Interface {
			return true
		}
		if depth > 0 {
			for _, k := range v.MapKeys() {
				if hasIfaceKeyMap(v.MapIndex(k).Interface(), depth-1) {
					return true
				}
			}
		}
	case reflect.Slice, reflect.Array:
		if depth > 0 {
			for i := 0; i < v.Len(); i++ {
				if hasIfaceKeyMap(v.Index(i).Interface(), depth-1) {
					return true
				}
			}
		}
	}
	return false
}

func hasUnhashable(x interface{}, depth int) bool {
	v := reflect.ValueOf(x)
	if !v.IsValid() {
		return false
	}
	if !v.Comparable() {
		return true
	}
	if depth > 0 {
		switch v.Kind() {
		case reflect.Slice, reflect.Array:
			for i := 0; i < v.Len(); i++ {
				if hasUnhashable(v.Index(i).Interface(), depth-1) {
					return true
				}
			}
		case reflect.Map:
			for _, k := range v.MapKeys() {
				if hasUnhashable(v.MapIndex(k).Interface(), depth-1) {
					return true
				}
			}
		}
	}
	return false
}

func predUnhashableIndex(c *construct, ops []interface{}) bool {
	if !strings.Contains(c.src, "[") && !strings.Contains(c.src, "attribute(") {
		return false
	}
	m := false
	u := strings.Contains(c.src, "[[") || strings.Contains(c.src, "[{") // list / hash literal as index
	for _, o := range ops {
		m = m || hasIfaceKeyMap(o, 1)
		u = u || hasUnhashable(o, 1)
	}
	return m && u
}

// ---- KF-C05-R8: same_as on two values of one comparable TYPE whose contents cannot be compared ----

// eqPanics: does Go's == on the two interface values panic?
func eqPanics(x, y interface{}) (p bool) {
	defer func() {
		if recover() != nil {
			p = true
		}
	}()
	return x == y && false
}

// predSameAsUncomparable: the source applies the same_as test, and among the values it can compare
// (the operands, and the first / last element of an operand that is a list or array) there are two -
// possibly the same one twice - of one dynamic type that Go accepts as comparable although == on
// them panics (a struct or array with an interface inside that holds a slice, map or func).
func predSameAsUncomparable(src string, ops []interface{}) bool {
	if !strings.Contains(src, "same_as(") && !strings.Contains(src, "sameas(") && !strings.Contains(src, "same as(") {
		return false
	}
	var cand []interface{}
	for _, o := range ops {
		cand = append(cand, o)
		if rv := reflect.ValueOf(o); rv.IsValid() && (rv.Kind() == reflect.Slice || rv.Kind() == reflect.Array) && rv.Len() > 0 {
			cand = append(cand, rv.Index(0).Interface(), rv.Index(rv.Len()-1).Interface())
		}
	}
	for _, x := range cand {
		if x == nil || !reflect.TypeOf(x).Comparable() {
			continue
		}
		for _, y := range cand {
			if y != nil && reflect.TypeOf(y) == reflect.TypeOf(x) && eqPanics(x, y) {
				return true
			}
		}
	}
	return false
}

// knownSameAsPanic: predicate + quirk (the exact runtime error, raised by testSameAs itself).
func knownSameAsPanic(src string, ops []interface{}, pan string) string {
	if strings.HasPrefix(panicMsg(pan), "runtime error: comparing uncomparable type") && firstTwigFrame(pan) == "(*CoreExtension).testSameAs" && predSameAsUncomparable(src, ops) {
		return "KF-C05-R8"
	}
	return ""
}

// knownRenderPanic: which open finding, if any, explains this panic raised while rendering a grid case.
func knownRenderPanic(c *construct, v, a, b *shape, pan string) string {
	msg, fr := panicMsg(pan), firstTwigFrame(pan)
	{
		ops := []interface{}{v.v}
		if c.a {
			ops = append(ops, a.v)
		}
		if c.b {
			ops = append(ops, b.v)
		}
		if k := knownSameAsPanic(c.src, ops, pan); k != "" {
			return k
		}
	}
	if strings.HasPrefix(msg, "regexp: Compile(") && strings.Contains(msg, "invalid UTF-8") && fr == "(*CoreExtension).filterSplit" && predSplitBadDelimiter(c, a) {
		return "KF-C05-R1"
	}
	if strings.HasPrefix(msg, "runtime error: hash of unhashable type") && strings.Contains(pan, "(*RenderContext).getItem") {
		ops := []interface{}{v.v}
		if c.a {
			ops = append(ops, a.v)
		}
		if c.b {
			ops = append(ops, b.v)
		}
		if predUnhashableIndex(c, ops) {
			return "KF-C05-R2"
		}
	}
	return ""
}
