package main

// Render HISTORIES on one engine in one process: a render that FAILS inside an {% include %} (the
// included template fails while rendering), followed by sound templates whose includes are nested
// one, two and three deep and that write to their own context (set / for / macros / with) or look
// names up through the chain of contexts - repeated for several rounds, without and with forced
// garbage collections in between (the engine recycles its render contexts through process-wide
// pools, which a GC empties). Also the reverse order, the same failure twice in a row and two
// different failures in a row.
//
// Oracle: no render panics (a fatal error / hang is caught by the worker protocol); every render -
// the failing one included - gives what the same template with the same context gives on an engine
// without history (error or not; the output when there is no error); afterwards the canary renders
// on the same engine and the sound templates render correctly on an engine that never saw a failure
// (the pools are shared by all engines of the process).
//
// Added after the independent seeded change C05-F (a failing include hands its render context back
// to the pool twice) was missed: every other family renders one template per fresh engine and stops
// at the first error, so nothing ever ran AFTER a failed include.

import (
	"errors"
	"fmt"
	"os"
	"runtime"
	"runtime/debug"
	"strings"
	"sync"

	"github.com/semihalev/twig"

	"verif/lib/vlib"
)

// ---- the failing side ----

// leaves: the template "F" that is included and fails while rendering (some only under `sandboxed`,
// `missing` not at all with `ignore missing` one level up - a case whose failing step does not fail
// is still run, it just is not counted as non-trivial).
var histLeaves = [][2]string{
	{"div0", "L{{ a }}{{ 1 / 0 }}R"},
	{"ufilter", "L{{ x|nosuchfilter }}R"},
	{"ufunc", "L{{ nosuchfn(1) }}R"},
	{"failfn", "L{{ boom(1) }}R"},
	{"failfilter", "L{{ 1|boomf }}R"},
	{"late", "{% set q = 1 %}{% for i in [1, 2] %}{{ i }}{% if i == 2 %}{{ q / 0 }}{% endif %}{% endfor %}R"},
	{"macro", "{% import 'flib' as fl %}L{{ fl.bad(1) }}R"},
	{"incwith", "L{% include 'fdiv' with {'b': 2} %}R"},
	{"incplain", "L{% include 'fdiv' %}R"},
	{"inconly", "L{% set z = 1 %}{% include 'fdiv' only %}R"},
	{"extends", "{% extends 'base' %}{% block b %}{{ 1 / 0 }}{% endblock %}"},
	{"missing", "L{% include 'nosuch' %}R"},
	{"secviol", "L{{ 'a b'|url_encode }}R"},
}

// option sets of the include that names F
var histOpts = [][2]string{
	{"plain", ""},
	{"with", " with {'a': 1}"},
	{"only", " only"},
	{"withonly", " with {'a': 1} only"},
	{"sbx", " sandboxed"},
	{"withsbx", " with {'a': 1} sandboxed"},
	{"onlysbx", " only sandboxed"},
	{"withonlysbx", " with {'a': 1, 'b': x} only sandboxed"},
	{"ignore", " ignore missing"},
	{"ignorewith", " ignore missing with {'a': 1}"},
	{"withbad", " with {'a': 1 / 0}"},
	{"withbadonly", " with {'a': 1 / 0} only"},
}

// placements of that include: template "P" is rendered; INC stands for the include tag
var histPlaces = []struct {
	id    string
	tmpls [][2]string
}{
	{"top", [][2]string{{"P", "A{{ x }}INC B"}}},
	{"loop", [][2]string{{"P", "{% for i in [1, 2, 3] %}{{ i }}INC{% endfor %}B"}}},
	{"if", [][2]string{{"P", "A{% if x %}INC{% else %}n{% endif %}B"}}},
	{"apply", [][2]string{{"P", "{% apply upper %}aINC{% endapply %}B"}}},
	{"macro", [][2]string{{"P", "{% import 'PL' as pl %}A{{ pl.w(1) }}B"}, {"PL", "{% macro w(k) %}{{ k }}INC{% endmacro %}"}}},
	{"block", [][2]string{{"P", "{% extends 'base' %}{% block b %}INC{% endblock %}"}}},
	{"nest2", [][2]string{{"P", "A{% include 'M' %}B"}, {"M", "m[INC]"}}},
	{"nest2with", [][2]string{{"P", "A{% include 'M' with {'o': 1} %}B"}, {"M", "m{{ o }}[INC]"}}},
	{"nest2only", [][2]string{{"P", "A{% include 'M' only %}B"}, {"M", "m[INC]"}}},
	{"nest2loop", [][2]string{{"P", "{% for i in [1, 2] %}{% include 'M' with {'o': i} %}{% endfor %}B"}, {"M", "{% for j in [1, 2] %}{{ o }}{{ j }}INC{% endfor %}"}}},
	{"nest3", [][2]string{{"P", "A{% include 'M' with {'o': 1} %}B"}, {"M", "m{% include 'M2' %}"}, {"M2", "n[INC]"}}},
}

// helper templates of the failing side
var histFailHelpers = [][2]string{
	{"fdiv", "d{{ b }}{{ 1 / 0 }}"},
	{"flib", "{% macro bad(z) %}{{ z / 0 }}{% endmacro %}"},
}

type histFail struct {
	leaf, opt, place string
	tmpls            [][2]string // P (+ M, M2, PL) and F
}

func (f histFail) id() string { return f.leaf + "/" + f.opt + "/" + f.place }

func histFails() []histFail {
	var out []histFail
	for _, pl := range histPlaces {
		for _, op := range histOpts {
			for _, lf := range histLeaves {
				inc := "{% include 'F'" + op[1] + " %}"
				f := histFail{leaf: lf[0], opt: op[0], place: pl.id}
				for _, tm := range pl.tmpls {
					f.tmpls = append(f.tmpls, [2]string{tm[0], strings.ReplaceAll(tm[1], "INC", inc)})
				}
				f.tmpls = append(f.tmpls, [2]string{"F", lf[1]})
				out = append(out, f)
			}
		}
	}
	return out
}

// the reduced core used for the second member of "two different failures in a row"
func histCore(fs []histFail) []histFail {
	in := func(s string, set ...string) bool {
		for _, x := range set {
			if s == x {
				return true
			}
		}
		return false
	}
	var out []histFail
	for _, f := range fs {
		if in(f.leaf, "div0", "failfn", "incwith") && in(f.opt, "with", "only", "withsbx") && in(f.place, "top", "loop", "nest2with") {
			out = append(out, f)
		}
	}
	return out
}

// ---- the sound side ----

// histSound: templates S<kind><depth>; depth = number of include levels below the page. Every level
// works on its own context before and after the include.
type histSoundT struct {
	name string
	ctx  map[string]interface{}
}

var histSoundTemplates, histSounds = func() (map[string]string, []histSoundT) {
	m := map[string]string{
		"leaf":  "leaf",
		"leafx": "{{ x }}{{ nosuchvar|default('u') }}{{ y.k }}{% if z is defined %}z{% endif %}",
		"leafv": "{{ a }}{{ x|default('-') }}",
	}
	var list []histSoundT
	ctx := map[string]interface{}{"x": "X", "y": map[string]interface{}{"k": "K"}, "items": []interface{}{1, 2}}
	// body(kind, level, inner): the source of one level that includes `inner`
	body := func(kind string, lv int, inner string) string {
		inc := "{% include '" + inner + "' %}"
		switch kind {
		case "set": // the shape of the demonstration: include, then write to the own context
			return fmt.Sprintf("[%s]{%% set v = %d %%}{{ v }}{%% set w = v + 1 %%}{{ w }}", inc, lv)
		case "setb": // write before and after
			return fmt.Sprintf("{%% set v = %d %%}[%s]{%% set w = v + 1 %%}{{ v }}{{ w }}{{ x }}", lv, inc)
		case "for":
			return fmt.Sprintf("{%% for i in items %%}{{ loop.index }}%s{%% set k = i * %d %%}{{ k }}{%% endfor %%}{{ x }}", inc, lv+1)
		case "macro":
			return fmt.Sprintf("{%% import 'lib' as l %%}%s{%% macro q%d(a) %%}<{{ a }}>{%% endmacro %%}{{ l.m(%d) }}{{ _self.q%d(x) }}{{ l.n() }}", inc, lv, lv, lv)
		case "lookup":
			return fmt.Sprintf("(%s{{ x }}{{ y.k }}{{ nosuchvar|default('d') }}{%% set z = %d %%}{{ z }})", inc, lv)
		case "with":
			return fmt.Sprintf("{{ a|default('n') }}{%% include '%s' with {'a': %d} %%}{%% set a = 9 %%}{{ a }}{{ x }}", inner, lv)
		case "only":
			return fmt.Sprintf("{%% set v = %d %%}{%% include '%s' with {'a': v} only %%}{%% set v = v + 1 %%}{{ v }}", lv, inner)
		}
		panic("kind")
	}
	leafOf := map[string]string{"set": "leaf", "setb": "leaf", "for": "leaf", "macro": "leaf", "lookup": "leafx", "with": "leafv", "only": "leafv"}
	for depth := 1; depth <= 3; depth++ {
		for _, kind := range []string{"set", "setb", "for", "macro", "lookup", "with", "only"} {
			inner := leafOf[kind]
			for lv := depth; lv >= 1; lv-- { // lv = depth is the innermost level, 1 the page
				name := fmt.Sprintf("S%s%d_%d", kind, depth, lv)
				m[name] = body(kind, lv, inner)
				inner = name
			}
			list = append(list, histSoundT{inner, ctx})
		}
	}
	// a child template whose block includes two deep and then writes
	m["Sext"] = "{% extends 'base' %}{% block b %}{% include 'Sset2_1' %}{% set v = 1 %}{{ v }}{% endblock %}"
	list = append(list, histSoundT{"Sext", ctx})
	// the demonstration's page with a nil context
	list = append(list, histSoundT{"Sset2_1", nil})
	return m, list
}()

var histFailCtx = map[string]interface{}{"x": "y", "items": []interface{}{1, 2}}

var errBoom = errors.New("boom failed")

// histEngine: a fresh engine serving the helper templates, the sound templates and the given
// failing-side templates; pol = a security policy is installed (sandboxed includes then render).
func histEngine(pol bool, fails ...histFail) *twig.Engine {
	m := map[string]string{}
	for k, v := range helperMap {
		m[k] = v
	}
	for k, v := range histSoundTemplates {
		m[k] = v
	}
	for _, h := range histFailHelpers {
		m[h[0]] = h[1]
	}
	for i, f := range fails {
		for _, tm := range f.tmpls {
			name := tm[0]
			if i > 0 {
				name = fmt.Sprintf("%s_%d", name, i+1)
			}
			src := tm[1]
			if i > 0 { // second failure: its own template names
				for _, n := range []string{"F", "M2", "M", "PL"} {
					src = strings.ReplaceAll(src, "'"+n+"'", fmt.Sprintf("'%s_%d'", n, i+1))
				}
			}
			m[name] = src
		}
	}
	e := twig.New()
	e.RegisterLoader(twig.NewArrayLoader(m))
	e.AddFunction("boom", func(args ...interface{}) (interface{}, error) { return nil, errBoom })
	e.AddFilter("boomf", func(v interface{}, args ...interface{}) (interface{}, error) { return nil, errBoom })
	if pol {
		e.EnableSandbox(twig.NewDefaultSecurityPolicy())
		e.DisableSandbox()
	}
	return e
}

type histRes struct {
	out    string
	failed bool
	errTxt string
}

func (r histRes) String() string {
	if r.failed {
		return "error(" + r.errTxt + ")"
	}
	return fmt.Sprintf("%q", r.out)
}

func (r histRes) same(o histRes) bool { return r.failed == o.failed && (r.failed || r.out == o.out) }

func histRender(e *twig.Engine, name string, ctx map[string]interface{}) (r histRes, pan string) {
	pan = guard(func() {
		out, err := e.Render(name, ctx)
		if err != nil {
			r = histRes{failed: true, errTxt: err.Error()}
		} else {
			r = histRes{out: out}
		}
	})
	return
}

// reference results of the sound templates on engines without history, once per process and
// policy mode (before this family's first failing render in the process), and the two engines
// themselves, which never see a failing render ("bystanders").
var histRef struct {
	once   sync.Once
	eng    [2]*twig.Engine
	want   [2][]histRes
	broken string
}

func histReference() {
	histRef.once.Do(func() {
		for pi, pol := range []bool{false, true} {
			e := histEngine(pol)
			histRef.eng[pi] = e
			for _, s := range histSounds {
				r, pan := histRender(e, s.name, s.ctx)
				if pan != "" {
					histRef.broken = fmt.Sprintf("sound template %s on an engine without history panicked: %s", s.name, pan)
					return
				}
				if r.failed {
					histRef.broken = fmt.Sprintf("sound template %s on an engine without history failed: %s", s.name, r.errTxt)
					return
				}
				histRef.want[pi] = append(histRef.want[pi], r)
			}
		}
	})
}

var histLog = os.Getenv("C05_HISTLOG") // development aid

// runHistory: one history. pattern: FS | SF | FFS | FGS (two different failures); gc: 0 = no
// collection during the history (the collector is switched off for its duration), 1 / 2 = that many
// forced collections between the failing step(s) and the sound renders of every round.
func runHistory(t *vlib.T, pattern string, gc int, pol bool, rounds int, fails []histFail) *vlib.Outcome {
	o := &vlib.Outcome{Counters: map[string]int64{}}
	histReference()
	if histRef.broken != "" {
		o.Violation = histRef.broken
		return o
	}
	pi := 0
	if pol {
		pi = 1
	}
	want := histRef.want[pi]
	if gc == 0 {
		defer debug.SetGCPercent(debug.SetGCPercent(-1))
	}
	// the templates of this family nest four deep at most; should a render recurse without end
	// (a cycle in the chain of contexts) the fatal stack overflow comes after 32 MiB, not after 1 GiB
	defer debug.SetMaxStack(debug.SetMaxStack(32 << 20))
	collect := func() {
		for i := 0; i < gc; i++ {
			runtime.GC()
		}
	}
	where := func(round int, step string) string {
		var ids []string
		for _, f := range fails {
			ids = append(ids, f.id())
		}
		return fmt.Sprintf("history %s (gc=%d, policy=%v) of failing render(s) %s, round %d, %s", pattern, gc, pol, strings.Join(ids, " + "), round, step)
	}
	detail := func() interface{} {
		d := map[string]interface{}{"pattern": pattern, "gc": gc, "policy": pol, "fail_context": histFailCtx}
		for i, f := range fails {
			d[fmt.Sprintf("failing_templates_%d", i+1)] = f.tmpls
		}
		return d
	}

	e := histEngine(pol, fails...)
	// what each failing page gives on an engine without history
	failWant := make([]histRes, len(fails))
	failName := make([]string, len(fails))
	{
		fresh := histEngine(pol, fails...)
		for i := range fails {
			failName[i] = "P"
			if i > 0 {
				failName[i] = fmt.Sprintf("P_%d", i+1)
			}
			r, pan := histRender(fresh, failName[i], histFailCtx)
			if pan != "" {
				o.Violation = where(0, "first render of "+failName[i]+" on a fresh engine") + " panicked: " + pan
				o.Detail = detail()
				return o
			}
			failWant[i] = r
			if r.failed {
				o.Nontrivial = true
			}
		}
	}

	failStep := func(round, i int) bool {
		r, pan := histRender(e, failName[i], histFailCtx)
		o.Counters["renders"]++
		if pan != "" {
			o.Violation = where(round, "failing render "+failName[i]) + " panicked: " + pan
			o.Detail = detail()
			return false
		}
		if !r.same(failWant[i]) {
			o.Violation = where(round, "render of "+failName[i]) + fmt.Sprintf(" gave %v, on an engine without history it gives %v", r, failWant[i])
			o.Detail = detail()
			return false
		}
		if r.failed {
			o.Counters["render_errors"]++
		}
		return true
	}
	soundBlock := func(round int, eng *twig.Engine, what string) bool {
		n := len(histSounds)
		for k := 0; k < n; k++ {
			si := (k + round*5) % n // another sound template comes first in every round
			s := histSounds[si]
			r, pan := histRender(eng, s.name, s.ctx)
			o.Counters["renders"]++
			if pan != "" {
				o.Violation = where(round, fmt.Sprintf("sound template %s (%q, %d-th after the failure) %s", s.name, histSoundTemplates[s.name], k+1, what)) + " panicked: " + pan
				o.Detail = detail()
				return false
			}
			if !r.same(want[si]) {
				o.Violation = where(round, fmt.Sprintf("sound template %s (%q, %d-th after the failure) %s", s.name, histSoundTemplates[s.name], k+1, what)) + fmt.Sprintf(" gave %v, on an engine without history it gives %v", r, want[si])
				o.Detail = detail()
				return false
			}
		}
		return true
	}

	for round := 0; round < rounds; round++ {
		t.Progress()
		switch pattern {
		case "FS":
			if !failStep(round, 0) {
				return o
			}
			collect()
			if !soundBlock(round, e, "on the same engine") {
				return o
			}
		case "SF":
			if !soundBlock(round, e, "on the same engine") {
				return o
			}
			collect()
			if !failStep(round, 0) {
				return o
			}
		case "FFS":
			if !failStep(round, 0) || !failStep(round, 0) {
				return o
			}
			collect()
			if !soundBlock(round, e, "on the same engine") {
				return o
			}
		case "FGS":
			if !failStep(round, 0) || !failStep(round, 1) {
				return o
			}
			collect()
			if !soundBlock(round, e, "on the same engine") {
				return o
			}
		default:
			panic("pattern")
		}
	}
	if pattern == "SF" {
		if !soundBlock(rounds, e, "on the same engine") {
			return o
		}
	}
	// an engine that never saw a failure shares the pools
	if !soundBlock(0, histRef.eng[pi], "on ANOTHER engine of the process, which never rendered a failing template") {
		return o
	}
	if c := checkCanary(e); c != "" {
		o.Violation = where(rounds, "end") + ": " + c
		o.Detail = detail()
		return o
	}
	cls := "ok"
	if failWant[0].failed {
		cls = "E:" + errClass(errors.New(failWant[0].errTxt))
	}
	o.Class = fmt.Sprintf("hist/%s/gc%d/%s:%s", pattern, gc, fails[0].opt, cls)
	if len(o.Class) > 100 {
		o.Class = o.Class[:100]
	}
	if histLog != "" {
		if f, err := os.OpenFile(histLog, os.O_APPEND|os.O_CREATE|os.O_WRONLY, 0o644); err == nil {
			fmt.Fprintf(f, "%s %d %v %s -> %v\n", pattern, gc, pol, fails[0].id(), failWant[0])
			f.Close()
		}
	}
	return o
}

func runHist(t *vlib.T) {
	fails := histFails()
	core := histCore(fails)
	thorough := t.Thorough()
	rounds := 4
	if thorough {
		rounds = len(histSounds) // every sound template comes first after a failure once (5 is coprime to their number)
	}
	gcLeaf := map[string]bool{"div0": true, "failfn": true, "incwith": true}
	// one failing render; simplest first: collections, then pattern, then the failing side.
	// Forced collections are expensive (a full GC cycle each), so the quick tier combines them only
	// with pattern FS, an installed policy and three leaves; the thorough tier with every failing
	// side and pattern under an installed policy.
	for gc := 0; gc <= 2; gc++ {
		for _, pattern := range []string{"FS", "SF", "FFS"} {
			if gc > 0 && !thorough && pattern != "FS" {
				continue
			}
			for _, pol := range []bool{false, true} {
				if gc > 0 && !pol {
					continue
				}
				for _, f := range fails {
					if gc > 0 && !thorough && !gcLeaf[f.leaf] {
						continue
					}
					pattern, gc, pol, f := pattern, gc, pol, f
					r := rounds
					if gc > 0 {
						r = 2
						if thorough {
							r = 3
						}
					}
					tcase(t, fmt.Sprintf("hist|%s/gc%d/pol%v/%s", pattern, gc, pol, f.id()), func() *vlib.Outcome {
						return runHistory(t, pattern, gc, pol, r, []histFail{f})
					})
				}
			}
		}
	}
	// two different failures in a row: core x core; thorough also all x core and core x all
	// (without forced collections)
	type pair struct {
		a, b   histFail
		coreSq bool
	}
	var pairs []pair
	seen := map[string]bool{}
	add := func(a, b histFail, sq bool) {
		k := a.id() + "+" + b.id()
		if a.id() != b.id() && !seen[k] {
			seen[k] = true
			pairs = append(pairs, pair{a, b, sq})
		}
	}
	for _, a := range core {
		for _, b := range core {
			add(a, b, true)
		}
	}
	if thorough {
		for _, a := range fails {
			for _, b := range core {
				add(a, b, false)
				add(b, a, false)
			}
		}
	}
	for gc := 0; gc <= 2; gc++ {
		if gc > 0 && !thorough {
			continue
		}
		for _, p := range pairs {
			if gc > 0 && !p.coreSq {
				continue
			}
			gc, p := gc, p
			tcase(t, fmt.Sprintf("hist|FGS/gc%d/poltrue/%s+%s", gc, p.a.id(), p.b.id()), func() *vlib.Outcome {
				return runHistory(t, "FGS", gc, true, 2, []histFail{p.a, p.b})
			})
		}
	}
}
