package main

import (
	"fmt"
	"strings"

	"verif/lib/vlib"
)

// corpus: one-space-separated lexemes; together the templates use every tag, every expression
// form, every whitespace-control position, includes/extends/imports of the helper templates.
// No template calls a macro or block it defines from inside that macro/block.
var corpus = []string{
	"a {{ x }} b",
	"{{- x -}}",
	"{{ x . s }}",
	"{{ x [ 1 ] }}",
	"{{ x [ 's' ] . s }}",
	"{{ x | upper }}",
	"{{ x | slice ( 1 , 2 ) }}",
	"{{ x | default ( 's' ) | upper }}",
	"{{ x | join ( ',' ) | length }}",
	"{{ 1 + 2 * 3 - 4 / 5 % 6 }}",
	"{{ ( 1 + 2 ) * - 3 ^ 2 }}",
	"{{ x ~ 's' ~ 1 }}",
	"{{ x ? 1 : 2 }}",
	"{{ x ? : 2 }}",
	"{{ x ?? 's' }}",
	"{{ x ? y ? 1 : 2 : 3 }}",
	"{{ x and y or not z }}",
	"{{ x == 1 or x != 2 and x < 3 or x >= 4 }}",
	"{{ x in [ 1 , 2 ] }}",
	"{{ x not in y }}",
	"{{ x is defined }}",
	"{{ x is not empty }}",
	"{{ x is divisible_by ( 3 ) }}",
	"{{ x is same_as ( y ) }}",
	"{{ x matches '/a/' }}",
	"{{ x starts with 's' }}",
	"{{ x ends with 's' }}",
	"{{ [ 1 , 's' , [ 2 ] , x ] | length }}",
	"{{ { 'a' : 1 , b : x , ( x ) : 2 } | keys | join }}",
	"{{ { } | length }} {{ [ ] | length }}",
	"{{ 1 .. 3 | join }}",
	"{{ range ( 1 , 3 ) | reverse | first }}",
	"{{ max ( 1 , x ) }} {{ min ( [ 1 , 2 ] ) }}",
	"{{ x . y ( 1 , 2 ) }}",
	"{{ x ( 1 ) }}",
	"{{ \"d\\\"q\" }} {{ 's\\'q' }}",
	"{{ 1.5 + .5 }}",
	"{{ true and false or null is null }}",
	"{{ x | e ( 'html' ) | raw }}",
	"{{ x | replace ( { 'a' : 'b' } ) }}",
	"{{ x | merge ( [ 1 ] ) | sort | join ( '-' ) }}",
	"{{ x | number_format ( 2 , '.' , ',' ) }}",
	"{{ x | date ( 'Y-m-d' ) }}",
	"{{ 'a,b' | split ( ',' ) | last }}",
	"{# c #} a {#- d -#} b",
	"{% if x %} a {% endif %}",
	"{% if x %} a {% else %} b {% endif %}",
	"{% if x %} a {% elseif y %} b {% elseif z %} c {% else %} d {% endif %}",
	"{%- if x -%} a {%- else -%} b {%- endif -%}",
	"{% if x is defined and x . s %} {{ x . s }} {% endif %}",
	"{% for i in x %} {{ i }} {% endfor %}",
	"{% for k , v in x %} {{ k }} = {{ v }} {% endfor %}",
	"{% for i in x %} {{ loop . index }} {{ loop . last }} {% else %} none {% endfor %}",
	"{% for i in 1 .. 3 %} {% for j in [ 1 , 2 ] %} {{ i * j }} {{ loop . parent . loop . index }} {% endfor %} {% endfor %}",
	"{%- for i in range ( 1 , 2 ) -%} {{- i -}} {%- endfor -%}",
	"{% for i in x if i %} {{ i }} {% endfor %}",
	"{% set a = 1 %} {{ a }}",
	"{% set a , b = 1 , 2 %} {{ a }} {{ b }}",
	"{% set a = x | upper %} {{ a }}",
	"{% set a = [ 1 , 2 ] %} {{ a | length }}",
	"{% set a %} body {{ x }} {% endset %} {{ a }}",
	"{% set a = { 'k' : 1 } %} {{ a . k }}",
	"{% block b %} B {{ x }} {% endblock %}",
	"{% block b %} B {% endblock b %}",
	"{% extends 'base' %} {% block b %} C {{ parent ( ) }} {% endblock %}",
	"{% extends 'base' %} {% block c %} {% endblock %} {% block b %} {{ x }} {% endblock %}",
	"{% extends x ? 'base' : 's' %}",
	"{% include 's' %}",
	"{% include 's' with { 'x' : 1 } %}",
	"{% include 's' with { 'x' : 1 } only %}",
	"{% include 's' only %}",
	"{% include 'nope' ignore missing %}",
	"{% include 'nope' ignore missing with { 'x' : 1 } only %}",
	"{% include [ 'nope' , 's' ] %}",
	"{% include 's' sandboxed %}",
	"{% include x %}",
	"{{ include ( 's' ) }}",
	"{% macro m ( a , b = 'd' ) %} [ {{ a }} {{ b }} ] {% endmacro %} {{ _self . m ( 1 ) }}",
	"{% macro m ( ) %} M {% endmacro %} {% macro n ( a ) %} N {{ a }} {% endmacro %} {{ n ( m ( ) ) }}",
	"{% import 'lib' as l %} {{ l . m ( 1 , 2 ) }} {{ l . n ( ) }}",
	"{% import _self as me %} {% macro q ( a ) %} {{ a }} {% endmacro %} {{ me . q ( 1 ) }}",
	"{% from 'lib' import m %} {{ m ( x ) }}",
	"{% from 'lib' import m as mm , n %} {{ mm ( 1 ) }} {{ n ( ) }}",
	"{% from _self import q %} {% macro q ( ) %} Q {% endmacro %} {{ q ( ) }}",
	"{% apply upper %} a {{ x }} {% endapply %}",
	"{% apply upper | lower | trim %} a {% endapply %}",
	"{% apply replace ( { 'a' : 'b' } ) %} a {% endapply %}",
	"{% spaceless %} <a> <b> {{ x }} </b> </a> {% endspaceless %}",
	"{% verbatim %} {{ x }} {% if %} {% endverbatim %}",
	"{%- verbatim -%} {# c #} {%- endverbatim -%} {{ x }}",
	"{% do x | upper %} {% do 1 + 2 %}",
	"{% do x = 1 %}",
	"<p class=\"a\"> {{ x }} </p> \\ { } % # {{ '{{' }} {{ '%}' }}",
	"{% if x %} {% for i in x %} {% if i %} {% set a = i %} {% block b %} {{ a }} {% endblock %} {% endif %} {% endfor %} {% endif %}",
}

var mutCtxs = []map[string]interface{}{
	{"x": []interface{}{1, "s", map[string]interface{}{"s": 1}}, "y": map[string]interface{}{"s": "v"}, "z": 0},
	{"x": map[string]interface{}{"s": "v", "y": 3}, "y": "abc", "z": map[int]string{1: "a"}},
	nil,
}

// bytes that matter to the tokenizers
var substBytes = []byte{'{', '}', '%', '#', '-', '\'', '"', '\\', ' ', '\n', 0, 0xff, '(', ')', '|', '.'}

func mutCase(t *vlib.T, kind string, ci int, pos int, src string) {
	if t.Stopped() {
		return
	}
	for _, padded := range []bool{false, true} {
		fam := "m-" + kind
		s := src
		if padded {
			fam += "+pad"
			s = pad + src
		}
		key := fmt.Sprintf("%s|%d|%d|%s", fam, ci, pos, src)
		if !t.Owns(key) {
			continue
		}
		tcase(t, key, func() *vlib.Outcome {
			return runSource(fam, s, mutCtxs, hasOpener(src), func() interface{} {
				return map[string]interface{}{"corpus": corpus[ci], "mutation": kind, "at": pos, "padded": padded, "source": src}
			}, nil)
		})
	}
}

func runMut(t *vlib.T) {
	for ci, c := range corpus {
		lex := strings.Split(c, " ")
		mutCase(t, "orig", ci, 0, c)
		// unspaced rendering of the same lexemes where that is still the same token sequence is not
		// decidable here; the tight variant is just another source
		for i := range lex {
			// deletion
			d := append(append([]string{}, lex[:i]...), lex[i+1:]...)
			mutCase(t, "del", ci, i, strings.Join(d, " "))
			// duplication
			u := append(append(append([]string{}, lex[:i+1]...), lex[i]), lex[i+1:]...)
			mutCase(t, "dup", ci, i, strings.Join(u, " "))
			// swap with the right neighbour
			if i+1 < len(lex) {
				w := append([]string{}, lex...)
				w[i], w[i+1] = w[i+1], w[i]
				mutCase(t, "swap", ci, i, strings.Join(w, " "))
			}
			// truncation after lexeme i (proper prefixes only)
			if i+1 < len(lex) {
				mutCase(t, "cut", ci, i, strings.Join(lex[:i+1], " "))
			}
			// replacement by each delimiter
			for di, dl := range delims {
				if lex[i] == dl {
					continue
				}
				r := append([]string{}, lex...)
				r[i] = dl
				mutCase(t, "rep", ci, i*100+di, strings.Join(r, " "))
			}
		}
		// byte level
		for i := 0; i < len(c); i++ {
			mutCase(t, "bcut", ci, i, c[:i])
			mutCase(t, "bdel", ci, i, c[:i]+c[i+1:])
			if t.Thorough() || c[i] != ' ' {
				for _, b := range substBytes {
					if b == c[i] {
						continue
					}
					mutCase(t, "bsub", ci, i*256+int(b), c[:i]+string([]byte{b})+c[i+1:])
				}
			}
		}
		// a byte replaced by a multi-byte character: U+0130 grows under strings.ToLower, U+212A
		// (Kelvin sign) shrinks, U+00E9 keeps its length
		for i := 0; i < len(c); i++ {
			if c[i] == ' ' && !t.Thorough() {
				continue
			}
			for ui, u := range []string{"\u0130", "\u212a", "\u00e9"} {
				mutCase(t, "usub", ci, i*4+ui, c[:i]+u+c[i+1:])
			}
		}
		// every space removed (tight form), and every space doubled / turned into a newline
		mutCase(t, "tight", ci, 0, strings.ReplaceAll(c, " ", ""))
		mutCase(t, "wide", ci, 0, strings.ReplaceAll(c, " ", " \n\t "))
	}
	runDeep(t)
}

// deep nestings: recursion depth of the parser / evaluator grows with the input; the depths are far
// below what a 1 GiB goroutine stack allows, so a fatal stack overflow here would be a defect
func runDeep(t *vlib.T) {
	// (parsing n nested blocks costs O(n^2): 20 000 take about a second, 100 000 would look like a hang)
	depths := []int{1, 2, 3, 10, 100, 1000, 5000}
	if t.Thorough() {
		depths = append(depths, 20000)
	}
	rep := strings.Repeat
	type gen struct {
		name string
		f    func(n int) string
	}
	gens := []gen{
		{"paren", func(n int) string { return "{{ " + rep("(", n) + "1" + rep(")", n) + " }}" }},
		{"paren-open", func(n int) string { return "{{ " + rep("(", n) + "1 }}" }},
		{"list", func(n int) string { return "{{ " + rep("[", n) + "1" + rep("]", n) + "|length }}" }},
		{"list-open", func(n int) string { return "{{ " + rep("[", n) }},
		{"hash", func(n int) string { return "{{ " + rep("{'a':", n) + "1" + rep("}", n) + "|length }}" }},
		{"neg", func(n int) string { return "{{ " + rep("- ", n) + "1 }}" }},
		{"not", func(n int) string { return "{{ " + rep("not ", n) + "x ? 1 : 0 }}" }},
		{"filter", func(n int) string { return "{{ x" + rep("|upper", n) + " }}" }},
		{"attr", func(n int) string { return "{{ x" + rep(".s", n) + " }}" }},
		{"index", func(n int) string { return "{{ x" + rep("[0]", n) + " }}" }},
		{"index-nest", func(n int) string { return "{{ " + rep("x[", n) + "0" + rep("]", n) + " }}" }},
		{"plus", func(n int) string { return "{{ 1" + rep(" + 1", n) + " }}" }},
		{"tern", func(n int) string { return "{{ " + rep("x ? 1 : ", n) + "2 }}" }},
		{"call", func(n int) string { return "{{ " + rep("max(", n) + "1" + rep(")", n) + " }}" }},
		{"if", func(n int) string { return rep("{% if x %}", n) + "a" + rep("{% endif %}", n) }},
		{"if-open", func(n int) string { return rep("{% if x %}", n) + "a" }},
		{"for", func(n int) string { return rep("{% for i in [1] %}", n) + "a" + rep("{% endfor %}", n) }},
		{"elseif", func(n int) string { return "{% if z %}a" + rep("{% elseif z %}b", n) + "{% endif %}" }},
		{"block", func(n int) string {
			var sb strings.Builder
			for i := 0; i < n; i++ {
				fmt.Fprintf(&sb, "{%% block b%d %%}", i)
			}
			sb.WriteString("a")
			sb.WriteString(rep("{% endblock %}", n))
			return sb.String()
		}},
		{"apply", func(n int) string { return rep("{% apply upper %}", n) + "a" + rep("{% endapply %}", n) }},
		{"openers", func(n int) string { return rep("{{", n) }},
		{"closers", func(n int) string { return rep("}}", n) + rep("%}", n) }},
		{"tags", func(n int) string { return rep("{%", n) }},
		{"comment-open", func(n int) string { return rep("{#", n) }},
		{"quotes", func(n int) string { return "{{ " + rep("'", n) + " }}" }},
		{"backslashes", func(n int) string { return "{{ '" + rep("\\", n) + "' }}" + rep("\\", n) + "{{ 1 }}" }},
		{"args", func(n int) string { return "{{ max(1" + rep(",1", n) + ") }}" }},
		{"macro-args", func(n int) string { return "{% macro mm(a" + rep(",a", n) + ") %}{{ a }}{% endmacro %}{{ mm(1) }}" }},
		{"long-name", func(n int) string { return "{{ " + rep("x", n) + " }}{% " + rep("y", n) + " %}" }},
		{"long-number", func(n int) string { return "{{ " + rep("9", n) + " }}{{ 1." + rep("9", n) + " }}" }},
	}
	ctxs := []map[string]interface{}{{"x": map[string]interface{}{"s": nil}, "z": 0}}
	for _, n := range depths {
		for _, g := range gens {
			key := fmt.Sprintf("deep|%s|%d", g.name, n)
			g, n := g, n
			tcase(t, key, func() *vlib.Outcome {
				return runSource("deep-"+g.name, g.f(n), ctxs, true, func() interface{} { return map[string]interface{}{"generator": g.name, "depth": n} }, nil)
			})
		}
	}
}
