package main

import (
	"bytes"
	"encoding/binary"
	"encoding/gob"
	"encoding/hex"
	"fmt"
	"runtime"
	"runtime/debug"

	"github.com/semihalev/twig"

	"verif/lib/vlib"
)

const allocSlack = 16 << 20

// runBinCase: decode data (DeserializeCompiledTemplate), load it into a fresh engine
// (LoadFromCompiledData), render what was loaded, canary.
func runBinCase(fam string, data []byte, detail interface{}) *vlib.Outcome {
	o := &vlib.Outcome{Counters: map[string]int64{"decodes": 1}}
	o.Nontrivial = len(data) >= 2 && (data[0] == 1 || fam == "bin-gob")
	show := func() string {
		if len(data) > 80 {
			return fmt.Sprintf("%d bytes %x…", len(data), data[:80])
		}
		return fmt.Sprintf("%d bytes %x", len(data), data)
	}
	var ct *twig.CompiledTemplate
	var derr, lerr error
	runtime.ReadMemStats(&memBefore)
	p := guard(func() { ct, derr = twig.DeserializeCompiledTemplate(data) })
	runtime.ReadMemStats(&memAfter)
	if p != "" {
		debug.FreeOSMemory()
		o.Violation = "DeserializeCompiledTemplate(" + show() + ") panicked: " + p
		o.Detail = detail
		o.Class = fam + ":PANIC"
		return o
	}
	alloc := memAfter.TotalAlloc - memBefore.TotalAlloc
	if alloc > 256<<20 {
		// give a runaway allocation back at once, so that the workers together never hold many GiB
		ct = nil
		debug.FreeOSMemory()
	}
	if limit := uint64(allocSlack + 64*len(data)); alloc > limit {
		o.Violation = fmt.Sprintf("DeserializeCompiledTemplate(%s) allocated %d bytes (limit for this input %d): a length prefix is trusted beyond the remaining input", show(), alloc, limit)
		o.Detail = detail
		o.Class = fam + ":ALLOC"
		return o
	}
	if (ct == nil) == (derr == nil) {
		o.Violation = fmt.Sprintf("DeserializeCompiledTemplate(%s) returned template=%v and error=%v (want exactly one)", show(), ct != nil, derr)
		o.Detail = detail
		return o
	}
	if derr != nil {
		// nothing reaches an engine: LoadFromCompiledData is Deserialize + Register
		o.Class = fam + ":decode-error:" + errClass(derr)
		return o
	}
	e := newEngine()
	p = guard(func() { lerr = e.LoadFromCompiledData(data) })
	if p != "" {
		o.Violation = "LoadFromCompiledData(" + show() + ") panicked: " + p
		o.Detail = detail
		o.Class = fam + ":PANIC-load"
		o.Known = knownParsePanic(string(data), p) // the stored source is parsed here
		return o
	}
	cls := "decoded"
	{
		o.Counters["decoded"] = 1
		if lerr != nil {
			cls += ",load-error"
		} else if ct.Name != "canary" {
			o.Counters["loaded"] = 1
			var rerr error
			if p := guard(func() { _, rerr = e.Render(ct.Name, mutCtxs[0]) }); p != "" {
				o.Violation = fmt.Sprintf("rendering the template loaded from %s (name %q, source %q) panicked: %s", show(), ct.Name, ct.Source, p)
				o.Detail = detail
				return o
			}
			if rerr != nil {
				cls += ",render-error"
			} else {
				cls += ",rendered"
			}
		}
	}
	o.Class = fam + ":" + cls
	if v := checkCanary(e); v != "" && o.Violation == "" {
		o.Violation = "after loading " + show() + ": " + v
		o.Detail = detail
	}
	return o
}

// valid serialisations: produced by the library itself from small templates, plus hand-assembled
// variants with an empty / non-empty AST section, plus the legacy gob format
type validSer struct {
	name string
	data []byte
	// offsets of the three 32-bit length prefixes (binary format only)
	prefixes []int
	fam      string
}

func assemble(name, source string, lm, ct int64, ast []byte) ([]byte, []int) {
	var b bytes.Buffer
	b.WriteByte(1)
	p1 := b.Len()
	binary.Write(&b, binary.LittleEndian, uint32(len(name)))
	b.WriteString(name)
	p2 := b.Len()
	binary.Write(&b, binary.LittleEndian, uint32(len(source)))
	b.WriteString(source)
	binary.Write(&b, binary.LittleEndian, lm)
	binary.Write(&b, binary.LittleEndian, ct)
	p3 := b.Len()
	binary.Write(&b, binary.LittleEndian, uint32(len(ast)))
	b.Write(ast)
	return b.Bytes(), []int{p1, p2, p3}
}

func validSers() []validSer {
	var out []validSer
	lib := func(name, src string) {
		e := twig.New()
		if err := e.RegisterString(name, src); err != nil {
			panic("harness: " + err.Error())
		}
		c, err := e.CompileTemplate(name)
		if err != nil {
			panic("harness: " + err.Error())
		}
		c.CompileTime = 1700000000 // the clock must not enter the case keys
		c.LastModified = 1600000000
		data, err := twig.SerializeCompiledTemplate(c)
		if err != nil {
			panic("harness: " + err.Error())
		}
		// locate the prefixes from the documented layout
		p1 := 1
		p2 := p1 + 4 + len(name)
		p3 := p2 + 4 + len(src) + 16
		out = append(out, validSer{"lib:" + name, data, []int{p1, p2, p3}, "bin-ser"})
	}
	lib("t", "{{ x }}")
	lib("n/a.twig", "{% if x %}a{% else %}b{% endif %}{{ y.s|upper }}")
	lib("", "")
	d, p := assemble("q", "{% for i in x %}{{ i }}{% endfor %}", -1, 1<<62, nil)
	out = append(out, validSer{"asm:noast", d, p, "bin-ser"})
	d, p = assemble("r", "{{ 1 + 2 }}", 0, 0, []byte{0x0c, 0xff, 0x81, 0x02, 0x01, 0x02, 0xff, 0x82, 0x00, 0x01, 0x0c})
	out = append(out, validSer{"asm:ast", d, p, "bin-ser"})
	d, p = assemble("bad", "{% if %}", 5, 6, []byte{1, 2, 3})
	out = append(out, validSer{"asm:badsrc", d, p, "bin-ser"})
	// legacy format: gob of the exported struct
	for _, c := range []twig.CompiledTemplate{
		{Name: "g", Source: "{{ x }}!", LastModified: 3, CompileTime: 4, AST: []byte{9, 9}},
		{Name: "h", Source: "{% set a = 1 %}{{ a }}"},
	} {
		var b bytes.Buffer
		if err := gob.NewEncoder(&b).Encode(&c); err != nil {
			panic("harness: " + err.Error())
		}
		out = append(out, validSer{"gob:" + c.Name, b.Bytes(), nil, "bin-gob"})
	}
	return out
}

var boundaryBytes = []byte{0x00, 0x01, 0x02, 0x7f, 0x80, 0xff}

func binCase(t *vlib.T, fam string, data []byte, detail interface{}) {
	if t.Stopped() {
		return
	}
	key := fam + "|" + hex.EncodeToString(data)
	if !t.Owns(key) {
		return
	}
	d := append([]byte{}, data...)
	tcase(t, key, func() *vlib.Outcome { return runBinCase(fam, d, detail) })
}

func runBin(t *vlib.T) {
	// (1) every byte string of length <= 2
	binCase(t, "bin-all", nil, nil)
	for a := 0; a < 256; a++ {
		binCase(t, "bin-all", []byte{byte(a)}, nil)
	}
	for a := 0; a < 256; a++ {
		for b := 0; b < 256; b++ {
			binCase(t, "bin-all", []byte{byte(a), byte(b)}, nil)
		}
	}
	// (2) mutations of valid serialisations
	for _, vs := range validSers() {
		binCase(t, vs.fam, vs.data, vs.name)
		for i := 0; i < len(vs.data); i++ {
			binCase(t, vs.fam, vs.data[:i], vs.name+" prefix")
			for _, b := range boundaryBytes {
				if vs.data[i] == b {
					continue
				}
				m := append([]byte{}, vs.data...)
				m[i] = b
				binCase(t, vs.fam, m, fmt.Sprintf("%s byte %d := %#x", vs.name, i, b))
			}
			// +1 / -1 on every byte (off-by-one in any length or tag)
			for _, dlt := range []byte{1, 0xff} {
				m := append([]byte{}, vs.data...)
				m[i] += dlt
				binCase(t, vs.fam, m, fmt.Sprintf("%s byte %d += %d", vs.name, i, int8(dlt)))
			}
		}
		for pi, off := range vs.prefixes {
			rem := len(vs.data) - off - 4
			for _, v := range []int64{0, int64(rem) - 1, int64(rem), int64(rem) + 1, 1<<31 - 1, 1 << 31, 1<<32 - 1, 1 << 26, 1 << 16} {
				if v < 0 {
					continue
				}
				m := append([]byte{}, vs.data...)
				binary.LittleEndian.PutUint32(m[off:], uint32(v))
				binCase(t, vs.fam, m, fmt.Sprintf("%s length prefix #%d := %d", vs.name, pi, v))
				// the same with everything after the prefix cut off
				binCase(t, vs.fam, m[:off+4], fmt.Sprintf("%s length prefix #%d := %d, rest cut", vs.name, pi, v))
			}
		}
	}
	// (3) every string of length 3..L over the six boundary bytes
	L := 6
	if t.Thorough() {
		L = 8
	}
	for n := 3; n <= L; n++ {
		buf := make([]byte, n)
		var rec func(i int)
		rec = func(i int) {
			if i == n {
				binCase(t, "bin-six", buf, nil)
				return
			}
			for _, b := range boundaryBytes {
				buf[i] = b
				rec(i + 1)
			}
		}
		rec(0)
	}
}
