package main

import (
	"fmt"
	"math"

	"verif/lib/vlib"
)

// Family `gh`: hashing and comparing context values whose TYPE is comparable while the VALUE is not.
//
// A Go struct or array type whose fields / elements are interfaces is a legal map key type, but
// using such a value as a key (or comparing it with ==) panics when an interface inside holds a
// slice, a map or a func. Engine code that decides "can this be hashed?" by looking at the type
// (Kind, Comparable) is right for every shape of the value grid and wrong for these. The engine
// hashes values in the `in` operator once a list has more than 50 elements, in hash literals, in
// item access on maps with interface keys, and compares them in ==, `same_as`, `sort`, `max`...
//
// Enumerated: every list builder (length x position of the odd element x odd element x container
// type) x every needle x every construct below.

type oddVal struct {
	name string
	v    interface{}
	cell bool // a Cell value (can be an element of []Cell)
	arr  bool // a [2]interface{} value (can be an element of [][2]interface{})
}

type sliceErr struct{ s []int } // an error whose dynamic type is not comparable

func (e sliceErr) Error() string { return "slice error" }

type hasList struct{ L []int } // the type itself is not comparable

var (
	hashN    = 7
	hashCh   = make(chan int)
	hashIfc  interface{} = []int{1}
	hashOdds             = []oddVal{
		// comparable type, unhashable contents
		{"cellL", Cell{"t", []string{"a", "b"}}, true, false},
		{"cellM", Cell{"t", map[string]interface{}{"k": "v"}}, true, false},
		{"cellF", Cell{"t", func() {}}, true, false},
		{"cellCell", Cell{"t", Cell{"u", []int{1}}}, true, false},
		{"cellArr", Cell{"t", [1]interface{}{[]int{1}}}, true, false},
		{"cellU", Cell{"t", hasList{[]int{1}}}, true, false},
		{"arrL", [2]interface{}{"pair", []int{1, 2}}, false, true},
		{"arrM", [2]interface{}{"pair", map[string]int{"k": 1}}, false, true},
		{"arrArr", [2]interface{}{"pair", [1]interface{}{[]int{1}}}, false, true},
		// comparable type, hashable contents (controls; NaN is hashable but never equal to itself)
		{"cellOK", Cell{"t", 1}, true, false},
		{"cellNil", Cell{}, true, false},
		{"cellNaN", Cell{"t", math.NaN()}, true, false},
		{"cellP", Cell{"t", &hashN}, true, false},
		{"cellCh", Cell{"t", hashCh}, true, false},
		{"arrOK", [2]interface{}{"pair", 1}, false, true},
		// pointers, funcs, chans, NaN, plain lists and maps, uncomparable struct types
		{"pcell", &Cell{"t", []int{1}}, false, false},
		{"ptr", &hashN, false, false},
		{"pifc", &hashIfc, false, false},
		{"fn", func() {}, false, false},
		{"ch", hashCh, false, false},
		{"nan", math.NaN(), false, false},
		{"list", []interface{}{1}, false, false},
		{"map", map[string]interface{}{"k": 1}, false, false},
		{"ustruct", hasList{[]int{1}}, false, false},
		{"errU", sliceErr{[]int{1}}, false, false},
	}
	// plain needles: present in every list, absent, the string form of a present one, nil, a float, a bool
	hashPlain = []oddVal{{"i7", 7, false, false}, {"im1", -1, false, false}, {"s7", "7", false, false}, {"nil", nil, false, false}, {"f15", 1.5, false, false}, {"true", true, false, false}}
)

type hashList struct {
	name  string
	build func() interface{}
}

func oddIndex(pos string, n int) int {
	switch pos {
	case "first":
		return 0
	case "mid":
		return n / 2
	}
	return n - 1
}

// hashLists: every container of the family, simplest first.
func hashLists(thorough bool) []hashList {
	lens := []int{51, 64, 100}
	if thorough {
		lens = []int{50, 51, 52, 64, 100, 1000}
	}
	var ls []hashList
	add := func(name string, build func() interface{}) { ls = append(ls, hashList{name, build}) }
	for _, n := range lens {
		n := n
		for _, pos := range []string{"first", "mid", "last"} {
			at := oddIndex(pos, n)
			for oi := range hashOdds {
				o := &hashOdds[oi]
				// untyped list
				add(fmt.Sprintf("u%d/%s/%s", n, pos, o.name), func() interface{} {
					r := make([]interface{}, n)
					for i := range r {
						r[i] = i
					}
					r[at] = o.v
					return r
				})
				if o.cell {
					add(fmt.Sprintf("tcell%d/%s/%s", n, pos, o.name), func() interface{} {
						r := make([]Cell, n)
						for i := range r {
							r[i] = Cell{"n", i}
						}
						r[at] = o.v.(Cell)
						return r
					})
				}
				if o.arr {
					add(fmt.Sprintf("tarr%d/%s/%s", n, pos, o.name), func() interface{} {
						r := make([][2]interface{}, n)
						for i := range r {
							r[i] = [2]interface{}{"n", i}
						}
						r[at] = o.v.([2]interface{})
						return r
					})
				}
			}
			add(fmt.Sprintf("tf64_%d/%s/nan", n, pos), func() interface{} {
				r := make([]float64, n)
				for i := range r {
					r[i] = float64(i)
				}
				r[at] = math.NaN()
				return r
			})
			add(fmt.Sprintf("terr%d/%s/errU", n, pos), func() interface{} {
				r := make([]error, n)
				for i := range r {
					r[i] = fmt.Errorf("e%d", i)
				}
				r[at] = sliceErr{[]int{1}}
				return r
			})
		}
		// typed lists whose every element is of the odd kind
		add(fmt.Sprintf("tfn%d", n), func() interface{} {
			r := make([]func(), n)
			for i := range r {
				r[i] = func() {}
			}
			return r
		})
		add(fmt.Sprintf("tch%d", n), func() interface{} {
			r := make([]chan int, n)
			for i := range r {
				r[i] = make(chan int)
			}
			return r
		})
		add(fmt.Sprintf("tptr%d", n), func() interface{} {
			r := make([]*int, n)
			for i := range r {
				if i%2 == 0 {
					r[i] = &hashN
				}
			}
			return r
		})
		add(fmt.Sprintf("tmap%d", n), func() interface{} {
			r := make([]map[string]int, n)
			for i := range r {
				r[i] = map[string]int{"k": i}
			}
			return r
		})
	}
	// Go arrays as containers (the length is part of the type)
	for _, pos := range []string{"first", "mid", "last"} {
		at := oddIndex(pos, 51)
		for oi := range hashOdds {
			o := &hashOdds[oi]
			add(fmt.Sprintf("a51/%s/%s", pos, o.name), func() interface{} {
				var r [51]interface{}
				for i := range r {
					r[i] = i
				}
				r[at] = o.v
				return r
			})
		}
	}
	return ls
}

// constructs: v = needle, a = list, km = a map with interface keys
var hashBoth = []string{
	"{{ v in a ? 1 : 0 }}",
	"{{ v not in a ? 1 : 0 }}",
	"{% if v in a %}y{% else %}n{% endif %}",
	"{{ v is same_as(a|last) ? 1 : 0 }}{{ a|first is same_as(v) ? 1 : 0 }}",
	"{{ v is sameas(a|first) ? 1 : 0 }}{{ a|last is not same_as(v) ? 1 : 0 }}",
	"{{ v == a|last ? 1 : 0 }}{{ a|first != v ? 1 : 0 }}",
	"{{ {(v): 1, (a|first): 2, (a|last): 3}|length }}",
	"{{ km[v] }}{{ km[a|first] }}{{ km[a|last] }}",
	"{{ a|merge([v])|length }}{{ v in a|merge([v]) ? 1 : 0 }}",
	"{{ v in a|slice(0, 51) ? 1 : 0 }}{{ v in a|slice(0, 50) ? 1 : 0 }}",
	"{{ v in a|reverse ? 1 : 0 }}",
	"{% for x in a %}{% if x == v %}={% endif %}{% endfor %}",
	"{{ [v] == a ? 1 : 0 }}{{ v in [a|first, a|last] ? 1 : 0 }}",
	"{{ a in [v, a] ? 1 : 0 }}",
}
var hashListOnly = []string{
	"{% for x in a %}{{ x in a ? 1 : 0 }}{% endfor %}",
	"{{ a|first in a ? 1 : 0 }}{{ a|last in a ? 1 : 0 }}{{ 7 in a ? 1 : 0 }}{{ 'q' not in a ? 1 : 0 }}",
	"{{ a == a ? 1 : 0 }}{{ a is same_as(a) ? 1 : 0 }}{{ a in a ? 1 : 0 }}",
	"{{ 7 in a|merge(a) ? 1 : 0 }}{{ a|merge(a)|length }}",
	"{{ a|slice(1, 60)|length }}{{ 7 in a|slice(1, 60) ? 1 : 0 }}",
	"{% set q = {} %}{% for x in a %}{% set q = q|merge({(x): 1}) %}{% endfor %}{{ q|length }}",
	"{{ a|sort|length }}",
	"{{ a|reverse|first is same_as(a|last) ? 1 : 0 }}",
	"{{ a|keys|length }}{{ a|length }}{{ a is empty ? 1 : 0 }}{{ a is iterable ? 1 : 0 }}",
	"{{ a|join(',')|length }}",
	"{{ a|json_encode|length }}",
	"{{ max(a) }}{{ min(a) }}",
	"{{ {'k': a}|merge({'k': a})|length }}",
	"{{ a|first }}{{ a|last }}",
}

func runHash(t *vlib.T) {
	lists := hashLists(t.Thorough())
	needles := append(append([]oddVal{}, hashPlain...), hashOdds...)
	km := map[interface{}]interface{}{1: "a", "k": 2}
	one := func(key, src string, needle *oddVal, l *hashList) {
		if !t.Owns(key) {
			return
		}
		tcase(t, key, func() *vlib.Outcome {
			ctx := map[string]interface{}{"a": l.build(), "km": km}
			nd := "-"
			if needle != nil {
				ctx["v"] = needle.v
				nd = needle.name
			}
			o := runSource("gh", src, []map[string]interface{}{ctx}, true, func() interface{} {
				return map[string]interface{}{"template": src, "needle v": fmt.Sprintf("%s = %#v", nd, ctx["v"]), "list a": l.name + " (length / position of the odd element / odd element; u = []interface{}, tcell = []Cell, tarr = [][2]interface{}, a51 = [51]interface{}; the other elements are the ints 0..n-1)"}
			}, func(pan string) string { return knownSameAsPanic(src, []interface{}{ctx["v"], ctx["a"]}, pan) })
			if o.Counters["renders"] == 0 {
				o.Nontrivial = false
			}
			return o
		})
	}
	for li := range lists {
		l := &lists[li]
		for _, src := range hashListOnly {
			if t.Stopped() {
				return
			}
			one("gh|"+src+"|"+l.name, src, nil, l)
		}
		for _, src := range hashBoth {
			for ni := range needles {
				if t.Stopped() {
					return
				}
				one("gh|"+src+"|"+needles[ni].name+"|"+l.name, src, &needles[ni], l)
			}
		}
	}
}
