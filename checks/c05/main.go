// C05 — no template source or context value makes the engine panic or hang.
//
// Bounded-exhaustive enumeration of five input spaces against the real engine, each case in an
// expendable worker process (a Go fatal error or a hang kills only the worker; vlib isolates the
// culprit case):
//
//	lex   every sequence of at most k lexemes (free sequences; `{% tag <k inner lexemes> %}`;
//	      `{{ <k expression lexemes> }}`), spaced and unspaced, also behind a 4100-byte text prefix
//	      (which selects the second tokenizer)
//	mut   every distance-1 mutation (lexeme deleted / duplicated / swapped with its neighbour /
//	      truncation; byte deleted / replaced by a delimiter byte) of a 94-template corpus that uses
//	      every tag and expression form; plus deep-nesting sources
//	grid  every construct that takes operands (each filter with 0..3 arguments, each function, each
//	      test, each operator - the names are read from the engine's core extension -, item/attribute
//	      access, for, in, include, ...) x every Go value shape for the subject x 37 (thorough: all
//	      111) shapes for the first argument x 6 (15) for the second
//	hash  lists above the 50-element threshold of the `in` fast path with one element (or a needle)
//	      of a comparable type whose contents cannot be hashed, x constructs that hash or compare
//	num   every registered filter x 19 subjects (NaN, +-Inf as float64 / float32 and as the strings
//	      'NaN', 'inf', '-Inf', '+Infinity', '1e999', '-1e999'; seven finite ones) x 9 call forms x
//	      integer arguments -100, -1, 0, 1, 2, 3, 1 000 000 (context value and literal)
//	hist  render histories on ONE engine: a render that fails inside an include (13 failing leaves x
//	      12 include option sets x 11 placements), then 23 sound templates with includes nested 1..3
//	      deep that write to / read through their contexts; several rounds, without and with forced
//	      garbage collections; also the reverse order, the same and two different failures in a row
//	bin   every byte string of length <= 2, every string of length <= 6 (thorough 8) over six boundary bytes, and
//	      for eight valid serialisations every prefix, every single-byte substitution and every
//	      length prefix rewritten to seven boundary values, as compiled-template data
//
// Oracle (from the statement only): each API call returns (value | error) - no panic, no fatal
// error, no unresponsive worker; afterwards a canary template still renders correctly on the SAME
// engine; decoding N bytes allocates at most 16 MiB + 64*N.
package main

import (
	"fmt"
	"os"
	"regexp"
	"runtime"
	"runtime/debug"
	"strings"
	"time"

	"github.com/semihalev/twig"

	"verif/lib/vlib"
)

const canarySrc = "{% for i in [1,2] %}{{ i }}{% endfor %}{{ 'a'|upper }}{{ c.k }}{% if c.k is defined %}!{% endif %}"
const canaryWant = "12AV!"

var canaryCtx = map[string]interface{}{"c": map[string]interface{}{"k": "V"}}

// helper templates that the generated sources may include / extend / import. None of them refers
// to another template, and no generated source can name the template under test ("main"), so no
// generated program recurses (unterminated recursion is outside the guarantee).
var helpers = [][2]string{
	{"s", "S{{ x }}{% block b %}sb{% endblock %}{% macro m(a) %}sm{{ a }}{% endmacro %}"},
	{"base", "<{% block b %}B0{% endblock %}|{% block c %}C0{{ x }}{% endblock %}>"},
	{"lib", "{% macro m(a, b = 'd') %}[{{ a }}{{ b }}]{% endmacro %}{% macro n() %}N{% endmacro %}"},
}

var helperMap = func() map[string]string {
	m := map[string]string{"canary": canarySrc}
	for _, h := range helpers {
		m[h[0]] = h[1]
	}
	return m
}()

// newEngine: a fresh engine whose helper templates and canary are served by an array loader (so they
// are parsed only when a case asks for them).
func newEngine() *twig.Engine {
	e := twig.New()
	e.RegisterLoader(twig.NewArrayLoader(helperMap))
	return e
}

// guard runs f and turns a panic into a description (twig code only; the harness's own helpers
// above panic outside of it).
func guard(f func()) (pan string) {
	defer func() {
		if r := recover(); r != nil {
			pan = fmt.Sprintf("%v\n%s", r, twigFrames(debug.Stack()))
		}
	}()
	f()
	return ""
}

// twigFrames keeps the first frames of the stack that lie in twig (enough to name the culprit).
func twigFrames(st []byte) string {
	var keep []string
	lines := strings.Split(string(st), "\n")
	for i := 0; i+1 < len(lines) && len(keep) < 8; i++ {
		if strings.Contains(lines[i], "semihalev/twig.") || strings.HasPrefix(lines[i], "reflect.") || strings.HasPrefix(lines[i], "runtime.") && !strings.Contains(lines[i], "gopanic") && !strings.Contains(lines[i], "debug.Stack") {
			keep = append(keep, strings.TrimSpace(lines[i])+" @ "+strings.TrimSpace(lines[i+1]))
		}
	}
	return strings.Join(keep, "\n")
}

func checkCanary(e *twig.Engine) string {
	var out string
	var err error
	if p := guard(func() { out, err = e.Render("canary", canaryCtx) }); p != "" {
		return "canary render on the same engine panicked afterwards: " + p
	}
	if err != nil {
		return "canary render on the same engine failed afterwards: " + err.Error()
	}
	if out != canaryWant {
		return fmt.Sprintf("canary render on the same engine gave %q afterwards, want %q", out, canaryWant)
	}
	return ""
}

var reDigits = regexp.MustCompile(`[0-9]+`)
var reQuoted = regexp.MustCompile(`'[^']*'|"[^"]*"|` + "`[^`]*`")

// errClass reduces an error message to a coarse label (vacuity guard only).
func errClass(err error) string {
	s := err.Error()
	s = reQuoted.ReplaceAllString(s, "Q")
	s = reDigits.ReplaceAllString(s, "N")
	if i := strings.IndexByte(s, '\n'); i >= 0 {
		s = s[:i]
	}
	if len(s) > 48 {
		s = s[:48]
	}
	return s
}

// runSource: parse src as template "main" on a fresh engine, render it with every context, then the
// canary. ctxs may be nil (parse only).
func runSource(fam, src string, ctxs []map[string]interface{}, nontrivial bool, detail func() interface{}, renderKF func(pan string) string) *vlib.Outcome {
	if slowLog != "" { // development aid only; never part of the verdict
		t0 := time.Now()
		defer func() {
			if d := time.Since(t0); d > 100*time.Millisecond {
				if f, err := os.OpenFile(slowLog, os.O_APPEND|os.O_CREATE|os.O_WRONLY, 0o644); err == nil {
					fmt.Fprintf(f, "%v %s %s %v\n", d, fam, showSrc(src), det(detail))
					f.Close()
				}
			}
		}()
	}
	o := &vlib.Outcome{Nontrivial: nontrivial, Counters: map[string]int64{}}
	e := newEngine()
	var perr error
	if p := guard(func() { perr = e.RegisterString("main", src) }); p != "" {
		o.Violation = fmt.Sprintf("parsing %s panicked: %s", showSrc(src), p)
		o.Detail = det(detail)
		o.Class = fam + ":PANIC-parse"
		o.Known = knownParsePanic(src, p)
		return o
	}
	o.Counters["parses"] = 1
	cls := ""
	if perr != nil {
		cls = "parse-error:" + errClass(perr)
		o.Counters["parse_errors"] = 1
	} else {
		for i, ctx := range ctxs {
			var rerr error
			if p := guard(func() { _, rerr = e.Render("main", ctx) }); p != "" {
				o.Violation = fmt.Sprintf("rendering %s with context #%d panicked: %s", showSrc(src), i, p)
				o.Detail = det(detail)
				o.Class = fam + ":PANIC-render"
				if renderKF != nil {
					o.Known = renderKF(p)
				}
				return o
			}
			o.Counters["renders"]++
			if rerr != nil {
				o.Counters["render_errors"]++
				cls += "E:" + errClass(rerr) + ";"
			} else {
				cls += "ok;"
			}
		}
	}
	if len(cls) > 90 {
		cls = cls[:90]
	}
	o.Class = fam + ":" + cls
	if v := checkCanary(e); v != "" {
		o.Violation = fmt.Sprintf("after %s: %s", showSrc(src), v)
		o.Detail = det(detail)
	}
	return o
}

var violLog = os.Getenv("C05_VIOLLOG")
var keyLog = os.Getenv("C05_KEYLOG")

// tcase = t.Case, plus (development aid) a log of every violating case
func tcase(t *vlib.T, key string, fn func() *vlib.Outcome) {
	t.Case(key, func() *vlib.Outcome {
		if keyLog != "" { // development aid: the file of a dead worker names the case it was running
			os.WriteFile(fmt.Sprintf("%s.%d", keyLog, os.Getpid()), []byte(key+"\n"), 0o644)
		}
		o := fn()
		if o != nil {
			if o.Counters == nil {
				o.Counters = map[string]int64{}
			}
			fam := key
			if i := strings.IndexAny(key, "|-+"); i > 0 {
				fam = key[:i]
			}
			o.Counters["cases_"+fam]++
		}
		if violLog == "" {
			return o
		}
		if o != nil && o.Violation != "" {
			if f, err := os.OpenFile(violLog, os.O_APPEND|os.O_CREATE|os.O_WRONLY, 0o644); err == nil {
				v := strings.Split(o.Violation, "\n")
				if len(v) > 3 {
					v = v[:3]
				}
				fmt.Fprintf(f, "%q\t%s\n", key, strings.Join(v, " // "))
				f.Close()
			}
		}
		return o
	})
}

func det(f func() interface{}) interface{} {
	if f == nil {
		return nil
	}
	return f()
}

func showSrc(s string) string {
	if len(s) > 300 {
		return fmt.Sprintf("%q…(%d bytes, last 200: %q)", s[:60], len(s), s[len(s)-200:])
	}
	return fmt.Sprintf("%q", s)
}

var memBefore, memAfter runtime.MemStats

var slowLog = os.Getenv("C05_SLOWLOG")
var onlyFam = os.Getenv("C05_ONLY")

// memoryWatchdog ends the worker when the Go heap passes 8 GiB (no case of the check needs more
// than a few hundred MiB; decoding hostile compiled data on a tree without length validation
// reaches 2-4 GiB and is judged by its own allocation oracle). A render that allocates without
// end would otherwise take the whole machine down before the hang guard notices; a worker that
// ends this way is treated like every dead worker: vlib re-runs its shard key by key and names the
// case.
func memoryWatchdog() {
	var ms runtime.MemStats
	for {
		time.Sleep(250 * time.Millisecond)
		runtime.ReadMemStats(&ms)
		if ms.HeapAlloc > 8<<30 {
			fmt.Fprintf(os.Stderr, "fatal: C05 memory watchdog: the case in progress made the heap grow to %d MiB (runaway allocation); worker ended\n", ms.HeapAlloc>>20)
			os.Exit(97)
		}
	}
}

func main() {
	vlib.Main(vlib.Spec{
		ID: "C05", Level: "exploration",
		Rule: "bounded-exhaustive: (lex) all sequences of <=k lexemes - free, inside {% tag ... %}, inside {{ ... }} - spaced/unspaced, also behind a 4100-byte prefix (second tokenizer); (mut) all distance-1 lexeme and byte mutations and truncations of a 94-template corpus, deep nestings; (grid) each of " + fmt.Sprint(len(constructs)) + " operand-taking constructs - every filter / function / test / word operator that the engine under test registers in its core extension (names read from the engine, so a newly added one is swept too) in every call form incl. an argument computed in the template (a / 4) - x each of " + fmt.Sprint(len(shapes)) + " Go value shapes for the subject x " + fmt.Sprint(len(aQuick)) + " (thorough: all) shapes for the first argument x " + fmt.Sprint(len(bQuick)) + " (thorough: " + fmt.Sprint(len(bShapes)) + ") for the second, the shapes including fractions strictly between 0 and 1 (float64, float32, numeric string), 1e300, 2^63 as a float, NaN, +-Inf; (hash) every list of 51 / 64 / 100 (thorough also 50, 52, 1000) elements - untyped, []Cell, [][2]interface{}, []float64, []error, [51]interface{} - with one odd element first / in the middle / last out of 25 (values of a comparable type holding a slice, map or func behind an interface; pointers, funcs, chans, NaN) x 31 needles x 28 constructs that hash or compare (in, not in, same_as, ==, hash keys, item access, merge, sort, max); (num) every registered filter x 19 subjects (NaN, +Inf, -Inf as float64 and float32 and spelled as the strings 'NaN', 'inf', '-Inf', '+Infinity', '1e999', '-1e999'; 7 finite numbers / strings / a list) x 9 call forms (0..3 arguments, apply, chained twice) x the integer argument -100, -1, 0, 1, 2, 3, 1000000 given as a context value and as a literal; (hist) on one engine, every history [render failing inside an include: 13 failing leaves x 12 include option sets (plain/with/only/sandboxed/ignore missing and combinations, failing with-expression) x 11 placements (top, loop, capture, apply, macro, block, nested 2 and 3 deep) x policy installed or not] then [23 sound templates with includes nested 1..3 deep using set/for/macro/with/only/lookups], 4 rounds (thorough: 23), orders FS/SF/FFS and two different failures in a row, with 0/1/2 forced GCs in between - every render must not panic and must give what an engine without history gives; (bin) all byte strings <=2, all strings <=6 (thorough: 8) over 6 boundary bytes, all prefixes / single-byte substitutions / boundary length prefixes of 8 valid serialisations. Each case: fresh engine, parse, render, then a canary on the same engine; panics recovered and reported, fatal errors and hangs isolated by the worker protocol. Non-trivial = lex/mut: the source contains a tag opener (the tag parsers are reached); grid: the template parsed and was rendered with a subject that is not a plain untyped scalar; num: the template parsed and was rendered with a non-finite subject or an integer argument; hist: the failing render really returned an error; bin: the decoder got past the version byte or into the gob fallback with >= 2 bytes",
		Assumptions: []string{
			"'every byte string' is bounded as stated in Rule; 'hang' = a worker that prints no progress for 120 s (25 s when re-run alone), confirmed twice on the case alone",
			"integers that drive the SIZE of a result (range bounds, `..` bounds, slice/cycle positions are fine) are kept small: range(0, 2^63-1) asks for 2^63 elements and is not distinguishable from a hang",
			"unterminated recursion written by the template and panics raised inside caller-supplied callbacks are outside the guarantee and are not generated (context values only carry methods that cannot panic)",
			"allocation bound for decoding compiled data: TotalAlloc delta <= 16 MiB + 64*N for N input bytes",
		},
		QuickDeadline: 400, ThoroughDeadline: 840,
		Extra: func(tier string, cov map[string]interface{}) {
			// names found in the engine's core extension beyond the lists this check was written with
			cov["names_discovered_in_engine"] = append([]string{}, discovered...)
			cov["names_swept"] = map[string]int{"filters": len(filters), "functions": len(functions), "tests": len(tests), "operators": len(binops)}
		},
		Run: func(t *vlib.T) {
			go memoryWatchdog()
			fams := []struct {
				name string
				run  func(*vlib.T)
			}{{"flood", runFlood}, {"num", runNum}, {"hist", runHist}, {"hash", runHash}, {"grid", runGrid}, {"mut", runMut}, {"lex", runLex},
				{"bin", runBin}} // bin last: on a tree that trusts length prefixes these cases allocate GiBs and are slow
			for _, f := range fams {
				if onlyFam == "" || onlyFam == f.name { // C05_ONLY: development aid, never set by run.sh
					f.run(t)
				}
			}
		},
	})
}
