// C19 — built-in filters satisfy their defining equations for every input.
//
// One law table per filter; every law is checked on a full grid of small inputs (all strings of
// length <= 4 over a 7-symbol alphabet with multi-byte characters, all short lists in every slice
// type, all small maps, the whole slice(start, length) index grid, all decimals k/1000 (thorough
// k/10000) for abs / round / number_format, every code point for the case laws). Expected values
// come from a few lines of reference code transcribed from the statement (Twig index rules, exact
// decimal arithmetic on integers), never from twig's implementation.
package main

import (
	"fmt"
	"math"
	"reflect"
	"sort"
	"strconv"
	"strings"
	"unicode/utf8"

	"github.com/semihalev/twig"

	"verif/lib/vlib"
)

// ---------------------------------------------------------------------------------------------
// running twig

func render(src string, ctx map[string]interface{}) (string, error) {
	e := twig.New()
	if err := e.RegisterString("t", src); err != nil {
		return "", fmt.Errorf("parse: %w", err)
	}
	return e.Render("t", ctx)
}

type tc struct {
	key  string
	src  string
	ctx  func() map[string]interface{}
	eval func(out string) *vlib.Outcome // out is the rendered text (no error)
}

func bad(o *vlib.Outcome, format string, a ...interface{}) *vlib.Outcome {
	o.Violation = fmt.Sprintf(format, a...)
	return o
}

func runCase(t *vlib.T, c tc) {
	t.Case(c.key, func() *vlib.Outcome {
		var ctx map[string]interface{}
		if c.ctx != nil {
			ctx = c.ctx()
		}
		out, err := render(c.src, ctx)
		if err != nil {
			return &vlib.Outcome{Nontrivial: true, Class: "error", Violation: fmt.Sprintf("template %q context %s: render failed: %v", c.src, showCtx(ctx), err),
				Detail: map[string]interface{}{"template": c.src, "context": showCtx(ctx)}}
		}
		o := c.eval(out)
		if o.Violation != "" {
			o.Violation = fmt.Sprintf("template %q context %s: %s (output %q)", c.src, showCtx(ctx), o.Violation, out)
			o.Detail = map[string]interface{}{"template": c.src, "context": showCtx(ctx), "output": out}
		}
		o.Counters = map[string]int64{"renders": 1, "cases_" + family(c.key): 1}
		return o
	})
}

// family is the law table a case belongs to (first key segment, two for the number laws)
func family(key string) string {
	p := strings.SplitN(key, "/", 3)
	if len(p) >= 2 && (p[0] == "num" || p[0] == "reverse" || p[0] == "nest") {
		return p[0] + "_" + p[1]
	}
	return p[0]
}

func showCtx(ctx map[string]interface{}) string {
	var ks []string
	for k := range ctx {
		ks = append(ks, k)
	}
	sort.Strings(ks)
	var b strings.Builder
	b.WriteString("{")
	for i, k := range ks {
		if i > 0 {
			b.WriteString(", ")
		}
		fmt.Fprintf(&b, "%s: %#v", k, ctx[k])
	}
	b.WriteString("}")
	return b.String()
}

// parts splits the output of a template whose sections are separated by '|'
func parts(out string, n int) ([]string, bool) {
	p := strings.Split(out, "|")
	return p, len(p) == n
}

// items parses "[a][b][c]" into its elements
func items(s string) ([]string, bool) {
	var r []string
	for len(s) > 0 {
		if s[0] != '[' {
			return nil, false
		}
		j := strings.IndexByte(s, ']')
		if j < 0 {
			return nil, false
		}
		r = append(r, s[1:j])
		s = s[j+1:]
	}
	return r, true
}

func bracket(xs []string) string {
	var b strings.Builder
	for _, x := range xs {
		b.WriteString("[" + x + "]")
	}
	return b.String()
}

// ---------------------------------------------------------------------------------------------
// input spaces

var strAlpha = []string{"a", "B", " ", "é", "ß", "日", "\n"}

// two combining marks (acute accent, diaeresis): code points that are characters of their own for
// length / first / last / slice / for and that reverse moves like any other — at the start of a
// string, after a base character, after another mark, alone
var markAlpha = []string{"\u0301", "\u0308"}

func hasMark(s string) bool { return strings.ContainsAny(s, "\u0301\u0308") }

// all strings of length <= n over alpha, shortest first
func allStrings(alpha []string, n int) []string {
	res := []string{""}
	level := []string{""}
	for l := 1; l <= n; l++ {
		var next []string
		for _, p := range level {
			for _, a := range alpha {
				next = append(next, p+a)
			}
		}
		res = append(res, next...)
		level = next
	}
	return res
}

// all index vectors of length <= n over k symbols, shortest first
func allVectors(k, n int) [][]int {
	res := [][]int{{}}
	level := [][]int{{}}
	for l := 1; l <= n; l++ {
		var next [][]int
		for _, p := range level {
			for a := 0; a < k; a++ {
				v := append(append([]int{}, p...), a)
				next = append(next, v)
			}
		}
		res = append(res, next...)
		level = next
	}
	return res
}

// a list value in one of its Go representations, with the printed form of its elements
type listVal struct {
	name  string // stable description for the key
	kind  string // "num" | "str"
	typ   string // "[]interface{}" | "[]int" | "[]string" | "[]float64"
	elems []string
	nums  []float64
	mk    func() interface{}
}

var numAlpha = []int{1, 2, 10, -3}
var floatAlpha = []float64{1.5, 2.5, -1, 10}
var strElemAlpha = []string{"a", "b", "ab", "é"}

func fmtFloat(f float64) string { return strconv.FormatFloat(f, 'f', -1, 64) }

func listsOf(maxLen int, withFloats bool) []listVal {
	return listsOfN(maxLen, withFloats, len(numAlpha))
}

// the same lists over the first nsym symbols of each alphabet only (same names)
func listsOfN(maxLen int, withFloats bool, nsym int) []listVal {
	var res []listVal
	for _, v := range allVectors(nsym, maxLen) {
		v := v
		el := make([]string, len(v))
		nu := make([]float64, len(v))
		for i, x := range v {
			el[i] = strconv.Itoa(numAlpha[x])
			nu[i] = float64(numAlpha[x])
		}
		name := strings.Join(el, ",")
		res = append(res, listVal{name: "any[" + name + "]", kind: "num", typ: "[]interface{}", elems: el, nums: nu, mk: func() interface{} {
			r := make([]interface{}, len(v))
			for i, x := range v {
				r[i] = numAlpha[x]
			}
			return r
		}})
		res = append(res, listVal{name: "int[" + name + "]", kind: "num", typ: "[]int", elems: el, nums: nu, mk: func() interface{} {
			r := make([]int, len(v))
			for i, x := range v {
				r[i] = numAlpha[x]
			}
			return r
		}})
	}
	for _, v := range allVectors(nsym, maxLen) {
		v := v
		el := make([]string, len(v))
		for i, x := range v {
			el[i] = strElemAlpha[x]
		}
		name := strings.Join(el, ",")
		res = append(res, listVal{name: "anys[" + name + "]", kind: "str", typ: "[]interface{}", elems: el, mk: func() interface{} {
			r := make([]interface{}, len(v))
			for i, x := range v {
				r[i] = strElemAlpha[x]
			}
			return r
		}})
		res = append(res, listVal{name: "string[" + name + "]", kind: "str", typ: "[]string", elems: el, mk: func() interface{} {
			r := make([]string, len(v))
			for i, x := range v {
				r[i] = strElemAlpha[x]
			}
			return r
		}})
	}
	if withFloats {
		fl := maxLen
		if fl > 3 {
			fl = 3
		}
		for _, v := range allVectors(nsym, fl) {
			v := v
			el := make([]string, len(v))
			nu := make([]float64, len(v))
			for i, x := range v {
				el[i] = fmtFloat(floatAlpha[x])
				nu[i] = floatAlpha[x]
			}
			name := strings.Join(el, ",")
			res = append(res, listVal{name: "float[" + name + "]", kind: "num", typ: "[]float64", elems: el, nums: nu, mk: func() interface{} {
				r := make([]float64, len(v))
				for i, x := range v {
					r[i] = floatAlpha[x]
				}
				return r
			}})
			res = append(res, listVal{name: "anyf[" + name + "]", kind: "num", typ: "[]interface{}", elems: el, nums: nu, mk: func() interface{} {
				r := make([]interface{}, len(v))
				for i, x := range v {
					r[i] = floatAlpha[x]
				}
				return r
			}})
		}
	}
	return res
}

// ---- untyped lists of numbers of every Go numeric kind (values handed in from Go: struct fields,
// database rows, ...). Two sub-dimensions, both exhaustive up to maxLen:
//
//	mixed: all lists over mixAlpha (one value of each of the 12 kinds, pairwise different values);
//	one-kind: for each kind other than int / float64 (already covered by any[..] / anyf[..]) all lists
//	over three values of that kind whose numeric order differs from the order of their printed forms.
type mixElem struct {
	kind string
	v    interface{}
	f    float64 // numeric value
	s    string  // printed form
}

func me(kind string, v interface{}, f float64) mixElem {
	return mixElem{kind: kind, v: v, f: f, s: fmtFloat(f)}
}

var mixAlpha = []mixElem{
	me("int", int(1), 1), me("int8", int8(-3), -3), me("int16", int16(10), 10), me("int32", int32(2), 2), me("int64", int64(-20), -20),
	me("uint", uint(7), 7), me("uint8", uint8(200), 200), me("uint16", uint16(30), 30), me("uint32", uint32(4), 4), me("uint64", uint64(100), 100),
	me("float32", float32(2.5), 2.5), me("float64", float64(-1.5), -1.5),
}

var kindAlphas = [][]mixElem{
	{me("int8", int8(2), 2), me("int8", int8(10), 10), me("int8", int8(-3), -3)},
	{me("int16", int16(2), 2), me("int16", int16(10), 10), me("int16", int16(-3), -3)},
	{me("int32", int32(2), 2), me("int32", int32(10), 10), me("int32", int32(-3), -3)},
	{me("int64", int64(2), 2), me("int64", int64(10), 10), me("int64", int64(-3), -3)},
	{me("uint", uint(2), 2), me("uint", uint(10), 10), me("uint", uint(200), 200)},
	{me("uint8", uint8(2), 2), me("uint8", uint8(10), 10), me("uint8", uint8(200), 200)},
	{me("uint16", uint16(2), 2), me("uint16", uint16(10), 10), me("uint16", uint16(200), 200)},
	{me("uint32", uint32(2), 2), me("uint32", uint32(10), 10), me("uint32", uint32(200), 200)},
	{me("uint64", uint64(2), 2), me("uint64", uint64(10), 10), me("uint64", uint64(200), 200)},
	{me("float32", float32(2.5), 2.5), me("float32", float32(10), 10), me("float32", float32(-1.5), -1.5)},
}

func mixLists(maxLen int) []listVal {
	var res []listVal
	seen := map[string]bool{}
	add := func(alpha []mixElem, typ string) {
		for _, v := range allVectors(len(alpha), maxLen) {
			v := v
			el := make([]string, len(v))
			nu := make([]float64, len(v))
			ds := make([]string, len(v))
			for i, x := range v {
				el[i], nu[i] = alpha[x].s, alpha[x].f
				ds[i] = alpha[x].kind + ":" + alpha[x].s
			}
			name := "mix[" + strings.Join(ds, ",") + "]"
			if seen[name] {
				continue
			}
			seen[name] = true
			res = append(res, listVal{name: name, kind: "num", typ: typ, elems: el, nums: nu, mk: func() interface{} {
				r := make([]interface{}, len(v))
				for i, x := range v {
					r[i] = alpha[x].v
				}
				return r
			}})
		}
	}
	add(mixAlpha, "[]interface{}-mixed-kinds")
	for _, a := range kindAlphas {
		add(a, "[]interface{}-"+a[0].kind)
	}
	// the same single-kind lists as TYPED slices ([]int8, []int32, []uint8, []float32, ...)
	for _, a := range kindAlphas {
		a := a
		for _, v := range allVectors(len(a), maxLen) {
			v := v
			el := make([]string, len(v))
			nu := make([]float64, len(v))
			ds := make([]string, len(v))
			for i, x := range v {
				el[i], nu[i] = a[x].s, a[x].f
				ds[i] = a[x].s
			}
			name := "typed[]" + a[0].kind + "[" + strings.Join(ds, ",") + "]"
			if seen[name] {
				continue
			}
			seen[name] = true
			res = append(res, listVal{name: name, kind: "num", typ: "[]" + a[0].kind, elems: el, nums: nu, mk: func() interface{} {
				r := reflect.MakeSlice(reflect.SliceOf(reflect.TypeOf(a[0].v)), len(v), len(v))
				for i, x := range v {
					r.Index(i).Set(reflect.ValueOf(a[x].v))
				}
				return r.Interface()
			}})
		}
	}
	sort.SliceStable(res, func(i, j int) bool { return len(res[i].elems) < len(res[j].elems) })
	return res
}

// a map value in one of its Go representations
type mapVal struct {
	name string
	typ  string
	keys []string // printed keys, sorted
	vals map[string]string
	mk   func() interface{}
}

// all maps with <= maxN entries over string keys ks and int values vs, as map[string]interface{},
// map[string]int, map[string]string
func mapsOf(ks []string, vs []int, maxN int, types []string) []mapVal {
	var res []mapVal
	var rec func(i int, cur map[string]int)
	rec = func(i int, cur map[string]int) {
		if i == len(ks) {
			if len(cur) > maxN {
				return
			}
			m := map[string]int{}
			for k, v := range cur {
				m[k] = v
			}
			var keys []string
			for k := range m {
				keys = append(keys, k)
			}
			sort.Strings(keys)
			var ds []string
			for _, k := range keys {
				ds = append(ds, fmt.Sprintf("%s:%d", k, m[k]))
			}
			name := strings.Join(ds, ",")
			for _, ty := range types {
				// value 0 is the zero value of the element type in every representation
				vals := map[string]string{}
				for _, k := range keys {
					vals[k] = strconv.Itoa(m[k])
					if m[k] == 0 && ty != "int" {
						vals[k] = ""
					}
				}
				switch ty {
				case "any":
					res = append(res, mapVal{name: "anymap{" + name + "}", typ: ty, keys: keys, vals: vals, mk: func() interface{} {
						r := map[string]interface{}{}
						for k, v := range m {
							if v == 0 {
								r[k] = nil
							} else {
								r[k] = v
							}
						}
						return r
					}})
				case "int":
					res = append(res, mapVal{name: "intmap{" + name + "}", typ: ty, keys: keys, vals: vals, mk: func() interface{} {
						r := map[string]int{}
						for k, v := range m {
							r[k] = v
						}
						return r
					}})
				case "string":
					res = append(res, mapVal{name: "strmap{" + name + "}", typ: ty, keys: keys, vals: vals, mk: func() interface{} {
						r := map[string]string{}
						for k, v := range m {
							if v != 0 {
								r[k] = strconv.Itoa(v)
							} else {
								r[k] = ""
							}
						}
						return r
					}})
				}
			}
			return
		}
		rec(i+1, cur)
		for _, v := range vs {
			cur[ks[i]] = v
			rec(i+1, cur)
			delete(cur, ks[i])
		}
	}
	rec(0, map[string]int{})
	sort.SliceStable(res, func(i, j int) bool { return len(res[i].keys) < len(res[j].keys) })
	return res
}

// ---------------------------------------------------------------------------------------------
// reference semantics (from the statement / Appendix A of the design)

func refSlice(n, start int, hasLen bool, length int) (int, int) {
	lo := start
	if lo < 0 {
		lo = n + lo
		if lo < 0 {
			lo = 0
		}
	}
	if lo > n {
		lo = n
	}
	hi := n
	if hasLen {
		if length >= 0 {
			hi = lo + length
			if hi > n {
				hi = n
			}
		} else {
			hi = n + length
			if hi < lo {
				hi = lo
			}
		}
	}
	return lo, hi
}

func chars(s string) []string {
	var r []string
	for _, c := range s {
		r = append(r, string(c))
	}
	return r
}

func reversed(xs []string) []string {
	r := make([]string, len(xs))
	for i, x := range xs {
		r[len(xs)-1-i] = x
	}
	return r
}

func eq(a, b []string) bool {
	if len(a) != len(b) {
		return false
	}
	for i := range a {
		if a[i] != b[i] {
			return false
		}
	}
	return true
}

func pow10(n int) int64 {
	r := int64(1)
	for i := 0; i < n; i++ {
		r *= 10
	}
	return r
}

// decimal literal of k / 10^s in minimal form
func decLit(k int64, s int) string {
	neg := k < 0
	if neg {
		k = -k
	}
	q := pow10(s)
	str := strconv.FormatInt(k/q, 10)
	if fr := k % q; fr != 0 {
		f := fmt.Sprintf("%0*d", s, fr)
		str += "." + strings.TrimRight(f, "0")
	}
	if neg {
		str = "-" + str
	}
	return str
}

// exact rounding of k/10^s to p decimals (p <= s); result is r with value r/10^p
func refRound(k int64, s, p int, method string) int64 {
	q := pow10(s - p)
	fl := k / q
	if k%q != 0 && k < 0 {
		fl--
	}
	exact := k%q == 0
	switch method {
	case "floor":
		return fl
	case "ceil":
		if exact {
			return fl
		}
		return fl + 1
	}
	// common: half away from zero
	a := k
	if a < 0 {
		a = -a
	}
	r := (2*a + q) / (2 * q)
	if k < 0 {
		r = -r
	}
	return r
}

// minimal decimal form of r/10^p
func fmtMin(r int64, p int) string {
	return decLit(r, p)
}

func group(intPart, sep string) string {
	if sep == "" {
		return intPart
	}
	var b strings.Builder
	for i, c := range intPart {
		if i > 0 && (len(intPart)-i)%3 == 0 {
			b.WriteString(sep)
		}
		b.WriteRune(c)
	}
	return b.String()
}

// r/10^d printed with exactly d decimals, grouped
func fmtFixed(r int64, d int, point, sep string) string {
	neg := r < 0
	if neg {
		r = -r
	}
	q := pow10(d)
	s := group(strconv.FormatInt(r/q, 10), sep)
	if d > 0 {
		s += point + fmt.Sprintf("%0*d", d, r%q)
	}
	if neg {
		s = "-" + s
	}
	return s
}

// the sign of a zero result is not determined by "exact decimal arithmetic": -0, -0.00 → 0, 0.00
func normZero(s string) string {
	if strings.HasPrefix(s, "-") && strings.Trim(s[1:], "0.,' ") == "" {
		return s[1:]
	}
	return s
}

// ---- quirks of the two open findings on numbers: what IEEE-754 double arithmetic gives

func quirkRound(x float64, p int, method string) string {
	shift := math.Pow(10, float64(p))
	var r float64
	switch method {
	case "ceil":
		r = math.Ceil(x*shift) / shift
	case "floor":
		r = math.Floor(x*shift) / shift
	default:
		r = math.Round(x*shift) / shift
	}
	if p == 0 {
		return strconv.Itoa(int(r))
	}
	return fmtFloat(r)
}

func quirkFormat(x float64, d int, point, sep string) string {
	str := fmt.Sprintf("%.*f", d, x)
	neg := strings.HasPrefix(str, "-")
	if neg {
		str = str[1:]
	}
	ip, fp := str, ""
	if i := strings.IndexByte(str, '.'); i >= 0 {
		ip, fp = str[:i], str[i+1:]
	}
	s := group(ip, sep)
	if d > 0 {
		s += point + fp
	}
	if neg {
		s = "-" + s
	}
	return s
}

// ---------------------------------------------------------------------------------------------
// law families

func lawIdempotent(t *vlib.T, strs []string) {
	for _, f := range []string{"upper", "lower", "trim", "capitalize"} {
		for _, s := range strs {
			f, s := f, s
			runCase(t, tc{key: fmt.Sprintf("idem/%s/%q", f, s), src: "{{ s|" + f + " }}|{{ s|" + f + "|" + f + " }}",
				ctx: func() map[string]interface{} { return map[string]interface{}{"s": s} },
				eval: func(out string) *vlib.Outcome {
					p, ok := parts(out, 2)
					o := &vlib.Outcome{}
					if !ok {
						return bad(o, "unexpected output shape")
					}
					o.Nontrivial = p[0] != s
					o.Class = "idem/" + f + "/changed=" + strconv.FormatBool(p[0] != s)
					if p[0] != p[1] {
						return bad(o, "%s is not idempotent on %q: once %q, twice %q", f, s, p[0], p[1])
					}
					return o
				}})
		}
	}
}

// the case laws over every code point: one case = 256 code points on one engine
func lawCasePoints(t *vlib.T, maxCP int) {
	filters := []string{"upper", "lower", "capitalize", "trim"}
	for base := 0; base <= maxCP; base += 256 {
		base := base
		t.Case(fmt.Sprintf("idem-cp/%06x", base), func() *vlib.Outcome {
			e := twig.New()
			for _, f := range filters {
				if err := e.RegisterString(f, "{{ s|"+f+" }}|{{ s|"+f+"|"+f+" }}"); err != nil {
					return &vlib.Outcome{Violation: err.Error()}
				}
			}
			o := &vlib.Outcome{Counters: map[string]int64{}}
			changed := map[string]bool{}
			for cp := base; cp < base+256; cp++ {
				if cp >= 0xD800 && cp <= 0xDFFF || cp == '|' {
					continue
				}
				c := string(rune(cp))
				for _, s := range []string{c, "x" + c + "X " + c + "y"} {
					for _, f := range filters {
						out, err := e.Render(f, map[string]interface{}{"s": s})
						o.Counters["renders"]++
						if err != nil {
							return bad(o, "%s on %q (U+%04X): %v", f, s, cp, err)
						}
						i := strings.Index(out, "|")
						// the output of a filter may itself contain no '|' (input has none)
						if i < 0 || strings.Count(out, "|") != 1 {
							return bad(o, "%s on %q (U+%04X): unexpected output %q", f, s, cp, out)
						}
						if out[:i] != out[i+1:] {
							return bad(o, "%s is not idempotent on %q (U+%04X): once %q, twice %q", f, s, cp, out[:i], out[i+1:])
						}
						if out[:i] != s {
							changed[f] = true
						}
					}
				}
			}
			var cs []string
			for f := range changed {
				cs = append(cs, f)
			}
			sort.Strings(cs)
			o.Nontrivial = len(cs) > 0
			o.Class = "idem-cp/changed:" + strings.Join(cs, "+")
			return o
		})
	}
}

func lawReverseStrings(t *vlib.T, strs []string) {
	for _, s := range strs {
		s := s
		runCase(t, tc{key: fmt.Sprintf("reverse/str/%q", s), src: "{% for c in s|reverse %}[{{ c }}]{% endfor %}|{% for c in s|reverse|reverse %}[{{ c }}]{% endfor %}|{{ s|reverse|length }}|{{ s|length }}|{% if s|reverse|reverse == s %}same{% endif %}",
			ctx: func() map[string]interface{} { return map[string]interface{}{"s": s} },
			eval: func(out string) *vlib.Outcome {
				cs := chars(s)
				o := &vlib.Outcome{Nontrivial: len(cs) >= 2, Class: fmt.Sprintf("reverse/str/n=%d/mb=%v", len(cs), len(s) != len(cs))}
				marks := hasMark(s)
				if marks {
					o.Class += "/marks"
				}
				p, ok := parts(out, 5)
				if !ok {
					return bad(o, "unexpected output shape")
				}
				if marks {
					// which order a base character and the marks behind it come out in is not fixed by
					// "length-preserving involution": only the number of characters of the reversed
					// string is demanded here, the involution and the length below
					if got, ok := items(p[0]); !ok || len(got) != len(cs) {
						return bad(o, "reverse of %+q has the characters %+q: %d, the string has %d", s, p[0], len(got), len(cs))
					}
				} else if p[0] != bracket(reversed(cs)) {
					return bad(o, "reverse of %q gives characters %s, want %s", s, p[0], bracket(reversed(cs)))
				}
				if p[1] != bracket(cs) || p[4] != "same" {
					return bad(o, "reverse is not an involution on %+q: twice gives %+q", s, p[1])
				}
				if p[2] != p[3] || p[2] != strconv.Itoa(len(cs)) {
					return bad(o, "reverse changes the length of %q: %s vs %s (characters: %d)", s, p[2], p[3], len(cs))
				}
				return o
			}})
	}
}

func lawReverseSortLists(t *vlib.T, lists []listVal) {
	for _, l := range lists {
		l := l
		runCase(t, tc{key: "reverse/list/" + l.name, src: "{% for x in v|reverse %}[{{ x }}]{% endfor %}|{% for x in v|reverse|reverse %}[{{ x }}]{% endfor %}|{{ v|reverse|length }}|{{ v|length }}",
			ctx: func() map[string]interface{} { return map[string]interface{}{"v": l.mk()} },
			eval: func(out string) *vlib.Outcome {
				o := &vlib.Outcome{Nontrivial: len(l.elems) >= 2, Class: fmt.Sprintf("reverse/list/%s/n=%d", l.typ, len(l.elems))}
				p, ok := parts(out, 4)
				if !ok {
					return bad(o, "unexpected output shape")
				}
				if p[0] != bracket(reversed(l.elems)) {
					return bad(o, "reverse gives %s, want %s", p[0], bracket(reversed(l.elems)))
				}
				if p[1] != bracket(l.elems) {
					return bad(o, "reverse is not an involution: twice gives %s", p[1])
				}
				if p[2] != p[3] || p[2] != strconv.Itoa(len(l.elems)) {
					return bad(o, "reverse changes the length: %s vs %s", p[2], p[3])
				}
				return o
			}})
		runCase(t, tc{key: "sort/" + l.name, src: "{% for x in v|sort %}[{{ x }}]{% endfor %}|{{ v|sort|length }}",
			ctx: func() map[string]interface{} { return map[string]interface{}{"v": l.mk()} },
			eval: func(out string) *vlib.Outcome {
				want := append([]string{}, l.elems...)
				if l.kind == "num" {
					idx := make([]int, len(want))
					for i := range idx {
						idx[i] = i
					}
					sort.SliceStable(idx, func(a, b int) bool { return l.nums[idx[a]] < l.nums[idx[b]] })
					for i, j := range idx {
						want[i] = l.elems[j]
					}
				} else {
					sort.Strings(want)
				}
				o := &vlib.Outcome{Nontrivial: !eq(want, l.elems), Class: fmt.Sprintf("sort/%s/%s/n=%d/moved=%v", l.kind, l.typ, len(l.elems), !eq(want, l.elems))}
				p, ok := parts(out, 2)
				if !ok {
					return bad(o, "unexpected output shape")
				}
				got, ok := items(p[0])
				if !ok {
					return bad(o, "unexpected output shape")
				}
				a, b := append([]string{}, got...), append([]string{}, l.elems...)
				sort.Strings(a)
				sort.Strings(b)
				if !eq(a, b) || p[1] != strconv.Itoa(len(l.elems)) {
					return bad(o, "sort does not return a permutation of its input: %s from %s", p[0], bracket(l.elems))
				}
				if !eq(got, want) {
					return bad(o, "sort is not ordered: %s, want %s", p[0], bracket(want))
				}
				return o
			}})
	}
}

// length = what a for loop, first, last and slice observe
func lawObservers(t *vlib.T, strs []string, lists []listVal, maps []mapVal) {
	const head = "{{ v|length }}|{% for x in v %}[{{ x }}]{% endfor %}|[{{ v|first }}]|[{{ v|last }}]|"
	strSrc := head + strings.Join([]string{"[{{ v|slice(0, 1) }}]", "[{{ v|slice(-1) }}]", "{% for x in v|slice(0, v|length) %}[{{ x }}]{% endfor %}", "[{{ v|slice(v|length) }}]"}, "|")
	listSrc := head + strings.Join([]string{"{% for x in v|slice(0, 1) %}[{{ x }}]{% endfor %}", "{% for x in v|slice(-1) %}[{{ x }}]{% endfor %}", "{% for x in v|slice(0, v|length) %}[{{ x }}]{% endfor %}", "{% for x in v|slice(v|length) %}[{{ x }}]{% endfor %}"}, "|")
	check := func(what string, el []string, isStr bool) func(out string) *vlib.Outcome {
		return func(out string) *vlib.Outcome {
			n := len(el)
			o := &vlib.Outcome{Nontrivial: n > 0, Class: fmt.Sprintf("observe/%s/n=%d", what, n)}
			p, ok := parts(out, 8)
			if !ok {
				return bad(o, "unexpected output shape")
			}
			if p[0] != strconv.Itoa(n) {
				return bad(o, "length is %s, the value has %d elements/characters", p[0], n)
			}
			if p[1] != bracket(el) {
				return bad(o, "a for loop visits %s, want %s", p[1], bracket(el))
			}
			first, last := "[]", "[]"
			var f1, l1 string
			if n > 0 {
				first, last = "["+el[0]+"]", "["+el[n-1]+"]"
				f1, l1 = first, last
			}
			if isStr {
				f1, l1 = first, last
			}
			if p[2] != first {
				return bad(o, "first is %s, want %s", p[2], first)
			}
			if p[3] != last {
				return bad(o, "last is %s, want %s", p[3], last)
			}
			if p[4] != f1 {
				return bad(o, "slice(0, 1) is %s, want %s", p[4], f1)
			}
			if p[5] != l1 {
				return bad(o, "slice(-1) is %s, want %s", p[5], l1)
			}
			if p[6] != bracket(el) {
				return bad(o, "slice(0, length) is %s, want everything", p[6])
			}
			if (isStr && p[7] != "[]") || (!isStr && p[7] != "") {
				return bad(o, "slice(length) is %q, want nothing", p[7])
			}
			return o
		}
	}
	for _, s := range strs {
		s := s
		mb := len(s) != utf8.RuneCountInString(s)
		runCase(t, tc{key: fmt.Sprintf("observe/str/%q", s), src: strSrc, ctx: func() map[string]interface{} { return map[string]interface{}{"v": s} },
			eval: check(fmt.Sprintf("str/mb=%v", mb), chars(s), true)})
	}
	for _, l := range lists {
		l := l
		runCase(t, tc{key: "observe/list/" + l.name, src: listSrc, ctx: func() map[string]interface{} { return map[string]interface{}{"v": l.mk()} },
			eval: check(l.typ, l.elems, false)})
	}
	for _, m := range maps {
		m := m
		runCase(t, tc{key: "observe/map/" + m.name, src: "{{ v|length }}|{% for k, x in v %}[{{ k }}={{ x }}]{% endfor %}|{{ v|keys|length }}",
			ctx: func() map[string]interface{} { return map[string]interface{}{"v": m.mk()} },
			eval: func(out string) *vlib.Outcome {
				n := len(m.keys)
				o := &vlib.Outcome{Nontrivial: n > 0, Class: fmt.Sprintf("observe/map/%s/n=%d", m.typ, n)}
				p, ok := parts(out, 3)
				if !ok {
					return bad(o, "unexpected output shape")
				}
				got, ok := items(p[1])
				if !ok {
					return bad(o, "unexpected output shape")
				}
				if p[0] != strconv.Itoa(n) || len(got) != n || p[2] != p[0] {
					return bad(o, "length is %s, a for loop visits %d entries, keys has %s, the map has %d", p[0], len(got), p[2], n)
				}
				return o
			}})
	}
}

// the sequences of the slice grid: every string over alpha of length <= maxN and lists of n <= maxN
// items in three Go representations
type sliceSeq struct {
	name string
	el   []string
	mk   func() interface{}
	str  bool
}

func sliceSeqs(maxN int, alpha []string) []sliceSeq {
	type seq = sliceSeq
	var seqs []seq
	for _, s := range allStrings(alpha, maxN) {
		s := s
		seqs = append(seqs, seq{fmt.Sprintf("str:%q", s), chars(s), func() interface{} { return s }, true})
	}
	for n := 0; n <= maxN; n++ {
		n := n
		el := make([]string, n)
		for i := range el {
			el[i] = fmt.Sprintf("e%d", i)
		}
		seqs = append(seqs, seq{fmt.Sprintf("any:%d", n), el, func() interface{} {
			r := make([]interface{}, n)
			for i := range r {
				r[i] = el[i]
			}
			return r
		}, false})
		seqs = append(seqs, seq{fmt.Sprintf("strings:%d", n), el, func() interface{} { return append([]string{}, el...) }, false})
		il := make([]string, n)
		for i := range il {
			il[i] = strconv.Itoa(i * 7)
		}
		seqs = append(seqs, seq{fmt.Sprintf("ints:%d", n), il, func() interface{} {
			r := make([]int, n)
			for i := range r {
				r[i] = i * 7
			}
			return r
		}, false})
	}
	return seqs
}

func lawSliceGrid(t *vlib.T, maxN int, alpha []string) {
	seqs := sliceSeqs(maxN, alpha)
	for _, q := range seqs {
		n := len(q.el)
		for start := -n - 2; start <= n+2; start++ {
			for l := -n - 3; l <= n+2; l++ {
				q, start, l := q, start, l
				hasLen := l != -n-3
				// literal arguments and (twin) the same arguments as context integers
				for _, form := range []string{"lit", "var"} {
					form := form
					args := strconv.Itoa(start)
					if hasLen {
						args += ", " + strconv.Itoa(l)
					}
					if form == "var" {
						args = "a"
						if hasLen {
							args += ", b"
						}
					}
					src := "{% for x in v|slice(" + args + ") %}[{{ x }}]{% endfor %}|{{ v|slice(" + args + ")|length }}"
					key := fmt.Sprintf("slice/%s/%s/%d/", q.name, form, start)
					if hasLen {
						key += strconv.Itoa(l)
					} else {
						key += "omitted"
					}
					runCase(t, tc{key: key, src: src,
						ctx: func() map[string]interface{} { return map[string]interface{}{"v": q.mk(), "a": start, "b": l} },
						eval: func(out string) *vlib.Outcome {
							lo, hi := refSlice(n, start, hasLen, l)
							want := q.el[lo:hi]
							shape := "part"
							if hi-lo == 0 {
								shape = "empty"
							} else if hi-lo == n {
								shape = "all"
							}
							o := &vlib.Outcome{Nontrivial: n > 0 && (start < 0 || start > n || !hasLen || l < 0 || start+l > n),
								Class: fmt.Sprintf("slice/str=%v/startneg=%v/len=%s/%s", q.str, start < 0, map[bool]string{true: sign(l), false: "omitted"}[hasLen], shape)}
							p, ok := parts(out, 2)
							if !ok {
								return bad(o, "unexpected output shape")
							}
							if p[0] != bracket(want) || p[1] != strconv.Itoa(len(want)) {
								return bad(o, "slice(%s) of %d items %s gives %s (length %s), Twig's index rules give %s", args, n, bracket(q.el), p[0], p[1], bracket(want))
							}
							return o
						}})
				}
			}
		}
	}
}

func sign(n int) string {
	if n < 0 {
		return "neg"
	}
	return "nonneg"
}

func lawJoinSplit(t *vlib.T, maxLen int) {
	elems := []string{"", "a", "bc", "é", "x y"}
	seps := []string{",", ";", " ", "é", "-", "::", ", ", "<>"}
	for _, sep := range seps {
		for _, v := range allVectors(len(elems), maxLen) {
			if len(v) == 0 {
				continue // join|split of the empty list is left open (one empty string in Twig too)
			}
			el := make([]string, len(v))
			okCase := true
			for i, x := range v {
				el[i] = elems[x]
				if strings.ContainsAny(el[i], sep) {
					okCase = false // not separator-free (no character of the separator at all, so the joined text is unambiguous)
				}
			}
			if !okCase {
				continue
			}
			for _, typ := range []string{"any", "string"} {
				sep, el, typ := sep, el, typ
				runCase(t, tc{key: fmt.Sprintf("joinsplit/%s/%q/%q", typ, sep, el), src: "{% for x in v|join(sep)|split(sep) %}[{{ x }}]{% endfor %}|{{ v|join(sep) }}",
					ctx: func() map[string]interface{} {
						var v interface{} = append([]string{}, el...)
						if typ == "any" {
							r := make([]interface{}, len(el))
							for i := range el {
								r[i] = el[i]
							}
							v = r
						}
						return map[string]interface{}{"v": v, "sep": sep}
					},
					eval: func(out string) *vlib.Outcome {
						o := &vlib.Outcome{Nontrivial: len(el) >= 2, Class: fmt.Sprintf("joinsplit/seplen=%d/n=%d", utf8.RuneCountInString(sep), len(el))}
						i := strings.Index(out, "|")
						if i < 0 {
							return bad(o, "unexpected output shape")
						}
						got, joined := out[:i], out[i+1:]
						if joined != strings.Join(el, sep) {
							return bad(o, "join(%q) gives %q, want %q", sep, joined, strings.Join(el, sep))
						}
						if got != bracket(el) {
							// open finding KF-C19-3: a separator of several characters is used as a SET of characters
							if utf8.RuneCountInString(sep) > 1 {
								quirk := splitAny(joined, sep)
								if got == bracket(quirk) {
									o.Known = "KF-C19-3"
								}
							}
							return bad(o, "join(%q)|split(%q) gives %s, want %s", sep, sep, got, bracket(el))
						}
						return o
					}})
			}
		}
	}
}

// join on untyped lists of numbers of every Go kind: an element is joined in the form the print tag
// gives it, so join = the printed elements with the separator between them, and split with the same
// (one-character, never part of a printed number) separator restores those printed forms
func lawJoinNumbers(t *vlib.T, lists []listVal) {
	for _, sep := range []string{",", ";", " "} {
		for _, l := range lists {
			if len(l.elems) == 0 {
				continue // join|split of the empty list is left open
			}
			sep, l := sep, l
			runCase(t, tc{key: fmt.Sprintf("joinsplit/num/%q/%s", sep, l.name), src: "{% for x in v|join(sep)|split(sep) %}[{{ x }}]{% endfor %}|{{ v|join(sep) }}",
				ctx: func() map[string]interface{} { return map[string]interface{}{"v": l.mk(), "sep": sep} },
				eval: func(out string) *vlib.Outcome {
					o := &vlib.Outcome{Nontrivial: len(l.elems) >= 2, Class: fmt.Sprintf("joinsplit/num/%s/n=%d", l.typ, len(l.elems))}
					i := strings.Index(out, "|")
					if i < 0 {
						return bad(o, "unexpected output shape")
					}
					got, joined := out[:i], out[i+1:]
					if joined != strings.Join(l.elems, sep) {
						return bad(o, "join(%q) gives %q, want %q", sep, joined, strings.Join(l.elems, sep))
					}
					if got != bracket(l.elems) {
						return bad(o, "join(%q)|split(%q) gives %s, want %s", sep, sep, got, bracket(l.elems))
					}
					return o
				}})
		}
	}
}

// splitAny splits s at every character that occurs in set (the behaviour recorded as KF-C19-3)
func splitAny(s, set string) []string {
	var r []string
	cur := ""
	for _, c := range s {
		if strings.ContainsRune(set, c) {
			r = append(r, cur)
			cur = ""
		} else {
			cur += string(c)
		}
	}
	return append(r, cur)
}

func lawDefault(t *vlib.T) {
	type dv struct {
		name    string
		expr    string // expression the filter is applied to
		mk      func() interface{}
		absent  bool
		replace bool
		show    string // how the kept value shows through "|length" or print
		viaLen  bool
	}
	vals := []dv{
		{name: "undefined", expr: "v", absent: true, replace: true},
		{name: "undefined-key", expr: "m.zz", replace: true},
		{name: "null", expr: "v", mk: func() interface{} { return nil }, replace: true},
		{name: "null-literal", expr: "null", replace: true},
		{name: "empty-string", expr: "v", mk: func() interface{} { return "" }, replace: true},
		{name: "empty-string-literal", expr: "''", replace: true},
		{name: "empty-list", expr: "v", mk: func() interface{} { return []interface{}{} }, replace: true},
		{name: "empty-list-literal", expr: "[]", replace: true},
		{name: "empty-ints", expr: "v", mk: func() interface{} { return []int{} }, replace: true},
		{name: "empty-strings", expr: "v", mk: func() interface{} { return []string{} }, replace: true},
		{name: "empty-map", expr: "v", mk: func() interface{} { return map[string]interface{}{} }, replace: true},
		{name: "empty-map-literal", expr: "{}", replace: true},
		{name: "empty-intmap", expr: "v", mk: func() interface{} { return map[string]int{} }, replace: true},
	}
	for _, s := range []string{"x", " ", "a b", "é", "false", "null", "00", "\n"} {
		s := s
		vals = append(vals, dv{name: fmt.Sprintf("string-%q", s), expr: "v", mk: func() interface{} { return s }, show: s})
	}
	for _, n := range []interface{}{1, -1, 5, 1.5, -0.25, int64(7), uint8(3), float32(2.5), true} {
		n := n
		vals = append(vals, dv{name: fmt.Sprintf("scalar-%T-%v", n, n), expr: "v", mk: func() interface{} { return n }, show: fmt.Sprint(n)})
	}
	vals = append(vals,
		dv{name: "literal-5", expr: "5", show: "5"}, dv{name: "literal-x", expr: "'x'", show: "x"}, dv{name: "literal-true", expr: "true", show: "true"},
		dv{name: "list-2", expr: "v", mk: func() interface{} { return []interface{}{0, ""} }, show: "2", viaLen: true},
		dv{name: "list-literal", expr: "[0, 0]", show: "2", viaLen: true},
		dv{name: "ints-2", expr: "v", mk: func() interface{} { return []int{0, 0} }, show: "2", viaLen: true},
		dv{name: "strings-2", expr: "v", mk: func() interface{} { return []string{"", ""} }, show: "2", viaLen: true},
		dv{name: "map-2", expr: "v", mk: func() interface{} { return map[string]interface{}{"a": 0, "b": nil} }, show: "2", viaLen: true},
		dv{name: "map-literal", expr: "{'a': 0, 'b': 0}", show: "2", viaLen: true},
		dv{name: "intmap-2", expr: "v", mk: func() interface{} { return map[string]int{"a": 0, "b": 0} }, show: "2", viaLen: true},
	)
	// the replacement: a string, a number, a list
	for _, d := range vals {
		for _, pos := range []string{"print", "set", "if"} {
			d, pos := d, pos
			// a kept scalar is observed through the print tag, a kept list/map through its length, a
			// replaced value through both
			f := d.expr + "|default('DDD')"
			a, b := "{{ "+f+" }}", "{{ "+f+"|length }}"
			if pos == "set" {
				a, b = "{{ r }}", "{{ r|length }}"
			}
			if !d.replace && d.viaLen {
				a = ""
			} else if !d.replace {
				b = ""
			}
			var src string
			switch pos {
			case "print":
				src = a + "|" + b
			case "set":
				src = "{% set r = " + f + " %}" + a + "|" + b
			case "if":
				src = "{% if true %}" + a + "|" + b + "{% endif %}"
			}
			runCase(t, tc{key: "default/" + d.name + "/" + pos, src: src,
				ctx: func() map[string]interface{} {
					c := map[string]interface{}{"m": map[string]interface{}{"a": 1}}
					if !d.absent && d.mk != nil {
						c["v"] = d.mk()
					}
					return c
				},
				eval: func(out string) *vlib.Outcome {
					o := &vlib.Outcome{Nontrivial: true, Class: fmt.Sprintf("default/replace=%v", d.replace)}
					i := strings.LastIndex(out, "|")
					if i < 0 {
						return bad(o, "unexpected output shape")
					}
					printed, ln := out[:i], out[i+1:]
					if d.replace {
						if printed != "DDD" || ln != "3" {
							return bad(o, "default does not replace %s: result prints %q (length %s)", d.name, printed, ln)
						}
						return o
					}
					if d.viaLen {
						if ln != d.show {
							return bad(o, "default replaces the non-empty value %s: result has length %s, want %s", d.name, ln, d.show)
						}
						return o
					}
					if d.show == "true" {
						// how a bare boolean prints is not part of this property; it must just not be replaced
						if printed == "DDD" {
							return bad(o, "default replaces true")
						}
						return o
					}
					if printed != d.show {
						return bad(o, "default does not keep the non-empty value %s: result prints %q, want %q", d.name, printed, d.show)
					}
					return o
				}})
		}
	}
}

func lawMerge(t *vlib.T, lists []listVal, maps []mapVal) {
	for _, a := range lists {
		for _, b := range lists {
			a, b := a, b
			runCase(t, tc{key: "merge/list/" + a.name + "+" + b.name, src: "{% for x in a|merge(b) %}[{{ x }}]{% endfor %}|{{ a|merge(b)|length }}",
				ctx: func() map[string]interface{} { return map[string]interface{}{"a": a.mk(), "b": b.mk()} },
				eval: func(out string) *vlib.Outcome {
					want := append(append([]string{}, a.elems...), b.elems...)
					o := &vlib.Outcome{Nontrivial: len(a.elems) > 0 && len(b.elems) > 0, Class: fmt.Sprintf("merge/list/%s+%s/n=%d", a.typ, b.typ, len(want))}
					p, ok := parts(out, 2)
					if !ok {
						return bad(o, "unexpected output shape")
					}
					if p[0] != bracket(want) || p[1] != strconv.Itoa(len(want)) {
						return bad(o, "merge gives %s (length %s), want the concatenation %s", p[0], p[1], bracket(want))
					}
					return o
				}})
		}
	}
	// three lists in a chain
	for _, a := range lists {
		if len(a.elems) != 1 {
			continue
		}
		for _, b := range lists {
			if len(b.elems) != 1 {
				continue
			}
			for _, c := range lists {
				if len(c.elems) != 1 {
					continue
				}
				a, b, c := a, b, c
				runCase(t, tc{key: "merge/list3/" + a.name + "+" + b.name + "+" + c.name, src: "{% for x in a|merge(b)|merge(c) %}[{{ x }}]{% endfor %}",
					ctx: func() map[string]interface{} { return map[string]interface{}{"a": a.mk(), "b": b.mk(), "c": c.mk()} },
					eval: func(out string) *vlib.Outcome {
						want := bracket([]string{a.elems[0], b.elems[0], c.elems[0]})
						o := &vlib.Outcome{Nontrivial: true, Class: "merge/list3/" + a.typ + "+" + b.typ + "+" + c.typ}
						if out != want {
							return bad(o, "merge chain gives %s, want %s", out, want)
						}
						return o
					}})
			}
		}
	}
	for _, a := range maps {
		for _, b := range maps {
			a, b := a, b
			runCase(t, tc{key: "merge/map/" + a.name + "+" + b.name, src: "{% for k, x in a|merge(b) %}[{{ k }}={{ x }}]{% endfor %}|{{ a|merge(b)|length }}|{% for k in a|merge(b)|keys %}[{{ k }}]{% endfor %}",
				ctx: func() map[string]interface{} { return map[string]interface{}{"a": a.mk(), "b": b.mk()} },
				eval: func(out string) *vlib.Outcome {
					want := map[string]string{}
					for k, v := range a.vals {
						want[k] = v
					}
					overl := false
					for k, v := range b.vals {
						if _, ok := want[k]; ok {
							overl = true
						}
						want[k] = v
					}
					var ws, ks []string
					for k, v := range want {
						ws = append(ws, k+"="+v)
						ks = append(ks, k)
					}
					sort.Strings(ws)
					sort.Strings(ks)
					o := &vlib.Outcome{Nontrivial: overl, Class: fmt.Sprintf("merge/map/%s+%s/overlap=%v", a.typ, b.typ, overl)}
					p, ok := parts(out, 3)
					if !ok {
						return bad(o, "unexpected output shape")
					}
					got, ok1 := items(p[0])
					gk, ok2 := items(p[2])
					if !ok1 || !ok2 {
						return bad(o, "unexpected output shape")
					}
					sort.Strings(got)
					sort.Strings(gk)
					if !eq(got, ws) || p[1] != strconv.Itoa(len(ws)) {
						return bad(o, "merge of maps gives entries %v (length %s), want %v (later map wins)", got, p[1], ws)
					}
					if !eq(gk, ks) {
						return bad(o, "keys of the merged map are %v, want each of %v once", gk, ks)
					}
					return o
				}})
		}
	}
	// literals
	for i, c := range []struct{ src, want string }{
		{"{% for x in [1, 2]|merge([3, 4]) %}[{{ x }}]{% endfor %}", "[1][2][3][4]"},
		{"{% for x in []|merge(['a']) %}[{{ x }}]{% endfor %}", "[a]"},
		{"{% for x in ['a']|merge([]) %}[{{ x }}]{% endfor %}", "[a]"},
		{"{% for x in ['a', 'b']|merge(['a']) %}[{{ x }}]{% endfor %}", "[a][b][a]"},
		{"{% set m = {'a': 1, 'b': 2}|merge({'b': 3, 'c': 4}) %}{{ m.a }},{{ m.b }},{{ m.c }},{{ m|length }}", "1,3,4,3"},
		{"{% set m = {'a': 1}|merge({'a': 2})|merge({'a': 3}) %}{{ m.a }},{{ m|length }}", "3,1"},
		{"{% set m = {}|merge({'a': 2}) %}{{ m.a }},{{ m|length }}", "2,1"},
		{"{% set m = {'a': 2}|merge({}) %}{{ m.a }},{{ m|length }}", "2,1"},
	} {
		c := c
		runCase(t, tc{key: fmt.Sprintf("merge/literal/%d", i), src: c.src, eval: func(out string) *vlib.Outcome {
			o := &vlib.Outcome{Nontrivial: true, Class: "merge/literal"}
			if out != c.want {
				return bad(o, "got %q, want %q", out, c.want)
			}
			return o
		}})
	}
}

func lawKeys(t *vlib.T, maps []mapVal) {
	for _, m := range maps {
		m := m
		runCase(t, tc{key: "keys/" + m.name, src: "{% for k in v|keys %}[{{ k }}]{% endfor %}|{{ v|keys|length }}",
			ctx: func() map[string]interface{} { return map[string]interface{}{"v": m.mk()} },
			eval: func(out string) *vlib.Outcome {
				o := &vlib.Outcome{Nontrivial: len(m.keys) > 0, Class: fmt.Sprintf("keys/%s/n=%d", m.typ, len(m.keys))}
				p, ok := parts(out, 2)
				if !ok {
					return bad(o, "unexpected output shape")
				}
				got, ok := items(p[0])
				if !ok {
					return bad(o, "unexpected output shape")
				}
				sort.Strings(got)
				if !eq(got, m.keys) || p[1] != strconv.Itoa(len(m.keys)) {
					return bad(o, "keys lists %v (length %s), want each of %v once", got, p[1], m.keys)
				}
				return o
			}})
	}
	// integer keys
	for _, v := range allVectors(2, 3) {
		if len(v) != 3 {
			continue
		}
		v := v
		all := []int{1, 2, 10}
		var ks []string
		for i, on := range v {
			if on == 1 {
				ks = append(ks, strconv.Itoa(all[i]))
			}
		}
		sort.Strings(ks)
		runCase(t, tc{key: fmt.Sprintf("keys/intkeys/%v", v), src: "{% for k in v|keys %}[{{ k }}]{% endfor %}|{{ v|keys|length }}|{{ v|length }}",
			ctx: func() map[string]interface{} {
				m := map[int]string{}
				for i, on := range v {
					if on == 1 {
						m[all[i]] = []string{"x", "", "y"}[i] // one zero-valued entry
					}
				}
				return map[string]interface{}{"v": m}
			},
			eval: func(out string) *vlib.Outcome {
				o := &vlib.Outcome{Nontrivial: len(ks) > 0, Class: fmt.Sprintf("keys/map[int]string/n=%d", len(ks))}
				p, ok := parts(out, 3)
				if !ok {
					return bad(o, "unexpected output shape")
				}
				got, _ := items(p[0])
				sort.Strings(got)
				if !eq(got, ks) || p[1] != strconv.Itoa(len(ks)) || p[2] != p[1] {
					return bad(o, "keys lists %v (length %s), want each of %v once", got, p[1], ks)
				}
				return o
			}})
	}
	// hash literals
	for i, c := range []struct{ src, want string }{
		{"{% for k in {'x': 1, 'y': 2}|keys %}[{{ k }}]{% endfor %}", "[x][y]"},
		{"{% for k in {'x': 1, 'y': 2, 'x': 3}|keys %}[{{ k }}]{% endfor %}", "[x][y]"},
		{"{{ {}|keys|length }}", "0"},
	} {
		c := c
		runCase(t, tc{key: fmt.Sprintf("keys/literal/%d", i), src: c.src, eval: func(out string) *vlib.Outcome {
			o := &vlib.Outcome{Nontrivial: true, Class: "keys/literal"}
			got, _ := items(out)
			want, _ := items(c.want)
			sort.Strings(got)
			if c.want == "0" {
				if out != "0" {
					return bad(o, "got %q, want 0", out)
				}
				return o
			}
			if !eq(got, want) {
				return bad(o, "got %q, want each of %s once", out, c.want)
			}
			return o
		}})
	}
}

func lit(k int64, s int) string {
	l := decLit(k, s)
	if k < 0 {
		return "(" + l + ")"
	}
	return l
}

// knownNumber decides whether a deviation on a number law is one of the two recorded findings:
// the observed text must be exactly what IEEE-754 double arithmetic on the literal gives.
func knownNumber(o *vlib.Outcome, got, quirk string, exactTie bool) {
	if normZero(got) != normZero(quirk) {
		return
	}
	if exactTie {
		o.Known = "KF-C19-2"
	} else {
		o.Known = "KF-C19-1"
	}
}

// evalRound is the oracle of (k/10^s)|round(p, m): exact decimal arithmetic, the recorded finding
// tolerated only where the output is exactly what double arithmetic gives (x = the nearest double)
func evalRound(k int64, s, p int, m string, x float64, args string) func(out string) *vlib.Outcome {
	return func(out string) *vlib.Outcome {
		r := refRound(k, s, p, m)
		want := fmtMin(r, p)
		rem := k % pow10(s-p)
		tie := rem*2 == pow10(s-p) || rem*2 == -pow10(s-p)
		o := &vlib.Outcome{Nontrivial: rem != 0, Class: fmt.Sprintf("round/%s/p=%d/exact=%v/tie=%v/neg=%v", m, p, rem == 0, tie, k < 0)}
		if normZero(out) != normZero(want) {
			knownNumber(o, out, quirkRound(x, p, m), false)
			return bad(o, "round%s of %s gives %s, exact decimal arithmetic gives %s", args, decLit(k, s), out, want)
		}
		return o
	}
}

// evalFormat is the oracle of (k/10^s)|number_format(p, point, sep)
func evalFormat(k int64, s, p, fi int, point, sep string, x float64, args string) func(out string) *vlib.Outcome {
	return func(out string) *vlib.Outcome {
		r := refRound(k, s, p, "common")
		want := fmtFixed(r, p, point, sep)
		rem := k % pow10(s-p)
		tie := rem*2 == pow10(s-p) || rem*2 == -pow10(s-p)
		o := &vlib.Outcome{Nontrivial: true, Class: fmt.Sprintf("format/d=%d/fmt=%d/exact=%v/tie=%v/neg=%v", p, fi, rem == 0, tie, k < 0)}
		if normZero(out) != normZero(want) {
			// an exact tie whose double is exact too is the half-to-even finding, everything else is
			// the nearest double lying on the other side of the half
			knownNumber(o, out, quirkFormat(x, p, point, sep), tie && isDyadic(k, s))
			return bad(o, "number_format%s of %s gives %s, exact decimal arithmetic gives %s", args, decLit(k, s), out, want)
		}
		return o
	}
}

func lawNumbers(t *vlib.T, s int, maxK int64) {
	q := pow10(s)
	for k := -maxK; k <= maxK; k++ {
		k := k
		l := lit(k, s)
		x, _ := strconv.ParseFloat(decLit(k, s), 64)
		runCase(t, tc{key: fmt.Sprintf("num/abs/%s", decLit(k, s)), src: "{{ " + l + "|abs }}", eval: func(out string) *vlib.Outcome {
			a := k
			if a < 0 {
				a = -a
			}
			o := &vlib.Outcome{Nontrivial: k < 0, Class: fmt.Sprintf("abs/neg=%v/int=%v", k < 0, k%q == 0)}
			if want := decLit(a, s); normZero(out) != want {
				return bad(o, "abs gives %s, want %s", out, want)
			}
			return o
		}})
		for p := 0; p <= s; p++ {
			for _, m := range []string{"", "common", "ceil", "floor"} {
				if m == "" && p > 1 {
					continue // the omitted method is the same path as 'common'; checked for p = 0 (no argument at all) and 1
				}
				p, m := p, m
				args := ""
				switch {
				case m == "" && p == 0:
					args = ""
				case m == "":
					args = fmt.Sprintf("(%d)", p)
				default:
					args = fmt.Sprintf("(%d, '%s')", p, m)
				}
				runCase(t, tc{key: fmt.Sprintf("num/round/%s/%d/%s", decLit(k, s), p, m), src: "{{ " + l + "|round" + args + " }}", eval: evalRound(k, s, p, m, x, args)})
			}
			for fi, f := range []struct{ point, sep string }{{".", ","}, {",", "."}, {".", ""}, {"", ""}} {
				p, fi, f := p, fi, f
				args := fmt.Sprintf("(%d, '%s', '%s')", p, f.point, f.sep)
				if fi == 0 {
					args = fmt.Sprintf("(%d)", p)
				}
				if fi == 3 {
					if p != 0 {
						continue
					}
					args = "" // no argument at all: 0 decimals, '.', ','
					f.point, f.sep = ".", ","
				}
				runCase(t, tc{key: fmt.Sprintf("num/format/%s/%d/%d", decLit(k, s), p, fi), src: "{{ " + l + "|number_format" + args + " }}", eval: evalFormat(k, s, p, fi, f.point, f.sep, x, args)})
			}
		}
	}
	// large values: grouping by three
	for i, c := range []struct {
		lit, args, want string
		known           string
	}{
		{"999", "", "999", ""}, {"1000", "", "1,000", ""}, {"999999", "", "999,999", ""}, {"1000000", "", "1,000,000", ""}, {"123456789", "", "123,456,789", ""},
		{"(-1000)", "", "-1,000", ""}, {"(-999)", "", "-999", ""}, {"(-123456)", "", "-123,456", ""},
		{"999.999", "(2)", "1,000.00", ""}, {"999999.999", "(2)", "1,000,000.00", ""}, {"1234567.891", "(2)", "1,234,567.89", ""},
		{"1234567.891", "(2, ',', '.')", "1.234.567,89", ""}, {"1234567.891", "(2, '.', ' ')", "1 234 567.89", ""}, {"1234567.891", "(2, '.', '')", "1234567.89", ""},
		{"(-1234.567)", "(1)", "-1,234.6", ""}, {"1234.25", "(1)", "1,234.3", "KF-C19-2"}, {"1234.5", "", "1,235", "KF-C19-2"}, {"1234.75", "(1)", "1,234.8", ""},
		{"1000", "(2)", "1,000.00", ""}, {"12", "(3)", "12.000", ""},
	} {
		c := c
		runCase(t, tc{key: fmt.Sprintf("num/format-large/%d", i), src: "{{ " + c.lit + "|number_format" + c.args + " }}", eval: func(out string) *vlib.Outcome {
			o := &vlib.Outcome{Nontrivial: true, Class: "format/large"}
			if out != c.want {
				if c.known != "" {
					x, _ := strconv.ParseFloat(strings.Trim(c.lit, "()"), 64)
					d := 0
					if c.args != "" {
						d = int(c.args[1] - '0')
					}
					if out == quirkFormat(x, d, ".", ",") {
						o.Known = c.known
					}
				}
				return bad(o, "number_format%s of %s gives %s, want %s", c.args, c.lit, out, c.want)
			}
			return o
		}})
	}
}

// isDyadic: k/10^s is exactly representable in binary (denominator a power of two after reduction)
func isDyadic(k int64, s int) bool {
	d := pow10(s)
	a := k
	if a < 0 {
		a = -a
	}
	g := gcd(a, d)
	if g == 0 {
		return true
	}
	d /= g
	for d%2 == 0 {
		d /= 2
	}
	return d == 1
}

func gcd(a, b int64) int64 {
	for b != 0 {
		a, b = b, a%b
	}
	return a
}

func main() {
	vlib.Main(vlib.Spec{
		ID:    "C19",
		Level: "exploration",
		Rule: "one law table per filter, each law on a full grid: all strings of length <= 5 (quick 4) over {a B space é ß 日 newline}; the case laws on every code point (quick: BMP); all lists of length <= 4 (quick 3) " +
			"over 4 numbers / 4 strings / 4 floats as []interface{}, []int, []string, []float64, plus all []interface{} lists of that length of numbers of every Go numeric kind (12 kinds: mixed over one value per kind, and three values per single kind) under reverse, sort, length/first/last/slice and join|split; typed slices and arrays with other element kinds ([]named-string, []bool, []struct, []fmt.Stringer, [n]string, [n]named-string, [n]int, [n]struct): every list of length <= 5 (quick 4) over 4 values (2 for bool) under sort (permutation, idempotent, equal to sort of the same values in a []interface{}; ordered where the statement fixes the order), reverse, length, first, last, slice(1), join; all maps with <= 3 entries as map[string]interface{}/int/string, map[int]string; slice(start[, length]) for every start in [-n-2, n+2] " +
			"and length in {omitted} ∪ [-n-2, n+2] on every string over {a é 日 U+0301} (thorough: and U+0308) and on lists ([]interface{}, []string, []int) of n <= 5 (quick 4) items, literal and variable arguments; join|split over 7 separators; default over 40 values x 3 positions; " +
			"merge over all pairs of lists of length <= 2 and maps of <= 2 entries in all type combinations; held results: for every operand r (array literal, range(a, b), every window xs|slice(s, k) of a longer list, Go slices of 5 representations with spare capacity 0/1/2/5 or grown by append, results of merge/sort/reverse/slice/split/keys; elements a permutation of a subset of 1..3, thorough 1..4) and every ordered pair (f, g) of 8 list-returning filter applications (4 merge argument forms, sort, reverse, slice(0, -1), slice(1)): a = r|f, b = r|g, then a, b, r and the longer list are all checked; the same for map merges; values changed in place between renders: one Go map object (map[string]interface{} / map[string]int / map[string]string / map[int]string) taken through every ordered pair of the 64 maps over {a,b,c} x {0,1,2} and through every sequence of three key sets over {a,b,c} (thorough {a,b,c,d}; same engine or a new one, same context map or a new one, one template or one per observation), and one backing array taken through every ordered pair of lists of length <= 3 over 3 (thorough 4) symbols in 6 representations, rendered in every state: keys, length, for, merge (both sides), first, default resp. length, for, first, last, sort, reverse, join, merge, slice must show the value as it is now; nested arguments: the slice grid (n <= 3, thorough 4), join|split (one-character separators), default (21 values x 6 replacements x 4 continuations), merge (lists and maps, result going on into slice / merge), round(p, method) and number_format(d, point, sep) (k/100) evaluated with each argument and the operand written as a filter result with arguments of its own (every combination of literal / ''|default(x) / slice(..)|length / 'x..x'|slice(..) / ['', '']|join(sep) spellings; operand plain, as one more link of the chain, or inside a parenthesised expression), as the first filter chain of its template and after a chain with seven arguments (thorough: and after one with a single argument), next to the same call with literal arguments: both must equal the model and each other; reverse and the observer laws also on the strings with the combining marks U+0301 / U+0308 in the alphabet (9 symbols), the slice grid with U+0301 (thorough: and U+0308); abs, round(p, method), number_format(d, point, sep) on every decimal k/1000, |k| <= 3000, p,d in 0..3 " +
			"(thorough k/10000, |k| <= 30000, 0..4); one fresh engine per case; non-trivial = the filter has something to do (output differs from input, index clamped, digits dropped, keys overlap, ...)",
		Assumptions: []string{
			"inputs larger than the stated grids are not explored",
			"expected values come from reference code transcribed from the property statement (Twig index rules; integer arithmetic on k and powers of ten)",
			"for a string that contains a combining mark only the involution and the length of reverse are demanded, not the order base characters and marks come out in",
			"a value is changed only between two renders and by the rendering goroutine (changes during a render belong to thread-safety, C02); which entry first picks from a map is not demanded, only that the map holds it now",
			"the spellings of an argument as a filter result use only filters whose result the statement fixes (default on '', [] and {}, slice, length, join of two empty strings, merge)",
			"don't-care by the statement: sign of a zero result (-0), false/0/'0' under default, keys of a list, join|split of the empty list, sort of mixed-type or mixed-case or numeric-looking strings, named string types in the case/length laws, the order and the printed form of bools / structs / fmt.Stringer values under sort (only permutation, idempotence and agreement with the same values in a []interface{} are demanded), separators that share a character with an element",
		},
		QuickDeadline:    150,
		ThoroughDeadline: 1200,
		Run: func(t *vlib.T) {
			th := t.Thorough()
			ns, nl, nsl := 4, 3, 4 // string length, list length, slice grid size
			if th {
				ns, nl, nsl = 5, 4, 5
			}
			strs := allStrings(strAlpha, ns)
			// the same with the two combining marks: reverse and the observers (length, first, last,
			// slice, for) count and move code points
			strsM := allStrings(append(append([]string{}, strAlpha...), markAlpha...), ns)
			sliceAlpha := []string{"a", "é", "日", "\u0301"}
			if th {
				sliceAlpha = append(sliceAlpha, "\u0308")
			}
			lists := listsOf(nl, true)
			mix := mixLists(nl) // untyped lists of numbers of every Go numeric kind
			maps3 := mapsOf([]string{"a", "b", "c"}, []int{0, 1, 2}, 3, []string{"any", "int", "string"})
			lawDefault(t)
			lawIdempotent(t, strs)
			lawReverseStrings(t, strsM)
			lawReverseSortLists(t, lists)
			lawReverseSortLists(t, mix)
			lawTypedKinds(t, nl+1) // non-numeric element kinds and arrays: length <= 4 (thorough 5)
			lawObservers(t, strsM, lists, maps3)
			lawObservers(t, nil, mix, nil)
			lawKeys(t, maps3)
			lawJoinSplit(t, 3)
			lawJoinNumbers(t, mix)
			maps2 := mapsOf([]string{"a", "b", "c"}, []int{0, 1, 2}, 2, []string{"any", "int"})
			lawMerge(t, listsOf(2, false), maps2)
			lawHeld(t, nl)
			lawHeldMaps(t, maps2)
			lawMutated(t)
			lawNested(t)
			lawSliceGrid(t, nsl, sliceAlpha)
			if th {
				lawCasePoints(t, 0x10FFFF)
				lawNumbers(t, 4, 30000)
			} else {
				lawCasePoints(t, 0xFFFF)
				lawNumbers(t, 3, 3000)
			}
		},
	})
}
