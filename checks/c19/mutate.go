// mutated/ — the SAME Go value in consecutive renders, changed by the application in between.
//
// The equations are quantified over every input value; a map or slice that has been rendered before
// and was then changed in place (a key replaced by another one so that the size stays equal, a value
// overwritten, an element of a slice overwritten, the same backing array seen through a longer or
// shorter window) is an input value like any other, and every filter must compute on what it holds
// NOW. One case = one Go object, one sequence of states it is put through (in place), one render
// per state; every render is compared with the model of the state the object is in at that moment.
package main

import (
	"fmt"
	"reflect"
	"sort"
	"strconv"
	"strings"

	"github.com/semihalev/twig"

	"verif/lib/vlib"
)

// a mode says what else is shared between two consecutive renders besides the value itself
type mutMode struct {
	name      string
	freshEng  bool // a new engine (and newly parsed templates) for every render
	freshCtx  bool // a new context map (holding the same value) for every render
	eachAlone bool // every observation is a template of its own, rendered one after the other
}

func mutModes(all bool) []mutMode {
	var r []mutMode
	for _, each := range []bool{false, true} {
		for _, fe := range []bool{false, true} {
			for _, fc := range []bool{false, true} {
				if !all && fe != fc {
					continue
				}
				n := map[bool]string{false: "all", true: "each"}[each] + "-" + map[bool]string{false: "eng", true: "neweng"}[fe] + "-" + map[bool]string{false: "ctx", true: "newctx"}[fc]
				r = append(r, mutMode{name: n, freshEng: fe, freshCtx: fc, eachAlone: each})
			}
		}
	}
	return r
}

// renderSteps renders the observations once per state. put(i) brings the shared value into state i
// and returns the context entries that carry it (the same object every time).
func renderSteps(mode mutMode, obs []string, nStates int, put func(i int) map[string]interface{}) (outs []string, renders int64, err error) {
	var srcs []string
	if mode.eachAlone {
		srcs = obs
	} else {
		srcs = []string{strings.Join(obs, "|")}
	}
	mkEngine := func() (*twig.Engine, error) {
		e := twig.New()
		for i, s := range srcs {
			if err := e.RegisterString("t"+strconv.Itoa(i), s); err != nil {
				return nil, fmt.Errorf("parse %q: %w", s, err)
			}
		}
		return e, nil
	}
	var e *twig.Engine
	var ctx map[string]interface{}
	for i := 0; i < nStates; i++ {
		vals := put(i)
		if e == nil || mode.freshEng {
			if e, err = mkEngine(); err != nil {
				return nil, renders, err
			}
		}
		if ctx == nil || mode.freshCtx {
			ctx = map[string]interface{}{}
		}
		for k, v := range vals {
			ctx[k] = v
		}
		var ps []string
		for j := range srcs {
			out, err := e.Render("t"+strconv.Itoa(j), ctx)
			renders++
			if err != nil {
				return nil, renders, fmt.Errorf("state %d, template %q: %w", i, srcs[j], err)
			}
			ps = append(ps, out)
		}
		outs = append(outs, strings.Join(ps, "|"))
	}
	return outs, renders, nil
}

// ---------------------------------------------------------------------------------------------
// maps

// one state of a map: printed keys (sorted), printed values, and a fresh Go map with that content
type mapState struct {
	name string
	keys []string
	vals map[string]string
	mk   func() interface{}
}

func stateOf(m mapVal) mapState { return mapState{name: m.name, keys: m.keys, vals: m.vals, mk: m.mk} }

// bring the map object obj into the state `to`: entries that are not in `to` are deleted, then
// every entry of `to` is stored (same object, no reallocation by the caller)
func mutateMap(obj interface{}, to interface{}) {
	rv, tv := reflect.ValueOf(obj), reflect.ValueOf(to)
	for _, k := range rv.MapKeys() {
		if !tv.MapIndex(k).IsValid() {
			rv.SetMapIndex(k, reflect.Value{})
		}
	}
	it := tv.MapRange()
	for it.Next() {
		rv.SetMapIndex(it.Key(), it.Value())
	}
}

var mutKeyNames = []string{"a", "b", "c", "d"}
var mutIntKeys = []int{1, 2, 10, 20}

// the map types of the sequence family; x is the map merged with m (same Go type as m): it overrides
// the first key and brings one key m never has
type mutMapType struct {
	name string
	key  func(i int) string // printed key
	mk   func(keys []int, val func(i int) int) interface{}
	x    func() interface{}
	xv   map[string]string
}

func mutMapTypes() []mutMapType {
	ks := func(i int) string { return mutKeyNames[i] }
	return []mutMapType{
		{name: "any", key: ks, mk: func(keys []int, val func(int) int) interface{} {
			r := map[string]interface{}{}
			for _, i := range keys {
				r[mutKeyNames[i]] = val(i)
			}
			return r
		}, x: func() interface{} { return map[string]interface{}{"a": 70, "q": 7} }, xv: map[string]string{"a": "70", "q": "7"}},
		{name: "int", key: ks, mk: func(keys []int, val func(int) int) interface{} {
			r := map[string]int{}
			for _, i := range keys {
				r[mutKeyNames[i]] = val(i)
			}
			return r
		}, x: func() interface{} { return map[string]int{"a": 70, "q": 7} }, xv: map[string]string{"a": "70", "q": "7"}},
		{name: "string", key: ks, mk: func(keys []int, val func(int) int) interface{} {
			r := map[string]string{}
			for _, i := range keys {
				r[mutKeyNames[i]] = strconv.Itoa(val(i))
			}
			return r
		}, x: func() interface{} { return map[string]string{"a": "70", "q": "7"} }, xv: map[string]string{"a": "70", "q": "7"}},
		{name: "intkeys", key: func(i int) string { return strconv.Itoa(mutIntKeys[i]) }, mk: func(keys []int, val func(int) int) interface{} {
			r := map[int]string{}
			for _, i := range keys {
				r[mutIntKeys[i]] = strconv.Itoa(val(i))
			}
			return r
		}, x: func() interface{} { return map[int]string{1: "70", 99: "7"} }, xv: map[string]string{"1": "70", "99": "7"}},
	}
}

func mapObservations() []string {
	return []string{
		"{% for k in m|keys %}[{{ k }}]{% endfor %}",
		"{{ m|length }}",
		"{% for k, w in m %}[{{ k }}={{ w }}]{% endfor %}",
		"{% for k in m|merge(x)|keys %}[{{ k }}]{% endfor %}",
		"{% for k, w in m|merge(x) %}[{{ k }}={{ w }}]{% endfor %}",
		"{% for k, w in x|merge(m) %}[{{ k }}={{ w }}]{% endfor %}",
		"[{{ m|first }}]",
		"{{ m|keys|length }}",
		"{{ m|default('DDDDDDD')|length }}",
	}
}

func showEntries(vals map[string]string) []string {
	r := []string{}
	for k, v := range vals {
		r = append(r, k+"="+v)
	}
	sort.Strings(r)
	return r
}

func unionVals(a, b map[string]string) map[string]string {
	r := map[string]string{}
	for k, v := range a {
		r[k] = v
	}
	for k, v := range b {
		r[k] = v
	}
	return r
}

func keysOf(vals map[string]string) []string {
	r := []string{}
	for k := range vals {
		r = append(r, k)
	}
	sort.Strings(r)
	return r
}

// checkMapRender compares one render of mapObservations() with the model of state s
func checkMapRender(out string, s mapState, xv map[string]string) string {
	p, ok := parts(out, 9)
	if !ok {
		return "unexpected output shape"
	}
	sorted := func(s string) ([]string, bool) {
		got, ok := items(s)
		if got == nil {
			got = []string{}
		}
		sort.Strings(got)
		return got, ok
	}
	n := strconv.Itoa(len(s.keys))
	want := append([]string{}, s.keys...)
	if got, ok := sorted(p[0]); !ok || !eq(got, want) {
		return fmt.Sprintf("m|keys lists %v, the map holds the keys %v", got, want)
	}
	if p[1] != n {
		return fmt.Sprintf("m|length is %s, the map has %s entries", p[1], n)
	}
	if got, ok := sorted(p[2]); !ok || !eq(got, showEntries(s.vals)) {
		return fmt.Sprintf("for k, w in m visits %v, the map holds %v", got, showEntries(s.vals))
	}
	if xv != nil {
		if got, ok := sorted(p[3]); !ok || !eq(got, keysOf(unionVals(s.vals, xv))) {
			return fmt.Sprintf("m|merge(x)|keys lists %v, want each of %v once", got, keysOf(unionVals(s.vals, xv)))
		}
		if got, ok := sorted(p[4]); !ok || !eq(got, showEntries(unionVals(s.vals, xv))) {
			return fmt.Sprintf("m|merge(x) holds %v, want %v (m is %v)", got, showEntries(unionVals(s.vals, xv)), showEntries(s.vals))
		}
		if got, ok := sorted(p[5]); !ok || !eq(got, showEntries(unionVals(xv, s.vals))) {
			return fmt.Sprintf("x|merge(m) holds %v, want %v (m is %v)", got, showEntries(unionVals(xv, s.vals)), showEntries(s.vals))
		}
	}
	// first: an element of the map as it is now (which one is not fixed by the statement)
	okFirst := len(s.keys) == 0 && p[6] == "[]"
	for _, v := range s.vals {
		if p[6] == "["+v+"]" {
			okFirst = true
		}
	}
	if !okFirst {
		return fmt.Sprintf("m|first is %s, the map holds %v", p[6], showEntries(s.vals))
	}
	if p[7] != n {
		return fmt.Sprintf("m|keys|length is %s, the map has %s entries", p[7], n)
	}
	wantD := n
	if len(s.keys) == 0 {
		wantD = "7"
	}
	if p[8] != wantD {
		return fmt.Sprintf("m|default('DDDDDDD')|length is %s, want %s (the map has %s entries)", p[8], wantD, n)
	}
	return ""
}

func sameKeys(a, b mapState) bool { return eq(a.keys, b.keys) }

// runMapSeq: one map object put through the states, rendered in each
func runMapSeq(t *vlib.T, key, typ string, mode mutMode, states []mapState, x func() interface{}, xv map[string]string) {
	t.Case(key, func() *vlib.Outcome {
		obj := states[0].mk()
		var xo interface{}
		if x != nil {
			xo = x()
		} else {
			xo = map[string]interface{}{}
		}
		outs, renders, err := renderSteps(mode, mapObservations(), len(states), func(i int) map[string]interface{} {
			if i > 0 {
				mutateMap(obj, states[i].mk())
			}
			return map[string]interface{}{"m": obj, "x": xo}
		})
		var names []string
		for _, s := range states {
			names = append(names, "{"+strings.Join(showEntries(s.vals), " ")+"}")
		}
		hist := strings.Join(names, " -> ")
		o := &vlib.Outcome{Counters: map[string]int64{"renders": renders, "cases_mutated": 1}}
		// shape of the history: does a change keep the size, does it keep the key set
		sameSize, sameKS, changed := false, false, false
		for i := 1; i < len(states); i++ {
			if !reflect.DeepEqual(states[i].vals, states[i-1].vals) {
				changed = true
				if len(states[i].keys) == len(states[i-1].keys) {
					sameSize = true
					if sameKeys(states[i], states[i-1]) {
						sameKS = true
					}
				}
			}
		}
		o.Nontrivial = changed
		o.Class = fmt.Sprintf("mutated/map/%s/%s/changed=%v/samesize=%v/samekeys=%v", typ, mode.name, changed, sameSize, sameKS)
		if err != nil {
			o.Violation = fmt.Sprintf("one %s map object taken through %s (%s): render failed: %v", typ, hist, mode.name, err)
			return o
		}
		for i, out := range outs {
			if msg := checkMapRender(out, states[i], xv); msg != "" {
				o.Violation = fmt.Sprintf("one %s map object taken through %s, changed in place between the renders (mode %s), render %d of %d: %s (output %q)", typ, hist, mode.name, i+1, len(states), msg, out)
				o.Detail = map[string]interface{}{"history": hist, "mode": mode.name, "render": i + 1, "output": out, "templates": mapObservations()}
				return o
			}
		}
		return o
	})
}

func lawMutatedMaps(t *vlib.T, th bool) {
	// (1) every ordered pair (M0, M1) of the maps with <= 3 entries over {a,b,c} x {0,1,2}, same Go type:
	// key replaced (size equal), value overwritten, entry added, entry removed, nothing changed
	pairMode := mutMode{name: "all-eng-ctx"}
	maps := mapsOf([]string{"a", "b", "c"}, []int{0, 1, 2}, 3, []string{"any", "int", "string"})
	xOf := map[string]mutMapType{}
	for _, mt := range mutMapTypes() {
		xOf[mt.name] = mt
	}
	for _, a := range maps {
		for _, b := range maps {
			if a.typ != b.typ {
				continue
			}
			mt := xOf[a.typ]
			runMapSeq(t, "mutated/map/pair/"+a.name+"->"+b.name, a.typ, pairMode, []mapState{stateOf(a), stateOf(b)}, mt.x, mt.xv)
		}
	}
	// (2) every sequence of three key sets over {a,b,c} (thorough {a,b,c,d}); the value stored under a
	// key names the step it was written in, so a stale value is visible too; x every mode x 4 map types
	nk := 3
	if th {
		nk = 4
	}
	var sets [][]int
	for mask := 0; mask < 1<<nk; mask++ {
		var s []int
		for i := 0; i < nk; i++ {
			if mask&(1<<i) != 0 {
				s = append(s, i)
			}
		}
		sets = append(sets, s)
	}
	sort.SliceStable(sets, func(i, j int) bool { return len(sets[i]) < len(sets[j]) })
	setName := func(mt mutMapType, s []int) string {
		var r []string
		for _, i := range s {
			r = append(r, mt.key(i))
		}
		return "{" + strings.Join(r, ",") + "}"
	}
	for _, mt := range mutMapTypes() {
		for _, mode := range mutModes(true) {
			for _, s0 := range sets {
				for _, s1 := range sets {
					for _, s2 := range sets {
						mt, mode := mt, mode
						seq := [][]int{s0, s1, s2}
						key := "mutated/map/seq/" + mt.name + "/" + mode.name + "/" + setName(mt, s0) + ">" + setName(mt, s1) + ">" + setName(mt, s2)
						if !t.Owns(key) {
							t.Case(key, func() *vlib.Outcome { return nil })
							continue
						}
						var states []mapState
						for step, s := range seq {
							step, s := step, s
							val := func(i int) int { return (step+1)*10 + i + 1 }
							st := mapState{vals: map[string]string{}, mk: func() interface{} { return mt.mk(s, val) }}
							for _, i := range s {
								st.keys = append(st.keys, mt.key(i))
								st.vals[mt.key(i)] = strconv.Itoa(val(i))
							}
							sort.Strings(st.keys)
							states = append(states, st)
						}
						runMapSeq(t, key, mt.name, mode, states, mt.x, mt.xv)
					}
				}
			}
		}
	}
}

// ---------------------------------------------------------------------------------------------
// slices

func listObservations() []string {
	loop := func(e string) string { return "{% for y in " + e + " %}[{{ y }}]{% endfor %}" }
	return []string{
		"{{ v|length }}",
		loop("v"),
		"[{{ v|first }}]",
		"[{{ v|last }}]",
		loop("v|sort"),
		loop("v|reverse"),
		"{{ v|join(',') }}",
		loop("v|merge(p)"),
		loop("p|merge(v)"),
		loop("v|slice(1)"),
		"{{ v|sort|join(',') }}",
	}
}

func sortedElems(l listVal) []string {
	want := append([]string{}, l.elems...)
	if l.kind == "num" {
		idx := make([]int, len(want))
		for i := range idx {
			idx[i] = i
		}
		sort.SliceStable(idx, func(a, b int) bool { return l.nums[idx[a]] < l.nums[idx[b]] })
		for i, j := range idx {
			want[i] = l.elems[j]
		}
	} else {
		sort.Strings(want)
	}
	return want
}

func checkListRender(out string, l listVal, pe []string) string {
	p, ok := parts(out, 11)
	if !ok {
		return "unexpected output shape"
	}
	el := l.elems
	n := len(el)
	first, last := "[]", "[]"
	if n > 0 {
		first, last = "["+el[0]+"]", "["+el[n-1]+"]"
	}
	rest := []string{}
	if n > 1 {
		rest = el[1:]
	}
	for _, c := range []struct{ what, got, want string }{
		{"v|length", p[0], strconv.Itoa(n)},
		{"a for loop over v", p[1], bracket(el)},
		{"v|first", p[2], first},
		{"v|last", p[3], last},
		{"v|sort", p[4], bracket(sortedElems(l))},
		{"v|reverse", p[5], bracket(reversed(el))},
		{"v|join(',')", p[6], strings.Join(el, ",")},
		{"v|merge(p)", p[7], bracket(append(append([]string{}, el...), pe...))},
		{"p|merge(v)", p[8], bracket(append(append([]string{}, pe...), el...))},
		{"v|slice(1)", p[9], bracket(rest)},
		{"v|sort|join(',')", p[10], strings.Join(sortedElems(l), ",")},
	} {
		if c.got != c.want {
			return fmt.Sprintf("%s gives %s, the list holds %s now: want %s", c.what, c.got, bracket(el), c.want)
		}
	}
	return ""
}

func repOf(l listVal) string { return l.name[:strings.IndexByte(l.name, '[')] }

func lawMutatedLists(t *vlib.T, th bool) {
	const maxLen = 3
	nsym := 3
	if th {
		nsym = 4
	}
	lists := listsOfN(maxLen, true, nsym)
	// p: a one-element list of the same representation (merged before / behind v)
	pOf := map[string]listVal{}
	for _, l := range lists {
		if _, ok := pOf[repOf(l)]; !ok && len(l.elems) == 1 {
			pOf[repOf(l)] = l
		}
	}
	for _, mode := range mutModes(th) {
		if mode.eachAlone && !th {
			continue
		}
		for _, a := range lists {
			for _, b := range lists {
				if repOf(a) != repOf(b) {
					continue
				}
				a, b, mode := a, b, mode
				key := "mutated/list/" + mode.name + "/" + a.name + "->" + b.name
				t.Case(key, func() *vlib.Outcome {
					// one backing array of maxLen elements; v is the window [0, n) of it
					proto := reflect.ValueOf(a.mk())
					backing := reflect.MakeSlice(proto.Type(), maxLen, maxLen)
					pl := pOf[repOf(a)]
					pv := pl.mk()
					states := []listVal{a, b}
					outs, renders, err := renderSteps(mode, listObservations(), 2, func(i int) map[string]interface{} {
						src := reflect.ValueOf(states[i].mk())
						reflect.Copy(backing, src) // overwrites the first len(src) elements in place
						return map[string]interface{}{"v": backing.Slice(0, src.Len()).Interface(), "p": pv}
					})
					o := &vlib.Outcome{Counters: map[string]int64{"renders": renders, "cases_mutated": 1}}
					o.Nontrivial = !eq(a.elems, b.elems)
					o.Class = fmt.Sprintf("mutated/list/%s/%s/changed=%v/samelen=%v", a.typ, mode.name, !eq(a.elems, b.elems), len(a.elems) == len(b.elems))
					hist := bracket(a.elems) + " -> " + bracket(b.elems)
					if err != nil {
						o.Violation = fmt.Sprintf("one %s backing array holding %s (%s): render failed: %v", a.typ, hist, mode.name, err)
						return o
					}
					for i, out := range outs {
						if msg := checkListRender(out, states[i], pl.elems); msg != "" {
							o.Violation = fmt.Sprintf("one %s backing array, elements overwritten in place between the renders: %s (mode %s), render %d of 2: %s (output %q)", a.typ, hist, mode.name, i+1, msg, out)
							o.Detail = map[string]interface{}{"history": hist, "mode": mode.name, "render": i + 1, "output": out, "templates": listObservations()}
							return o
						}
					}
					return o
				})
			}
		}
	}
}

func lawMutated(t *vlib.T) {
	lawMutatedMaps(t, t.Thorough())
	lawMutatedLists(t, t.Thorough())
}
