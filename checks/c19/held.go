// C19 — held-result laws: a filter's result is a value of its own.
//
// "merge concatenates lists", "sort returns an ordered permutation of its input", "reverse is an
// involution", the slice index rules: each equation speaks about the value a filter returns. A result
// that is kept ({% set a = r|merge(x) %}) still has to satisfy its equation after the same operand r
// went through another filter, and r itself still has to be the list it was. An implementation that
// builds its result inside its operand (append onto spare capacity, in-place sort / reverse, a
// sub-slice that is later appended to) satisfies every one-shot law and breaks these.
//
// One case = one operand r (every way a list comes into existence, in particular the ones with spare
// capacity behind their last element) x one ordered pair (f, g) of list-returning filter
// applications:
//
//	[r]|{% set a = r|f %}{% set b = r|g %}[a]|[b]|[r]|[xs]
//
// where xs (when present) is a longer list r is a window of / shares its backing array with.
package main

import (
	"fmt"
	"sort"
	"strconv"
	"strings"

	"verif/lib/vlib"
)

// all sequences without repetition of length <= maxLen over 0..k-1, shortest first
func allPerms(k, maxLen int) [][]int {
	res := [][]int{{}}
	level := [][]int{{}}
	for l := 1; l <= maxLen && l <= k; l++ {
		var next [][]int
		for _, p := range level {
			for a := 0; a < k; a++ {
				used := false
				for _, x := range p {
					if x == a {
						used = true
					}
				}
				if used {
					continue
				}
				next = append(next, append(append([]int{}, p...), a))
			}
		}
		res = append(res, next...)
		level = next
	}
	return res
}

type heldOperand struct {
	name   string
	shape  string // lit | range | window | cap | derived
	setup  string // template text that defines r (and xs for literal windows)
	ctx    func() map[string]interface{}
	want   []string // elements of r where the statement (or plain Go) determines them; nil: as observed
	hasXs  bool
	xsWant []string
}

// a list-returning filter application on r; second = the variant used when it is the second of two
// merges (other values, so that the two results differ)
type heldFilter struct {
	name  string
	kind  string
	expr  func(second bool) string
	apply func(base []string, second bool) []string
}

func heldFilters() []heldFilter {
	mergeOf := func(name, a1, a2 string, v1, v2 []string) heldFilter {
		return heldFilter{name: name, kind: "merge",
			expr: func(second bool) string {
				if second {
					return "merge(" + a2 + ")"
				}
				return "merge(" + a1 + ")"
			},
			apply: func(base []string, second bool) []string {
				if second {
					return append(append([]string{}, base...), v2...)
				}
				return append(append([]string{}, base...), v1...)
			}}
	}
	sliceOf := func(name, args string, start int, hasLen bool, length int) heldFilter {
		return heldFilter{name: name, kind: "slice",
			expr: func(bool) string { return "slice(" + args + ")" },
			apply: func(base []string, _ bool) []string {
				lo, hi := refSlice(len(base), start, hasLen, length)
				return append([]string{}, base[lo:hi]...)
			}}
	}
	return []heldFilter{
		mergeOf("merge-lit1", "[8]", "[9]", []string{"8"}, []string{"9"}),
		mergeOf("merge-lit2", "[8, 7]", "[9, 6]", []string{"8", "7"}, []string{"9", "6"}),
		mergeOf("merge-any", "p", "q", []string{"8"}, []string{"9"}),
		mergeOf("merge-ints", "pi", "qi", []string{"8"}, []string{"9"}),
		{name: "sort", kind: "sort", expr: func(bool) string { return "sort" },
			apply: func(base []string, _ bool) []string {
				// every element of a held operand is one digit or one letter (all numbers or all
				// strings): numeric order and the order of the printed forms coincide
				r := append([]string{}, base...)
				sort.Strings(r)
				return r
			}},
		{name: "reverse", kind: "reverse", expr: func(bool) string { return "reverse" },
			apply: func(base []string, _ bool) []string { return reversed(base) }},
		sliceOf("slice-init", "0, -1", 0, true, -1),
		sliceOf("slice-tail", "1", 1, false, 0),
	}
}

const heldLetters = "abcdefghi"

// element i (0-based index into the value alphabet 1, 2, 3, ...) in the five Go representations
var heldReps = []string{"any", "anys", "ints", "strings", "floats"}

func heldPrinted(rep string, v int) string {
	if rep == "anys" || rep == "strings" {
		return string(heldLetters[v-1])
	}
	return strconv.Itoa(v)
}

// mkHeld builds a Go slice of the representation with the given length and capacity out of vals
// (len(vals) == capacity: the elements behind the length are what the spare capacity holds). When
// appended is set the slice is grown by append from nil and vals[n:] are written into whatever spare
// capacity append left; the full backing array is returned as the second value.
func mkHeld(rep string, vals []int, n int, appended bool) (r interface{}, backing interface{}, capacity int) {
	switch rep {
	case "any", "anys":
		conv := func(v int) interface{} {
			if rep == "anys" {
				return string(heldLetters[v-1])
			}
			return v
		}
		var s []interface{}
		if appended {
			for _, v := range vals[:n] {
				s = append(s, conv(v))
			}
			if s == nil {
				s = []interface{}{}
			}
		} else {
			s = make([]interface{}, n, len(vals))
			for i := 0; i < n; i++ {
				s[i] = conv(vals[i])
			}
		}
		full := s[:cap(s)]
		for i := n; i < len(full); i++ {
			full[i] = conv(sentinel(vals, n, i))
		}
		return s, full, cap(s)
	case "ints":
		var s []int
		if appended {
			for _, v := range vals[:n] {
				s = append(s, v)
			}
			if s == nil {
				s = []int{}
			}
		} else {
			s = make([]int, n, len(vals))
			copy(s, vals[:n])
		}
		full := s[:cap(s)]
		for i := n; i < len(full); i++ {
			full[i] = sentinel(vals, n, i)
		}
		return s, full, cap(s)
	case "strings":
		var s []string
		if appended {
			for _, v := range vals[:n] {
				s = append(s, string(heldLetters[v-1]))
			}
			if s == nil {
				s = []string{}
			}
		} else {
			s = make([]string, n, len(vals))
			for i := 0; i < n; i++ {
				s[i] = string(heldLetters[vals[i]-1])
			}
		}
		full := s[:cap(s)]
		for i := n; i < len(full); i++ {
			full[i] = string(heldLetters[sentinel(vals, n, i)-1])
		}
		return s, full, cap(s)
	case "floats":
		var s []float64
		if appended {
			for _, v := range vals[:n] {
				s = append(s, float64(v))
			}
			if s == nil {
				s = []float64{}
			}
		} else {
			s = make([]float64, n, len(vals))
			for i := 0; i < n; i++ {
				s[i] = float64(vals[i])
			}
		}
		full := s[:cap(s)]
		for i := n; i < len(full); i++ {
			full[i] = float64(sentinel(vals, n, i))
		}
		return s, full, cap(s)
	}
	panic("unknown representation " + rep)
}

// what lies in position i >= n of the backing array: vals[i] when given, else 5 (never an element,
// never a merged value)
func sentinel(vals []int, n, i int) int {
	if i < len(vals) {
		return vals[i]
	}
	return 5
}

func heldLit(vals []int) string {
	s := make([]string, len(vals))
	for i, v := range vals {
		s[i] = strconv.Itoa(v)
	}
	return "[" + strings.Join(s, ", ") + "]"
}

func heldOperands(maxLen int) []heldOperand {
	var ops []heldOperand
	perms := allPerms(maxLen, maxLen) // lists without repetition over 1..maxLen, length <= maxLen
	valsOf := func(p []int) []int {
		r := make([]int, len(p))
		for i, x := range p {
			r[i] = x + 1
		}
		return r
	}
	printed := func(rep string, vals []int) []string {
		r := make([]string, len(vals))
		for i, v := range vals {
			r[i] = heldPrinted(rep, v)
		}
		return r
	}
	nameOf := func(vals []int) string {
		s := make([]string, len(vals))
		for i, v := range vals {
			s[i] = strconv.Itoa(v)
		}
		return strings.Join(s, ",")
	}

	// 1. array literals
	for _, p := range perms {
		vals := valsOf(p)
		ops = append(ops, heldOperand{name: "lit[" + nameOf(vals) + "]", shape: "lit", setup: "{% set r = " + heldLit(vals) + " %}", want: printed("any", vals)})
	}
	// 2. range(a, b) (built element by element: spare capacity behind the last one; the `a..b` operator
	// is not parsed by this engine)
	for a := 0; a <= maxLen; a++ {
		for b := a; b <= maxLen; b++ {
			var w []string
			for i := a; i <= b; i++ {
				w = append(w, strconv.Itoa(i))
			}
			ops = append(ops, heldOperand{name: fmt.Sprintf("range(%d,%d)", a, b), shape: "range", setup: fmt.Sprintf("{%% set r = range(%d, %d) %%}", a, b), want: w})
		}
	}
	// 3. windows xs|slice(s, k) of a longer list, xs a literal or a context value of each representation
	seq := []int{3, 1, 4, 2, 5}
	for n := 0; n <= maxLen+1; n++ {
		xsVals := seq[:n]
		for _, rep := range append([]string{"lit"}, heldReps...) {
			for s := 0; s <= n; s++ {
				for k := 0; s+k <= n; k++ {
					rep, n, s, k := rep, n, s, k
					prep := rep
					if rep == "lit" {
						prep = "any"
					}
					op := heldOperand{name: fmt.Sprintf("window/%s:%d/%d,%d", rep, n, s, k), shape: "window", hasXs: true,
						want: printed(prep, xsVals[s:s+k]), xsWant: printed(prep, xsVals)}
					op.setup = fmt.Sprintf("{%% set r = xs|slice(%d, %d) %%}", s, k)
					if rep == "lit" {
						op.setup = "{% set xs = " + heldLit(xsVals) + " %}" + op.setup
					} else {
						op.ctx = func() map[string]interface{} {
							v, _, _ := mkHeld(rep, xsVals, n, false)
							return map[string]interface{}{"xs": v}
						}
					}
					ops = append(ops, op)
				}
			}
		}
	}
	// 4. Go slices with spare capacity: make(len, len+extra) and append-grown, every representation;
	// xs is the whole backing array (the caller's longer list r is a prefix of)
	for _, p := range perms {
		vals := valsOf(p)
		n := len(vals)
		for _, rep := range heldReps {
			for _, extra := range []int{0, 1, 2, 5, -1} { // -1: grown by append
				rep, extra := rep, extra
				all := append([]int{}, vals...)
				for i := 0; i < extra; i++ {
					all = append(all, 5)
				}
				tag := fmt.Sprintf("cap+%d", extra)
				if extra < 0 {
					tag = "appended"
				}
				op := heldOperand{name: fmt.Sprintf("%s[%s]/%s", rep, nameOf(vals), tag), shape: "cap", hasXs: true, want: printed(rep, vals)}
				_, _, c := mkHeld(rep, all, n, extra < 0)
				op.xsWant = printed(rep, vals)
				for i := n; i < c; i++ {
					op.xsWant = append(op.xsWant, heldPrinted(rep, 5))
				}
				op.ctx = func() map[string]interface{} {
					r, full, _ := mkHeld(rep, all, n, extra < 0)
					return map[string]interface{}{"r": r, "xs": full}
				}
				ops = append(ops, op)
			}
		}
	}
	// 5. results of other filters as operands
	for _, p := range perms {
		vals := valsOf(p)
		n := len(vals)
		lit := heldLit(vals)
		pr := printed("any", vals)
		srt := append([]string{}, pr...)
		sort.Strings(srt)
		tail, init, head := []string{}, []string{}, []string{}
		if n > 0 {
			tail, init, head = pr[1:], pr[:n-1], pr[:1]
		}
		for _, d := range []struct {
			tag, expr string
			want      []string
		}{
			{"merge", lit + "|merge([7])", append(append([]string{}, pr...), "7")},
			{"merge2", lit + "|merge([7])|merge([6])", append(append([]string{}, pr...), "7", "6")},
			{"sort", lit + "|sort", srt},
			{"reverse", lit + "|reverse", reversed(pr)},
			{"slice-head", lit + "|slice(0, 1)", head},
			{"slice-tail", lit + "|slice(1)", tail},
			{"slice-init", lit + "|slice(0, -1)", init},
		} {
			ops = append(ops, heldOperand{name: "derived/" + d.tag + "[" + nameOf(vals) + "]", shape: "derived", setup: "{% set r = " + d.expr + " %}", want: d.want})
		}
		// typed context list through a filter
		ip := printed("ints", vals)
		for _, d := range []struct {
			tag, expr string
			want      []string
		}{
			{"ints-sort", "v|sort", srt},
			{"ints-reverse", "v|reverse", reversed(ip)},
			{"ints-merge", "v|merge(pi)", append(append([]string{}, ip...), "8")},
		} {
			ops = append(ops, heldOperand{name: "derived/" + d.tag + "[" + nameOf(vals) + "]", shape: "derived", setup: "{% set r = " + d.expr + " %}", want: d.want,
				ctx: func() map[string]interface{} {
					v, _, _ := mkHeld("ints", vals, n, false)
					return map[string]interface{}{"v": v}
				}})
		}
		// split and keys (the order keys gives is not stated: r is taken as observed)
		letters := printed("anys", vals)
		if n > 0 {
			ops = append(ops, heldOperand{name: "derived/split[" + nameOf(vals) + "]", shape: "derived", setup: "{% set r = '" + strings.Join(letters, ",") + "'|split(',') %}", want: letters})
		}
		var kv []string
		for i, l := range letters {
			kv = append(kv, fmt.Sprintf("'%s': %d", l, i))
		}
		ops = append(ops, heldOperand{name: "derived/keys[" + nameOf(vals) + "]", shape: "derived", setup: "{% set r = {" + strings.Join(kv, ", ") + "}|keys %}"})
	}
	return ops
}

func heldLoop(v string) string { return "{% for x in " + v + " %}[{{ x }}]{% endfor %}" }

func lawHeld(t *vlib.T, maxLen int) {
	fs := heldFilters()
	for _, op := range heldOperands(maxLen) {
		for _, f := range fs {
			for _, g := range fs {
				op, f, g := op, f, g
				second := f.kind == "merge" && g.kind == "merge"
				key := "held/" + op.name + "/" + f.name + "+" + g.name
				if !t.Owns(key) {
					// nothing to build; t.Case still has to see the key
					t.Case(key, func() *vlib.Outcome { return nil })
					continue
				}
				src := op.setup + heldLoop("r") + "|{% set a = r|" + f.expr(false) + " %}{% set b = r|" + g.expr(second) + " %}" +
					heldLoop("a") + "|" + heldLoop("b") + "|" + heldLoop("r")
				if op.hasXs {
					src += "|" + heldLoop("xs")
				}
				runCase(t, tc{key: key, src: src,
					ctx: func() map[string]interface{} {
						c := map[string]interface{}{}
						if op.ctx != nil {
							c = op.ctx()
						}
						c["p"], c["q"] = []interface{}{8}, []interface{}{9}
						c["pi"], c["qi"] = []int{8}, []int{9}
						return c
					},
					eval: func(out string) *vlib.Outcome {
						o := &vlib.Outcome{Class: "held/" + op.shape + "/" + f.kind + "+" + g.kind}
						np := 4
						if op.hasXs {
							np = 5
						}
						p, ok := parts(out, np)
						if !ok {
							return bad(o, "unexpected output shape")
						}
						base, ok := items(p[0])
						if !ok {
							return bad(o, "unexpected output shape")
						}
						o.Nontrivial = len(base) > 0
						if op.want != nil && !eq(base, op.want) {
							return bad(o, "the operand r is %s before any filter ran, want %s", p[0], bracket(op.want))
						}
						if want := bracket(f.apply(base, false)); p[1] != want {
							return bad(o, "a = r|%s is %s after b = r|%s was computed, want %s (r = %s)", f.expr(false), p[1], g.expr(second), want, p[0])
						}
						if want := bracket(g.apply(base, second)); p[2] != want {
							return bad(o, "b = r|%s (computed after a = r|%s) is %s, want %s (r = %s)", g.expr(second), f.expr(false), p[2], want, p[0])
						}
						if p[3] != p[0] {
							return bad(o, "the operand r changed from %s to %s under r|%s and r|%s", p[0], p[3], f.expr(false), g.expr(second))
						}
						if op.hasXs && p[4] != bracket(op.xsWant) {
							return bad(o, "the list xs that r is a part of changed to %s under r|%s and r|%s, want %s", p[4], f.expr(false), g.expr(second), bracket(op.xsWant))
						}
						return o
					}})
			}
		}
	}
}

// held results of map merges: a = m|merge(x) is still "m, later x wins" after b = m|merge(y), and m
// and x are what they were
func lawHeldMaps(t *vlib.T, maps []mapVal) {
	show := func(vals map[string]string) []string {
		var r []string
		for k, v := range vals {
			r = append(r, k+"="+v)
		}
		sort.Strings(r)
		return r
	}
	union := func(a, b map[string]string) map[string]string {
		r := map[string]string{}
		for k, v := range a {
			r[k] = v
		}
		for k, v := range b {
			r[k] = v
		}
		return r
	}
	loop := func(v string) string { return "{% for k, w in " + v + " %}[{{ k }}={{ w }}]{% endfor %}" }
	y := map[string]string{"c": "9", "d": "8"}
	for _, m := range maps {
		for _, x := range maps {
			m, x := m, x
			runCase(t, tc{key: "heldmap/" + m.name + "+" + x.name,
				src: "{% set a = m|merge(x) %}{% set b = m|merge({'c': 9, 'd': 8}) %}" + loop("a") + "|" + loop("b") + "|" + loop("m") + "|" + loop("x"),
				ctx: func() map[string]interface{} { return map[string]interface{}{"m": m.mk(), "x": x.mk()} },
				eval: func(out string) *vlib.Outcome {
					o := &vlib.Outcome{Nontrivial: len(m.keys) > 0 || len(x.keys) > 0, Class: fmt.Sprintf("heldmap/%s+%s", m.typ, x.typ)}
					p, ok := parts(out, 4)
					if !ok {
						return bad(o, "unexpected output shape")
					}
					for i, w := range []struct {
						what string
						want map[string]string
					}{
						{"a = m|merge(x), read after b = m|merge({'c': 9, 'd': 8}),", union(m.vals, x.vals)},
						{"b = m|merge({'c': 9, 'd': 8})", union(m.vals, y)},
						{"the operand m after both merges", m.vals},
						{"the argument x after both merges", x.vals},
					} {
						got, ok := items(p[i])
						if !ok {
							return bad(o, "unexpected output shape")
						}
						sort.Strings(got)
						if !eq(got, show(w.want)) {
							return bad(o, "%s has entries %v, want %v", w.what, got, show(w.want))
						}
					}
					return o
				}})
		}
	}
}
