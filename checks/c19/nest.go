// C19 — the equations with ARGUMENTS (and operands) that are themselves filter results.
//
// "for every input value ... and every argument combination of each filter": an argument is an
// expression, and the value a filter receives for it is the value of that expression — also when the
// expression is another filter application with arguments of its own (`s|slice(1, 'abc'|slice(0, 2)|length)`,
// `xs|join(e|default(';'))`, `a|merge(b|slice(0, 5))`, `e|default('xDEFx'|slice(1, 3))|slice(0, 1)`),
// or when the operand the filter is applied to contains one (`(s|slice(0, 9) ~ t)|slice(1, 2)`).
// An engine that evaluates the arguments of a chain into shared scratch state passes every law whose
// arguments are literals or variables and breaks these.
//
// One case = one point of an equation's grid x one way of writing each argument (literal, or one of
// the filter-valued spellings of the same value — only filters of the statement are used for the
// spelling) x one way of writing the operand x one position of the expression in its template
// (first filter chain of the template / after another chain with seven arguments). The template
// prints the nested form and, next to it, the same call with literal arguments:
//
//	PREFIX nested-section | literal-section
//
// both sections are compared with the reference model, and with each other (metamorphic twin).
package main

import (
	"fmt"
	"sort"
	"strconv"
	"strings"

	"verif/lib/vlib"
)

// where the expression stands in its template
type nestPos struct{ name, prefix, out string }

func nestPositions(th bool) []nestPos {
	ps := []nestPos{
		{"first", "", ""},
		// a chain of four filters with seven argument values in front (filters of the statement only)
		{"after", "{{ 'wxyz'|slice(0, 3)|slice(0, 2)|slice(0, 1)|default('q') }}:", "w:"},
	}
	if th {
		// a chain with a single argument in front
		ps = append(ps, nestPos{"after1", "{{ ''|default('w') }}:", "w:"})
	}
	return ps
}

type nestCase struct {
	key    string // without the position
	nested string // section with filter-valued arguments / operand
	plain  string // the same call, literal arguments, plain operand
	ctx    func() map[string]interface{}
	eval   func(sec string) *vlib.Outcome // the model's verdict on one section
	norm   func(sec string) string        // canonical form of a section for the twin comparison (maps: entry order is open)
}

func runNest(t *vlib.T, ps []nestPos, c nestCase) {
	for _, p := range ps {
		p := p
		key := c.key + "/" + p.name
		if !t.Owns(key) {
			continue
		}
		runCase(t, tc{key: key, src: p.prefix + c.nested + "|" + c.plain, ctx: c.ctx, eval: func(out string) *vlib.Outcome {
			if !strings.HasPrefix(out, p.out) {
				return bad(&vlib.Outcome{Nontrivial: true, Class: "nest/prefix"}, "the filter chain in front of the expression printed something else than %q", p.out)
			}
			secs := strings.SplitN(out[len(p.out):], "|", 2)
			if len(secs) != 2 {
				return bad(&vlib.Outcome{Nontrivial: true, Class: "nest/shape"}, "unexpected output shape")
			}
			o := c.eval(secs[0])
			o.Nontrivial = true // every case has at least one filter with arguments inside an argument or operand
			o.Class = "nest/" + o.Class + "/" + p.name
			a, b := secs[0], secs[1]
			if c.norm != nil {
				a, b = c.norm(a), c.norm(b)
			}
			if a != b {
				// the twin disagrees: never a recorded finding (those show in both forms alike)
				o.Known = ""
				model := "the model agrees with the nested form"
				if o.Violation != "" {
					model = "model: " + o.Violation
				}
				return bad(o, "arguments written as filter results give %q, the same call with the literal values gives %q (%s)", secs[0], secs[1], model)
			}
			return o
		}})
	}
}

// ways of writing the integer k (filters of the statement only). dflt: an inner filter with one
// argument; slen: an inner chain slice(0, k) | length (two arguments, then an argument-less filter)
type intForm struct {
	name string
	expr func(k int) string
}

var intForms = []intForm{
	{"lit", func(k int) string { return strconv.Itoa(k) }},
	{"dflt", func(k int) string { return "''|default(" + strconv.Itoa(k) + ")" }},
	{"slen", func(k int) string {
		if k >= 0 {
			return "'abcdefgh'|slice(0, " + strconv.Itoa(k) + ")|length"
		}
		return "(0 - ('abcdefgh'|slice(0, " + strconv.Itoa(-k) + ")|length))"
	}},
}

// ways of writing the string s (no quote, no backslash in s)
type strForm struct {
	name string
	expr func(s string) string
}

var strForms = []strForm{
	{"lit", func(s string) string { return "'" + s + "'" }},
	{"dflt", func(s string) string { return "''|default('" + s + "')" }},
	{"slice", func(s string) string {
		return "'x" + s + "x'|slice(1, " + strconv.Itoa(len(chars(s))) + ")"
	}},
}

func loopOf(e string) string { return "{% for x in " + e + " %}[{{ x }}]{% endfor %}" }

// ---- slice(start, length): the index grid with start / length / operand written as filter results
func nestSlice(t *vlib.T, ps []nestPos, maxN int, alpha []string) {
	bases := []string{"plain", "chain", "expr"}
	for _, q := range sliceSeqs(maxN, alpha) {
		q := q
		n := len(q.el)
		if n+1 > 8 {
			panic("nestSlice: the 'slen' spelling holds 8 characters")
		}
		baseExpr := map[string]string{"plain": "v", "chain": "v|slice(0, 9)", "expr": "(true ? v|slice(0, 9) : v)"}
		if q.str {
			baseExpr["expr"] = "(v|slice(0, 9) ~ '')"
		}
		for start := -n - 1; start <= n+1; start++ {
			for l := -n - 2; l <= n+1; l++ {
				start, l := start, l
				hasLen := l != -n-2
				ls := "omitted"
				plainArgs := strconv.Itoa(start)
				if hasLen {
					ls = strconv.Itoa(l)
					plainArgs += ", " + ls
				}
				lo, hi := refSlice(n, start, hasLen, l)
				want := q.el[lo:hi]
				shape := "part"
				if hi-lo == 0 {
					shape = "empty"
				} else if hi-lo == n {
					shape = "all"
				}
				for _, base := range bases {
					for _, sf := range intForms {
						for _, lf := range intForms {
							if !hasLen && lf.name != "lit" {
								continue
							}
							if base == "plain" && sf.name == "lit" && lf.name == "lit" {
								continue // the plain grid (slice/)
							}
							base, sf, lf := base, sf, lf
							args := sf.expr(start)
							if hasLen {
								args += ", " + lf.expr(l)
							}
							e := baseExpr[base] + "|slice(" + args + ")"
							pe := "v|slice(" + plainArgs + ")"
							runNest(t, ps, nestCase{
								key:    fmt.Sprintf("nest/slice/%s/%d/%s/%s-%s-%s", q.name, start, ls, base, sf.name, lf.name),
								nested: loopOf(e) + "#{{ " + e + "|length }}",
								plain:  loopOf(pe) + "#{{ " + pe + "|length }}",
								ctx:    func() map[string]interface{} { return map[string]interface{}{"v": q.mk()} },
								eval: func(sec string) *vlib.Outcome {
									o := &vlib.Outcome{Class: fmt.Sprintf("slice/str=%v/%s-%s-%s/%s", q.str, base, sf.name, lf.name, shape)}
									p := strings.SplitN(sec, "#", 2)
									if len(p) != 2 {
										return bad(o, "unexpected output shape")
									}
									if p[0] != bracket(want) || p[1] != strconv.Itoa(len(want)) {
										return bad(o, "slice(%s) of %d items %s gives %s (length %s), Twig's index rules give %s", plainArgs, n, bracket(q.el), p[0], p[1], bracket(want))
									}
									return o
								}})
						}
					}
				}
			}
		}
	}
}

// ---- join(sep)|split(sep): the separator of either filter written as a filter result
func nestJoinSplit(t *vlib.T, ps []nestPos, maxLen int) {
	elems := []string{"", "a", "bc", "é", "x y"}
	seps := []string{",", ";", " ", "é", "-"} // one character: KF-C19-3 is about longer ones
	forms := append(append([]strForm{}, strForms...), strForm{"join", func(s string) string { return "['', '']|join('" + s + "')" }})
	forms[2] = strForm{"slice", func(s string) string { return "'" + s + "zz'|slice(0, 1)" }}
	for _, sep := range seps {
		for _, v := range allVectors(len(elems), maxLen) {
			if len(v) == 0 {
				continue
			}
			el := make([]string, len(v))
			okCase := true
			for i, x := range v {
				el[i] = elems[x]
				if strings.ContainsAny(el[i], sep) {
					okCase = false
				}
			}
			if !okCase {
				continue
			}
			for _, typ := range []string{"any", "string"} {
				for _, jf := range forms {
					for _, pf := range forms {
						if jf.name == "lit" && pf.name == "lit" {
							continue
						}
						sep, el, typ, jf, pf := sep, el, typ, jf, pf
						j, p := "v|join("+jf.expr(sep)+")", "v|join('"+sep+"')"
						runNest(t, ps, nestCase{
							key:    fmt.Sprintf("nest/joinsplit/%s/%q/%q/%s-%s", typ, sep, el, jf.name, pf.name),
							nested: loopOf(j+"|split("+pf.expr(sep)+")") + "#{{ " + j + " }}",
							plain:  loopOf(p+"|split('"+sep+"')") + "#{{ " + p + " }}",
							ctx: func() map[string]interface{} {
								var v interface{} = append([]string{}, el...)
								if typ == "any" {
									r := make([]interface{}, len(el))
									for i := range el {
										r[i] = el[i]
									}
									v = r
								}
								return map[string]interface{}{"v": v}
							},
							eval: func(sec string) *vlib.Outcome {
								o := &vlib.Outcome{Class: fmt.Sprintf("joinsplit/%s-%s/n=%d", jf.name, pf.name, len(el))}
								q := strings.SplitN(sec, "#", 2)
								if len(q) != 2 {
									return bad(o, "unexpected output shape")
								}
								if q[1] != strings.Join(el, sep) {
									return bad(o, "join(%q) gives %q, want %q", sep, q[1], strings.Join(el, sep))
								}
								if q[0] != bracket(el) {
									return bad(o, "join(%q)|split(%q) gives %s, want %s", sep, sep, q[0], bracket(el))
								}
								return o
							}})
					}
				}
			}
		}
	}
}

// ---- default(value): the replacement written as a filter result, the result going on into slice
func nestDefault(t *vlib.T, ps []nestPos) {
	type dv struct {
		name    string
		expr    string
		mk      func() interface{}
		absent  bool
		replace bool
		kind    string   // of a kept value: str | list | scalar | map
		el      []string // characters / printed elements / the printed scalar / the number of entries
	}
	vals := []dv{
		{name: "undefined", expr: "v", absent: true, replace: true},
		{name: "undefined-key", expr: "m.zz", replace: true},
		{name: "null", expr: "v", mk: func() interface{} { return nil }, replace: true},
		{name: "empty-string", expr: "v", mk: func() interface{} { return "" }, replace: true},
		{name: "empty-string-literal", expr: "''", replace: true},
		{name: "empty-list-literal", expr: "[]", replace: true},
		{name: "empty-ints", expr: "v", mk: func() interface{} { return []int{} }, replace: true},
		{name: "empty-map-literal", expr: "{}", replace: true},
		{name: "empty-map", expr: "v", mk: func() interface{} { return map[string]interface{}{} }, replace: true},
		{name: "string-x", expr: "v", mk: func() interface{} { return "x" }, kind: "str", el: []string{"x"}},
		{name: "string-space", expr: "v", mk: func() interface{} { return " " }, kind: "str", el: []string{" "}},
		{name: "string-abc", expr: "v", mk: func() interface{} { return "abc" }, kind: "str", el: []string{"a", "b", "c"}},
		{name: "string-mb", expr: "v", mk: func() interface{} { return "é日b" }, kind: "str", el: []string{"é", "日", "b"}},
		{name: "string-literal", expr: "'pqr'", kind: "str", el: []string{"p", "q", "r"}},
		{name: "scalar-5", expr: "v", mk: func() interface{} { return 5 }, kind: "scalar", el: []string{"5"}},
		{name: "scalar--1.5", expr: "v", mk: func() interface{} { return -1.5 }, kind: "scalar", el: []string{"-1.5"}},
		{name: "literal-7", expr: "7", kind: "scalar", el: []string{"7"}},
		{name: "list-2", expr: "v", mk: func() interface{} { return []interface{}{0, ""} }, kind: "list", el: []string{"0", ""}},
		{name: "list-literal", expr: "[0, 0]", kind: "list", el: []string{"0", "0"}},
		{name: "ints-3", expr: "v", mk: func() interface{} { return []int{3, 4, 5} }, kind: "list", el: []string{"3", "4", "5"}},
		{name: "map-2", expr: "v", mk: func() interface{} { return map[string]interface{}{"a": 0, "b": nil} }, kind: "map", el: []string{"2"}},
	}
	type repl struct {
		name, kind, lit, expr string
		el                    []string
	}
	def := []string{"D", "E", "F"}
	l456 := []string{"4", "5", "6"}
	repls := []repl{
		{"str-lit", "str", "'DEF'", "'DEF'", def},
		{"str-slice", "str", "'DEF'", "'xDEFx'|slice(1, 3)", def},
		{"str-join", "str", "'DEF'", "['DE', '']|join('F')", def},
		{"str-dflt", "str", "'DEF'", "''|default('DEF')", def},
		{"list-lit", "list", "[4, 5, 6]", "[4, 5, 6]", l456},
		{"list-slice", "list", "[4, 5, 6]", "[4, 5, 6, 7]|slice(0, 3)", l456},
		{"list-merge", "list", "[4, 5, 6]", "[4]|merge([5, 6])", l456},
		{"list-dflt", "list", "[4, 5, 6]", "[]|default([4, 5, 6])", l456},
	}
	type tail struct {
		name, text string
		start      int
		hasLen     bool
		length     int
	}
	tails := []tail{{name: "none"}, {"s01", "|slice(0, 1)", 0, true, 1}, {"s1", "|slice(1)", 1, false, 0}, {"s1m1", "|slice(1, -1)", 1, true, -1}}
	for _, d := range vals {
		for _, r := range repls {
			for _, tl := range tails {
				d, r, tl := d, r, tl
				kind, el := d.kind, d.el
				if d.replace {
					kind, el = r.kind, r.el
				}
				if tl.name != "none" && kind != "str" && kind != "list" {
					continue // slice of a number / a map is not part of the statement
				}
				if strings.HasSuffix(r.name, "-lit") {
					continue // nothing nested (the plain law is default/)
				}
				want := el
				if tl.name != "none" {
					lo, hi := refSlice(len(el), tl.start, tl.hasLen, tl.length)
					want = el[lo:hi]
				}
				sec := func(arg string) (string, string) {
					e := d.expr + "|default(" + arg + ")" + tl.text
					switch kind {
					case "str":
						return "[{{ " + e + " }}]#{{ " + e + "|length }}", "[" + strings.Join(want, "") + "]#" + strconv.Itoa(len(want))
					case "list":
						return loopOf(e) + "#{{ " + e + "|length }}", bracket(want) + "#" + strconv.Itoa(len(want))
					case "map":
						return "[{{ " + e + "|length }}]", "[" + el[0] + "]"
					}
					return "[{{ " + e + " }}]", "[" + el[0] + "]"
				}
				nested, wantSec := sec(r.expr)
				plain, _ := sec(r.lit)
				runNest(t, ps, nestCase{
					key:    "nest/default/" + d.name + "/" + r.name + "/" + tl.name,
					nested: nested, plain: plain,
					ctx: func() map[string]interface{} {
						c := map[string]interface{}{"m": map[string]interface{}{"a": 1}}
						if !d.absent && d.mk != nil {
							c["v"] = d.mk()
						}
						return c
					},
					eval: func(sec string) *vlib.Outcome {
						o := &vlib.Outcome{Class: fmt.Sprintf("default/replace=%v/%s/%s", d.replace, r.name, tl.name)}
						if sec != wantSec {
							if d.replace {
								return bad(o, "default(%s)%s on %s: result shows as %q, want %q (replaced)", r.expr, tl.text, d.name, sec, wantSec)
							}
							return bad(o, "default(%s)%s on the non-empty value %s: result shows as %q, want %q (kept)", r.expr, tl.text, d.name, sec, wantSec)
						}
						return o
					}})
			}
		}
	}
}

// ---- merge: the argument / the operand written as filter results, the result going on into slice
func nestMerge(t *vlib.T, ps []nestPos, lists []listVal, maps []mapVal) {
	argForms := []struct{ name, expr string }{
		{"lit", "b"}, {"slice", "b|slice(0, 5)"}, {"dflt", "[]|default(b)"}, {"split2", "b|slice(0, 1)|merge(b|slice(1))"},
	}
	baseForms := []struct{ name, expr string }{
		{"plain", "a"}, {"chain", "a|slice(0, 5)"}, {"expr", "(true ? a|slice(0, 5) : a)"},
	}
	tails := []struct {
		name, text string
	}{{"none", ""}, {"s12", "|slice(1, 2)"}}
	for _, a := range lists {
		for _, b := range lists {
			for _, bf := range baseForms {
				for _, af := range argForms {
					if bf.name == "plain" && af.name == "lit" {
						continue
					}
					for _, tl := range tails {
						a, b, bf, af, tl := a, b, bf, af, tl
						e := bf.expr + "|merge(" + af.expr + ")" + tl.text
						pe := "a|merge(b)" + tl.text
						runNest(t, ps, nestCase{
							key:    "nest/merge/list/" + a.name + "+" + b.name + "/" + bf.name + "-" + af.name + "/" + tl.name,
							nested: loopOf(e) + "#{{ " + e + "|length }}",
							plain:  loopOf(pe) + "#{{ " + pe + "|length }}",
							ctx:    func() map[string]interface{} { return map[string]interface{}{"a": a.mk(), "b": b.mk()} },
							eval: func(sec string) *vlib.Outcome {
								want := append(append([]string{}, a.elems...), b.elems...)
								if tl.name == "s12" {
									lo, hi := refSlice(len(want), 1, true, 2)
									want = want[lo:hi]
								}
								o := &vlib.Outcome{Class: fmt.Sprintf("merge/list/%s-%s/%s/n=%d", bf.name, af.name, tl.name, len(want))}
								if sec != bracket(want)+"#"+strconv.Itoa(len(want)) {
									return bad(o, "merge%s gives %q, want the concatenation %s", tl.text, sec, bracket(want))
								}
								return o
							}})
					}
				}
			}
		}
	}
	margForms := []struct{ name, expr string }{{"lit", "x"}, {"merge", "x|merge({})"}, {"dflt", "{}|default(x)"}}
	mbaseForms := []struct{ name, expr string }{{"plain", "m"}, {"chain", "m|merge({})"}, {"expr", "(true ? m|merge({}) : m)"}}
	mtails := []struct{ name, text string }{{"none", ""}, {"mz", "|merge({'z': 9})"}}
	entries := func(sec string) string {
		p := strings.SplitN(sec, "#", 2)
		got, ok := items(p[0])
		if !ok || len(p) != 2 {
			return "?" + sec
		}
		sort.Strings(got)
		return bracket(got) + "#" + p[1]
	}
	for _, m := range maps {
		for _, x := range maps {
			for _, bf := range mbaseForms {
				for _, af := range margForms {
					if bf.name == "plain" && af.name == "lit" {
						continue
					}
					for _, tl := range mtails {
						m, x, bf, af, tl := m, x, bf, af, tl
						e := bf.expr + "|merge(" + af.expr + ")" + tl.text
						pe := "m|merge(x)" + tl.text
						loop := func(e string) string {
							return "{% for k, y in " + e + " %}[{{ k }}={{ y }}]{% endfor %}#{{ " + e + "|length }}"
						}
						runNest(t, ps, nestCase{
							key:    "nest/merge/map/" + m.name + "+" + x.name + "/" + bf.name + "-" + af.name + "/" + tl.name,
							nested: loop(e), plain: loop(pe), norm: entries,
							ctx: func() map[string]interface{} { return map[string]interface{}{"m": m.mk(), "x": x.mk()} },
							eval: func(sec string) *vlib.Outcome {
								want := map[string]string{}
								for k, v := range m.vals {
									want[k] = v
								}
								for k, v := range x.vals {
									want[k] = v
								}
								if tl.name == "mz" {
									want["z"] = "9"
								}
								var ws []string
								for k, v := range want {
									ws = append(ws, k+"="+v)
								}
								sort.Strings(ws)
								o := &vlib.Outcome{Class: fmt.Sprintf("merge/map/%s-%s/%s/n=%d", bf.name, af.name, tl.name, len(ws))}
								if got := entries(sec); got != bracket(ws)+"#"+strconv.Itoa(len(ws)) {
									return bad(o, "merge of maps%s gives %q, want the entries %v (later map wins)", tl.text, sec, ws)
								}
								return o
							}})
					}
				}
			}
		}
	}
}

// ---- round(p, method), number_format(d, point, sep): every argument written as a filter result
func nestNumbers(t *vlib.T, ps []nestPos, maxK int64) {
	const s = 2
	var ks []int64
	for k := -maxK; k <= maxK; k++ {
		ks = append(ks, k)
	}
	for _, k := range []int64{125, -125, 199, 250, -250, 1005, -2855, 99995, 100000, 123456, -123456, 12345678} {
		if k > maxK || k < -maxK {
			ks = append(ks, k)
		}
	}
	strExpr := func(f strForm, v string) string { return f.expr(v) }
	for _, k := range ks {
		k := k
		l := lit(k, s)
		x, _ := strconv.ParseFloat(decLit(k, s), 64)
		for p := 0; p <= s; p++ {
			for _, m := range []string{"common", "ceil", "floor"} {
				for _, pf := range intForms {
					for _, mf := range strForms {
						if pf.name == "lit" && mf.name == "lit" {
							continue
						}
						p, m, pf, mf := p, m, pf, mf
						plainArgs := fmt.Sprintf("(%d, '%s')", p, m)
						runNest(t, ps, nestCase{
							key:    fmt.Sprintf("nest/round/%s/%d/%s/%s-%s", decLit(k, s), p, m, pf.name, mf.name),
							nested: "{{ " + l + "|round(" + pf.expr(p) + ", " + strExpr(mf, m) + ") }}",
							plain:  "{{ " + l + "|round" + plainArgs + " }}",
							eval: func(sec string) *vlib.Outcome {
								o := evalRound(k, s, p, m, x, plainArgs)(sec)
								o.Class = fmt.Sprintf("round/%s/p=%d/%s-%s", m, p, pf.name, mf.name)
								return o
							}})
					}
				}
			}
			for fi, f := range []struct{ point, sep string }{{".", ","}, {",", "."}} {
				for _, df := range intForms {
					for _, ptf := range strForms {
						for _, spf := range strForms {
							if df.name == "lit" && ptf.name == "lit" && spf.name == "lit" {
								continue
							}
							p, fi, f, df, ptf, spf := p, fi, f, df, ptf, spf
							plainArgs := fmt.Sprintf("(%d, '%s', '%s')", p, f.point, f.sep)
							runNest(t, ps, nestCase{
								key:    fmt.Sprintf("nest/format/%s/%d/%d/%s-%s-%s", decLit(k, s), p, fi, df.name, ptf.name, spf.name),
								nested: "{{ " + l + "|number_format(" + df.expr(p) + ", " + strExpr(ptf, f.point) + ", " + strExpr(spf, f.sep) + ") }}",
								plain:  "{{ " + l + "|number_format" + plainArgs + " }}",
								eval: func(sec string) *vlib.Outcome {
									o := evalFormat(k, s, p, fi, f.point, f.sep, x, plainArgs)(sec)
									o.Class = fmt.Sprintf("format/d=%d/fmt=%d/%s-%s-%s", p, fi, df.name, ptf.name, spf.name)
									return o
								}})
						}
					}
				}
			}
		}
	}
}

// all of the above
func lawNested(t *vlib.T) {
	th := t.Thorough()
	ps := nestPositions(th)
	nestDefault(t, ps)
	if th {
		nestJoinSplit(t, ps, 3)
		nestSlice(t, ps, 4, []string{"a", "é", "日"})
		nestMerge(t, ps, listsOf(2, false), mapsOf([]string{"a", "b"}, []int{0, 1, 2}, 2, []string{"any", "int"}))
		nestNumbers(t, ps, 300)
	} else {
		nestJoinSplit(t, ps, 2)
		nestSlice(t, ps, 3, []string{"a", "é"})
		nestMerge(t, ps, listsOfN(2, false, 2), mapsOf([]string{"a", "b"}, []int{1, 2}, 2, []string{"any", "int"}))
		nestNumbers(t, ps, 30)
	}
}
