package main

// typed/ — the list filters' equations on typed slices and arrays handed in from Go whose element
// kind is NOT a plain number or string: a named string type, bool, a small struct, fmt.Stringer
// values, and arrays ([n]string, [n]named, [n]int). Every list of length <= M over four values of the
// kind (two for bool), i.e. every permutation of 3 and 4 distinct elements and every list with
// duplicates.
//
// What is demanded:
//   - for every kind: sort returns a permutation of what a for loop sees; sort(sort(x)) = sort(x);
//     sort(x) prints like sort of the same values in a []interface{}; reverse reverses, twice =
//     identity; length = loop count; first / last = first / last loop element; join = the printed
//     elements joined; slice(1) = everything but the first;
//   - for the kinds whose order the statement fixes (strings: byte-lexicographic, ints: numeric):
//     sort = the ordered permutation, and the loop prints the elements themselves.
//
// The order of bools, structs and Stringers is left open by the statement, and so is how they print.

import (
	"fmt"
	"reflect"
	"sort"
	"strconv"
	"strings"

	"verif/lib/vlib"
)

type tName string

type tPoint struct{ X, Y int }

type tLabel struct{ s string }

func (l tLabel) String() string { return l.s }

type typedKind struct {
	name    string
	ordered string // "str", "num" or "" (order left open)
	n       int    // alphabet size
	// mk builds the typed value and the same values as []interface{}; elems are the printed forms
	// (only meaningful when ordered != "")
	mk func(idx []int) (typed interface{}, untyped []interface{}, elems []string, nums []float64)
}

var typedStrAlpha = []string{"b", "a", "ab", "é"}
var typedIntAlpha = []int{2, 1, 10, -3}
var typedPointAlpha = []tPoint{{2, 1}, {1, 2}, {10, 0}, {-3, 5}}

func arrayOf(elem reflect.Type, vals []reflect.Value) interface{} {
	a := reflect.New(reflect.ArrayOf(len(vals), elem)).Elem()
	for i, v := range vals {
		a.Index(i).Set(v)
	}
	return a.Interface()
}

func typedKinds() []typedKind {
	return []typedKind{
		{name: "name", ordered: "str", n: 4, mk: func(idx []int) (interface{}, []interface{}, []string, []float64) {
			v := make([]tName, len(idx))
			u := make([]interface{}, len(idx))
			e := make([]string, len(idx))
			for i, k := range idx {
				v[i], u[i], e[i] = tName(typedStrAlpha[k]), tName(typedStrAlpha[k]), typedStrAlpha[k]
			}
			return v, u, e, nil
		}},
		{name: "bool", n: 2, mk: func(idx []int) (interface{}, []interface{}, []string, []float64) {
			v := make([]bool, len(idx))
			u := make([]interface{}, len(idx))
			for i, k := range idx {
				v[i], u[i] = k == 0, k == 0 // index 0 is true: [true, false] needs a move in any order that moves at all
			}
			return v, u, nil, nil
		}},
		{name: "struct", n: 4, mk: func(idx []int) (interface{}, []interface{}, []string, []float64) {
			v := make([]tPoint, len(idx))
			u := make([]interface{}, len(idx))
			for i, k := range idx {
				v[i], u[i] = typedPointAlpha[k], typedPointAlpha[k]
			}
			return v, u, nil, nil
		}},
		{name: "stringer", n: 4, mk: func(idx []int) (interface{}, []interface{}, []string, []float64) {
			v := make([]fmt.Stringer, len(idx))
			u := make([]interface{}, len(idx))
			for i, k := range idx {
				v[i], u[i] = tLabel{typedStrAlpha[k]}, tLabel{typedStrAlpha[k]}
			}
			return v, u, nil, nil
		}},
		{name: "arrstr", ordered: "str", n: 4, mk: func(idx []int) (interface{}, []interface{}, []string, []float64) {
			vals := make([]reflect.Value, len(idx))
			u := make([]interface{}, len(idx))
			e := make([]string, len(idx))
			for i, k := range idx {
				vals[i], u[i], e[i] = reflect.ValueOf(typedStrAlpha[k]), typedStrAlpha[k], typedStrAlpha[k]
			}
			return arrayOf(reflect.TypeOf(""), vals), u, e, nil
		}},
		{name: "arrname", ordered: "str", n: 4, mk: func(idx []int) (interface{}, []interface{}, []string, []float64) {
			vals := make([]reflect.Value, len(idx))
			u := make([]interface{}, len(idx))
			e := make([]string, len(idx))
			for i, k := range idx {
				vals[i], u[i], e[i] = reflect.ValueOf(tName(typedStrAlpha[k])), tName(typedStrAlpha[k]), typedStrAlpha[k]
			}
			return arrayOf(reflect.TypeOf(tName("")), vals), u, e, nil
		}},
		{name: "arrint", ordered: "num", n: 4, mk: func(idx []int) (interface{}, []interface{}, []string, []float64) {
			vals := make([]reflect.Value, len(idx))
			u := make([]interface{}, len(idx))
			e := make([]string, len(idx))
			f := make([]float64, len(idx))
			for i, k := range idx {
				vals[i], u[i], e[i], f[i] = reflect.ValueOf(typedIntAlpha[k]), typedIntAlpha[k], strconv.Itoa(typedIntAlpha[k]), float64(typedIntAlpha[k])
			}
			return arrayOf(reflect.TypeOf(0), vals), u, e, f
		}},
		{name: "arrstruct", n: 4, mk: func(idx []int) (interface{}, []interface{}, []string, []float64) {
			vals := make([]reflect.Value, len(idx))
			u := make([]interface{}, len(idx))
			for i, k := range idx {
				vals[i], u[i] = reflect.ValueOf(typedPointAlpha[k]), typedPointAlpha[k]
			}
			return arrayOf(reflect.TypeOf(tPoint{}), vals), u, nil, nil
		}},
	}
}

const typedSrc = "{% for x in v %}[{{ x }}]{% endfor %}" + // 0 the elements as a loop prints them
	"|{% for x in v|sort %}[{{ x }}]{% endfor %}" + // 1
	"|{% for x in v|sort|sort %}[{{ x }}]{% endfor %}" + // 2
	"|{% for x in u|sort %}[{{ x }}]{% endfor %}" + // 3 the same values in a []interface{}
	"|{% for x in v|reverse %}[{{ x }}]{% endfor %}" + // 4
	"|{% for x in v|reverse|reverse %}[{{ x }}]{% endfor %}" + // 5
	"|{{ v|length }}|{{ v|sort|length }}|{{ v|reverse|length }}" + // 6 7 8
	"|{% for x in v|slice(1) %}[{{ x }}]{% endfor %}" + // 9
	"|{{ v|join('][') }}" + // 10
	"|{% for x in u %}[{{ x }}]{% endfor %}" // 11

const typedEnds = "[{{ v|first }}]|[{{ v|last }}]"

func idxName(idx []int) string {
	s := make([]string, len(idx))
	for i, k := range idx {
		s[i] = strconv.Itoa(k)
	}
	return strings.Join(s, ",")
}

func lawTypedKinds(t *vlib.T, maxLen int) {
	for _, kd := range typedKinds() {
		kd := kd
		{
			for _, idx := range allVectors(kd.n, maxLen) {
				idx := append([]int{}, idx...)
				n := len(idx)
				key := "typed/" + kd.name + "[" + idxName(idx) + "]"
				if !t.Owns(key) {
					continue
				}
				src := typedSrc
				if n > 0 {
					src += "|" + typedEnds
				}
				var elems []string
				var nums []float64
				runCase(t, tc{key: key, src: src,
					ctx: func() map[string]interface{} {
						v, u, e, f := kd.mk(idx)
						elems, nums = e, f
						return map[string]interface{}{"v": v, "u": u}
					},
					eval: func(out string) *vlib.Outcome {
						distinct := map[int]bool{}
						for _, k := range idx {
							distinct[k] = true
						}
						o := &vlib.Outcome{Nontrivial: len(distinct) >= 2, Class: fmt.Sprintf("typed/%s/n=%d/distinct=%d", kd.name, n, len(distinct))}
						want := 12
						if n > 0 {
							want = 14
						}
						p, ok := parts(out, want)
						if !ok {
							return bad(o, "unexpected output shape")
						}
						obs, ok := items(p[0])
						if !ok || len(obs) != n {
							return bad(o, "a for loop sees %s, the list has %d elements", p[0], n)
						}
						// equal values print alike, different values differently
						for i := range idx {
							for j := range idx {
								if (idx[i] == idx[j]) != (obs[i] == obs[j]) {
									return bad(o, "elements %d and %d: printed forms %q / %q do not follow the values", i, j, obs[i], obs[j])
								}
							}
						}
						if kd.ordered != "" && !eq(obs, elems) {
							return bad(o, "a for loop sees %s, want %s", p[0], bracket(elems))
						}
						if p[11] != p[0] {
							return bad(o, "the same values in a []interface{} print as %s, in the typed list as %s", p[11], p[0])
						}
						sorted, ok := items(p[1])
						if !ok {
							return bad(o, "unexpected output shape (sort)")
						}
						a, b := append([]string{}, sorted...), append([]string{}, obs...)
						sort.Strings(a)
						sort.Strings(b)
						if !eq(a, b) {
							return bad(o, "sort does not return a permutation of its input: %s from %s", p[1], p[0])
						}
						if p[2] != p[1] {
							return bad(o, "sort is not idempotent: sort gives %s, sort|sort gives %s (input %s)", p[1], p[2], p[0])
						}
						if p[3] != p[1] {
							return bad(o, "sort of the typed list gives %s, sort of the same values in a []interface{} gives %s (input %s)", p[1], p[3], p[0])
						}
						switch kd.ordered {
						case "str":
							w := append([]string{}, elems...)
							sort.Strings(w)
							if !eq(sorted, w) {
								return bad(o, "sort is not ordered: %s, want %s", p[1], bracket(w))
							}
						case "num":
							w := append([]string{}, elems...)
							ix := make([]int, len(w))
							for i := range ix {
								ix[i] = i
							}
							sort.SliceStable(ix, func(x, y int) bool { return nums[ix[x]] < nums[ix[y]] })
							for i, j := range ix {
								w[i] = elems[j]
							}
							if !eq(sorted, w) {
								return bad(o, "sort is not ordered: %s, want %s", p[1], bracket(w))
							}
						}
						if p[4] != bracket(reversed(obs)) {
							return bad(o, "reverse gives %s, want %s", p[4], bracket(reversed(obs)))
						}
						if p[5] != p[0] {
							return bad(o, "reverse is not an involution: twice gives %s from %s", p[5], p[0])
						}
						ns := strconv.Itoa(n)
						if p[6] != ns || p[7] != ns || p[8] != ns {
							return bad(o, "length / sort|length / reverse|length = %s / %s / %s, want %s", p[6], p[7], p[8], ns)
						}
						rest := obs
						if n > 0 {
							rest = obs[1:]
						}
						if p[9] != bracket(rest) {
							return bad(o, "slice(1) gives %s, want %s", p[9], bracket(rest))
						}
						if p[10] != strings.Join(obs, "][") {
							return bad(o, "join('][') gives %q, want %q", p[10], strings.Join(obs, "]["))
						}
						if n > 0 {
							if p[12] != "["+obs[0]+"]" || p[13] != "["+obs[n-1]+"]" {
								return bad(o, "first / last give %s / %s, the loop sees %s", p[12], p[13], p[0])
							}
						}
						return o
					}})
			}
		}
	}
}
