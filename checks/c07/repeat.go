// Repeated application (cases 11-repeat/...): the escape filter applied MORE THAN ONCE to the same value.
//
// Every earlier dimension applies e / escape exactly once on the way from the value to the output (the
// nested apply block of bodies.go is the one exception). The statement speaks about "every input value"
// of the filter, and the output of one application is a perfectly ordinary input of the next one: text
// that is already escaped ("already-escaped text" is named in the quantifier). So in `v|e|e` each of the
// two applications has to escape the text IT is given; the output decodes back to the value in two
// steps, not in one - and in n steps for n applications.
//
// Enumerated: every sequence of 2, 3 and 4 names over {escape, e} (4 + 8 + 16 = 28), written
//
//   - adjacent in one chain (`v|e|e`, with blanks, with parentheses around every prefix, after
//     `default(v)`), with the identity filter `raw` between them, with a transforming filter (`trim`,
//     `upper`) between them;
//   - split over the places a value can travel through: a set variable (first / last application
//     separate, one variable re-assigned n times), an apply block (the last application is the block;
//     n blocks nested), a macro parameter, a macro body, an include (whole chain in the
//     child; the first application in the `with` hash), a for sequence, if, the block of an extending
//     template;
//   - through the built-in fallback: nested FilterNodes built with the exported constructors and rendered
//     on a context without / with an empty environment; a SetNode holding the first application;
//   - directly: n ApplyFilter calls, each fed the result of the one before (no / empty / engine's
//     environment).
//
// Oracle (statement only): peel the output n times. At every step the current text must be a correct
// escaped form (verify) of what it decodes to; after n steps the value's text must be left. Where a
// transforming filter stands between two applications, the text given to the LAST application is what
// the same template without that last application renders on the same engine (twin), and the output
// must be the escaped form of exactly that. All name sequences of one length must give byte-identical
// output in every form.
package main

import (
	"bytes"
	"fmt"
	"sort"
	"strconv"
	"strings"

	"github.com/semihalev/twig"

	"verif/lib/vlib"
)

// rpSeqs: every sequence of n names over {escape, e}
func rpSeqs(n int) [][]string {
	seqs := [][]string{{}}
	for i := 0; i < n; i++ {
		var next [][]string
		for _, s := range seqs {
			for _, f := range filterNames {
				next = append(next, append(append([]string{}, s...), f))
			}
		}
		seqs = next
	}
	return seqs
}

func rpID(fs []string) string { return strings.Join(fs, ".") }

// rpForm is one way of writing n applications. src gives the template (and auxiliary templates it
// needs, name -> source; names are made unique by the caller's prefix). twin, when set, gives the
// template that renders the text handed to the last application (forms with a transforming filter in
// between); the oracle is then one step against the twin's output.
type rpForm struct {
	name string
	minN int  // the form differs from an earlier one only from this many applications on
	lean bool // also run for n = 4 in the quick tier
	src  func(fs []string, aux func(name, src string) string) string
	twin func(fs []string) string
}

func rpChain(fs []string) string { return strings.Join(fs, "|") }

// rpBetween joins the names with a filter in between: f1|mid|f2|mid|f3
func rpBetween(fs []string, mid string) string { return strings.Join(fs, "|"+mid+"|") }

func rpParen(fs []string) string {
	x := "v"
	for i, f := range fs {
		x = x + "|" + f
		if i < len(fs)-1 {
			x = "(" + x + ")"
		}
	}
	return x
}

var rpForms = []rpForm{
	{name: "print", minN: 2, lean: true, src: func(fs []string, _ func(string, string) string) string {
		return "{{ v|" + rpChain(fs) + " }}"
	}},
	{name: "print-spaced", minN: 2, src: func(fs []string, _ func(string, string) string) string {
		return "{{ v | " + strings.Join(fs, " | ") + " }}"
	}},
	{name: "print-paren", minN: 2, src: func(fs []string, _ func(string, string) string) string {
		return "{{ " + rpParen(fs) + " }}"
	}},
	{name: "print-paren-first", minN: 3, src: func(fs []string, _ func(string, string) string) string {
		return "{{ (v|" + fs[0] + ")|" + rpChain(fs[1:]) + " }}"
	}},
	{name: "chain-default", minN: 2, src: func(fs []string, _ func(string, string) string) string {
		return "{{ v|default(v)|" + rpChain(fs) + " }}"
	}},
	{name: "between-raw", minN: 2, src: func(fs []string, _ func(string, string) string) string {
		return "{{ v|" + rpBetween(fs, "raw") + " }}"
	}},
	{name: "set-whole", minN: 2, src: func(fs []string, _ func(string, string) string) string {
		return "{% set y = v|" + rpChain(fs) + " %}{{ y }}"
	}},
	{name: "set-first", minN: 2, lean: true, src: func(fs []string, _ func(string, string) string) string {
		return "{% set y = v|" + fs[0] + " %}{{ y|" + rpChain(fs[1:]) + " }}"
	}},
	{name: "set-last", minN: 3, src: func(fs []string, _ func(string, string) string) string {
		return "{% set y = v|" + rpChain(fs[:len(fs)-1]) + " %}{{ y|" + fs[len(fs)-1] + " }}"
	}},
	{name: "set-each", minN: 2, src: func(fs []string, _ func(string, string) string) string {
		s := "{% set y = v %}"
		for _, f := range fs {
			s += "{% set y = y|" + f + " %}"
		}
		return s + "{{ y }}"
	}},
	{name: "apply-last", minN: 2, src: func(fs []string, _ func(string, string) string) string {
		return "{% apply " + fs[len(fs)-1] + " %}{{ v|" + rpChain(fs[:len(fs)-1]) + " }}{% endapply %}"
	}},
	{name: "apply-nested", minN: 2, lean: true, src: func(fs []string, _ func(string, string) string) string {
		s := "{{ v }}"
		for _, f := range fs {
			s = "{% apply " + f + " %}" + s + "{% endapply %}"
		}
		return s
	}},
	{name: "macro", minN: 2, src: func(fs []string, _ func(string, string) string) string {
		return "{% macro m(p) %}{{ p|" + rpChain(fs) + " }}{% endmacro %}{{ m(v) }}"
	}},
	{name: "macro-arg", minN: 2, src: func(fs []string, _ func(string, string) string) string {
		return "{% macro m(p) %}{{ p|" + rpChain(fs[1:]) + " }}{% endmacro %}{{ m(v|" + fs[0] + ") }}"
	}},
	{name: "include", minN: 2, src: func(fs []string, aux func(string, string) string) string {
		return "{% include '" + aux("child", "{{ v|"+rpChain(fs)+" }}") + "' %}"
	}},
	{name: "include-with", minN: 2, src: func(fs []string, aux func(string, string) string) string {
		return "{% include '" + aux("child", "{{ p|"+rpChain(fs[1:])+" }}") + "' with {'p': v|" + fs[0] + "} only %}"
	}},
	{name: "for", minN: 2, src: func(fs []string, _ func(string, string) string) string {
		return "{% for x in [v|" + fs[0] + "] %}{{ x|" + rpChain(fs[1:]) + " }}{% endfor %}"
	}},
	{name: "if", minN: 2, src: func(fs []string, _ func(string, string) string) string {
		return "{% if true %}{{ v|" + rpChain(fs) + " }}{% endif %}"
	}},
	{name: "extends-block", minN: 2, src: func(fs []string, _ func(string, string) string) string {
		return "{% extends 'base' %}{% block b %}{{ v|" + rpChain(fs) + " }}{% endblock %}"
	}},
	// a transforming filter between the applications: the last application is judged against the twin
	{name: "between-trim", minN: 2, src: func(fs []string, _ func(string, string) string) string {
		return "{{ v|" + rpBetween(fs, "trim") + " }}"
	}, twin: func(fs []string) string {
		return "{{ v|" + rpBetween(fs[:len(fs)-1], "trim") + "|trim }}"
	}},
	{name: "between-upper", minN: 2, src: func(fs []string, _ func(string, string) string) string {
		return "{{ v|" + rpBetween(fs, "upper") + " }}"
	}, twin: func(fs []string) string {
		return "{{ v|" + rpBetween(fs[:len(fs)-1], "upper") + "|upper }}"
	}},
}

// rpDirect: the forms that do not go through the parser
var rpDirect = []string{
	"fallback-noenv-tree", "fallback-emptyenv-tree", "fallback-noenv-set-tree",
	"fallback-noenv-direct", "fallback-emptyenv-direct", "applyfilter-env-direct",
}

func rpTplName(form string, fs []string) string { return "rp-" + form + "-" + rpID(fs) }

// rpLens: the numbers of applications; rpFormOn: is the form run for n applications in this tier
var rpLens = []int{2, 3, 4}

func rpFormOn(f rpForm, n int, thorough bool) bool {
	if n < f.minN {
		return false
	}
	return n < 4 || thorough || f.lean
}

func newRepeatEngine(thorough bool) *twig.Engine {
	e := twig.New()
	must(e.RegisterString("plain", "{{ v }}"))
	must(e.RegisterString("base", "{% block b %}{% endblock %}"))
	for _, n := range rpLens {
		for _, fs := range rpSeqs(n) {
			for _, f := range rpForms {
				if !rpFormOn(f, n, thorough) {
					continue
				}
				name := rpTplName(f.name, fs)
				aux := func(a, src string) string {
					must(e.RegisterString(name+"-"+a, src))
					return name + "-" + a
				}
				must(e.RegisterString(name, f.src(fs, aux)))
				if f.twin != nil {
					must(e.RegisterString(name+"-twin", f.twin(fs)))
				}
			}
		}
	}
	return e
}

// rpTree: PrintNode(FilterNode(...FilterNode(v, f1)..., fn)), or, set = true, SetNode y = v|f1 followed by
// the print of y|f2|...|fn
func rpTree(fs []string, set bool) twig.Node {
	var x twig.Node = twig.NewVariableNode("v", 1)
	var nodes []twig.Node
	for i, f := range fs {
		x = twig.NewFilterNode(x, f, nil, 1)
		if set && i == 0 {
			nodes = append(nodes, twig.NewSetNode("y", x, 1))
			x = twig.NewVariableNode("y", 1)
		}
	}
	nodes = append(nodes, twig.NewPrintNode(x, 1))
	return twig.NewRootNode(nodes, 1)
}

func rpRunDirect(e *twig.Engine, form string, fs []string, v interface{}) (string, error) {
	var env *twig.Environment
	var eng *twig.Engine
	switch {
	case strings.HasPrefix(form, "fallback-emptyenv"):
		env = new(twig.Environment)
	case strings.HasPrefix(form, "applyfilter-env"):
		env, eng = e.GetEnvironment(), e
	}
	if strings.HasSuffix(form, "-tree") {
		ctx := twig.NewRenderContext(env, map[string]interface{}{"v": v}, eng)
		defer ctx.Release()
		var buf bytes.Buffer
		err := rpTree(fs, strings.HasSuffix(form, "-set-tree")).Render(&buf, ctx)
		return buf.String(), err
	}
	ctx := twig.NewRenderContext(env, nil, eng)
	defer ctx.Release()
	cur := v
	for i, f := range fs {
		r, err := ctx.ApplyFilter(f, cur)
		if err != nil {
			return "", fmt.Errorf("application %d (%s): %v", i+1, f, err)
		}
		if _, ok := r.(string); !ok {
			return "", fmt.Errorf("application %d (%s): filter result is %T, not a string", i+1, f, r)
		}
		cur = r
	}
	return cur.(string), nil
}

// verifyN: out must be what n correct applications make of the text in. Peeled from the outside: at
// every step the current text must be a correct escaped form of what it decodes to, and after n steps
// the text in must be left.
func verifyN(in, out string, n int) string {
	cur := out
	for k := n; k >= 1; k-- {
		t := in
		if k > 1 {
			t = decode(cur)
		}
		if why := verify(t, cur); why != "" {
			hint := ""
			for s, steps := out, 0; steps <= n+1; s, steps = decode(s), steps+1 {
				if s == in {
					if steps != n {
						hint = fmt.Sprintf(" (the output decodes back to the value's text in %d step(s), but %d applications were written: each application has to escape the text it is given)", steps, n)
					}
					break
				}
			}
			return fmt.Sprintf("peeling application %d of %d (1 = innermost), text %s is not the escaped form of %s: %s%s",
				k, n, strconv.QuoteToASCII(clip(cur, 120)), strconv.QuoteToASCII(clip(t, 120)), why, hint)
		}
		cur = t
	}
	return ""
}

// runRepeats pushes the value v (text: text) through every form for every name sequence
func runRepeats(e *twig.Engine, thorough bool, v interface{}, text string, renders *int64) *finding {
	ctx := map[string]interface{}{"v": v}
	for _, n := range rpLens {
		first := map[string]string{} // form -> output of the first name sequence
		for _, fs := range rpSeqs(n) {
			if len(text) > 1024 {
				tick()
			}
			check := func(form string, src func() string, out string, err error, twinText *string) *finding {
				why := ""
				switch {
				case err != nil:
					why = "error: " + err.Error()
				case twinText != nil:
					if why = verify(*twinText, out); why != "" {
						why = fmt.Sprintf("the last application was given %s (what the template without it renders): %s", strconv.QuoteToASCII(clip(*twinText, 120)), why)
					}
				default:
					why = verifyN(text, out, n)
				}
				if why == "" {
					if o, ok := first[form]; !ok {
						first[form] = out
					} else if o != out {
						why = fmt.Sprintf("the name sequences of length %d give different output (%s for %s)", n, strconv.QuoteToASCII(clip(o, 100)), strings.Repeat(filterNames[0]+",", n-1)+filterNames[0])
					}
				}
				if why == "" {
					return nil
				}
				return &finding{"repeat " + form, rpChain(fs), strconv.QuoteToASCII(clip(text, 200)), strconv.QuoteToASCII(clip(out, 200)), src() + why}
			}
			for _, f := range rpForms {
				if !rpFormOn(f, n, thorough) {
					continue
				}
				name := rpTplName(f.name, fs)
				var tw *string
				if f.twin != nil {
					t, err := e.Render(name+"-twin", ctx)
					*renders++
					if err != nil {
						return &finding{"repeat " + f.name, rpChain(fs), strconv.QuoteToASCII(clip(text, 200)), "", "template " + f.twin(fs) + ": error: " + err.Error()}
					}
					tw = &t
				}
				out, err := e.Render(name, ctx)
				*renders++
				f := f
				if fd := check(f.name, func() string {
					return "template " + f.src(fs, func(a, _ string) string { return name + "-" + a }) + ": "
				}, out, err, tw); fd != nil {
					return fd
				}
			}
			for _, form := range rpDirect {
				out, err := rpRunDirect(e, form, fs, v)
				*renders++
				if fd := check(form, func() string { return "" }, out, err, nil); fd != nil {
					return fd
				}
			}
		}
	}
	return nil
}

func rpOutcome(class string, feat map[string]bool, first *finding, renders, inputs int64, what string) *vlib.Outcome {
	o := &vlib.Outcome{Counters: map[string]int64{}}
	o.Counters["renders"] = renders
	o.Counters["repeat_renders"] = renders
	o.Counters["repeat_inputs"] = inputs
	var fs []string
	for k := range feat {
		fs = append(fs, k)
	}
	sort.Strings(fs)
	// non-trivial: the value's text holds a significant character, so the first application produces a
	// '&' that the second one has to escape
	o.Nontrivial = feat["amp"] || feat["lt"] || feat["gt"] || feat["quot"] || feat["apos"]
	o.Class = class + ":" + strings.Join(fs, "+")
	if first != nil {
		o.Class = "violation:" + first.Route
		o.Violation = fmt.Sprintf("%s, filters %s, %s %s: %s; output %s", first.Route, first.Filter, what, first.Input, first.Why, first.Output)
		o.Detail = first
	}
	return o
}

func runRepeatBlock(t *vlib.T, b block) *vlib.Outcome {
	e := newRepeatEngine(t.Thorough())
	feat := map[string]bool{}
	var first *finding
	var renders, inputs int64
	b.gen(func(in string) {
		if first != nil {
			return
		}
		inputs++
		features(in, feat)
		first = runRepeats(e, t.Thorough(), in, in, &renders)
		t.Progress()
	})
	return rpOutcome("repeat-"+b.family, feat, first, renders, inputs, "input")
}

func runRepeatNonString(t *vlib.T, nv nsValue) *vlib.Outcome {
	e := newRepeatEngine(t.Thorough())
	want := nv.want
	if nv.twin {
		w, err := e.Render("plain", map[string]interface{}{"v": nv.v()})
		if err != nil {
			return &vlib.Outcome{Nontrivial: true, Violation: fmt.Sprintf("value %s: unfiltered print failed: %v", nv.name, err)}
		}
		want = w
	}
	var renders int64
	feat := map[string]bool{}
	features(want, feat)
	first := runRepeats(e, t.Thorough(), nv.v(), want, &renders)
	return rpOutcome("repeat-nonstring", feat, first, renders, 1, "value "+nv.name+" with text")
}

// repeatBlocks: the inputs of the dimension. Quick: specials, single bytes, singles and pairs of
// already-escaped forms, alphabet strings of length <= 3, boundary lengths up to 257 repeats, code points
// below U+0800 inside a?&. Thorough: triples of already-escaped forms, alphabet length <= 4, repeats up to
// 4097, code points below U+3000.
func repeatBlocks(thorough bool) []block {
	never := func(int) bool { return false }
	if thorough {
		return buildBlocks(blockCfg{L: 4, bytesLen: 1, refsLen: 3, maxRep: 4097, long: false, cpEnd: 0x3000, cpAlone: never, cpCore: never})
	}
	return buildBlocks(blockCfg{L: 3, bytesLen: 1, refsLen: 2, maxRep: 257, long: false, cpEnd: 0x800, cpAlone: never, cpCore: never})
}
