// Two engines in one process (cases 10-engines/...): the property speaks about the escape filter of an
// engine, and a process may hold several engines. ANOTHER engine of the same process — created before or
// after the engine under test — registers its own filters under the names the core positions use
// (e, escape, raw, upper; every non-empty subset), as a no-op, as a filter that adds markup of its own, or
// as a filter that fails, through every exported way of registering a filter (AddFilter, AddExtension with
// a CustomExtension / with an Extension type of its own, RegisterExtension, CreateExtension +
// AddFilterToExtension), and renders with them. The engine under test is never touched: it must still
// satisfy the unchanged escape oracle on every route under both names, and the two names must keep
// agreeing — before the other engine registers (where the timeline has such a moment), after it has
// registered, and after it has rendered.
//
// "self" cases: the engine under test itself registers filters under names that no route uses (a custom
// upper, a new name shout) through the same five ways; its escape / e are still the built-in ones, so
// the oracle is unchanged. An engine under test that registers its own e / escape is NOT generated: the
// statement describes the escape filter and its alias, not what a user-supplied filter of that name does.
package main

import (
	"errors"
	"fmt"
	"strconv"
	"strings"

	"github.com/semihalev/twig"

	"verif/lib/vlib"
)

// timelines: T = the engine under test is created, O = the other engine is created, R = the other
// engine registers its filters, U = the other engine renders with them, C = the engine under test renders
// everything and is checked. Every order of creation and registration, with the engine under test cold or
// warm at the moment of the registration, and with the other engine's first use before or after the first
// render of the engine under test.
var egTimelines = []struct{ name, steps, what string }{
	// the timelines in which the other engine is the first to use its filters come first: see the remark on
	// the order of the enumeration in main.go
	{"other-first-used", "ORUTC", "created, customised and used before the engine under test was created"},
	{"other-created-first-used", "OTRUC", "created before the engine under test, customised after it and used before the engine under test rendered anything"},
	{"test-first-used", "TORUC", "created, customised and used after the engine under test was created but before it rendered anything"},
	{"other-first", "ORTCUC", "created and customised before the engine under test was created"},
	{"other-created-first", "OTRCUC", "created before the engine under test, customised after it"},
	{"other-created-first-warm", "OTCRCUC", "created before the engine under test, customised after the engine under test had rendered"},
	{"test-first", "TORCUC", "created and customised after the engine under test was created"},
	{"test-first-warm", "TCORCUC", "created and customised after the engine under test had rendered"},
}

var egSelfTimelines = []struct{ name, steps string }{
	{"cold", "TRC"},
	{"warm", "TCRC"},
}

// names the other engine registers (every non-empty subset): the two names of the property, `raw` (which
// stands next to the escape in the chain routes) and `upper` (used by no route of this dimension: a pure
// stimulus — what the untouched engine's own upper does is not the property's business, so a registration
// that only concerns upper can show here only through what it does to e / escape)
var egNames = []string{"e", "escape", "raw", "upper"}

// names the engine under test registers on itself in the self cases: none of them is used by a route
var egSelfNames = []string{"upper", "shout"}

const egTagPre, egTagPost = "<o t=\"1\">", "</o>&'"

var egKinds = []struct {
	name, what string
	fn         twig.FilterFunc
}{
	{"noop", "a no-op", func(v interface{}, _ ...interface{}) (interface{}, error) { return v, nil }},
	{"tag", "a filter that wraps the text in markup", func(v interface{}, _ ...interface{}) (interface{}, error) {
		return egTagPre + fmt.Sprint(v) + egTagPost, nil
	}},
	{"fail", "a filter that returns an error", func(v interface{}, _ ...interface{}) (interface{}, error) {
		return nil, errors.New("custom filter of the other engine")
	}},
}

// egExt is an Extension type of the check's own (not twig's CustomExtension)
type egExt struct{ filters map[string]twig.FilterFunc }

func (x *egExt) GetName() string                            { return "c07-own" }
func (x *egExt) GetFilters() map[string]twig.FilterFunc     { return x.filters }
func (x *egExt) GetFunctions() map[string]twig.FunctionFunc { return nil }
func (x *egExt) GetTests() map[string]twig.TestFunc         { return nil }
func (x *egExt) GetOperators() map[string]twig.OperatorFunc { return nil }
func (x *egExt) GetTokenParsers() []twig.TokenParser        { return nil }
func (x *egExt) Initialize(*twig.Engine)                    {}

func egMap(names []string, fn twig.FilterFunc) map[string]twig.FilterFunc {
	m := make(map[string]twig.FilterFunc, len(names))
	for _, n := range names {
		m[n] = fn
	}
	return m
}

// every exported way of registering a filter on an engine
var egMechanisms = []struct {
	name, what string
	reg        func(e *twig.Engine, names []string, fn twig.FilterFunc)
}{
	{"addfilter", "AddFilter", func(e *twig.Engine, names []string, fn twig.FilterFunc) {
		for _, n := range names {
			e.AddFilter(n, fn)
		}
	}},
	{"addextension", "AddExtension(&CustomExtension{Filters: …})", func(e *twig.Engine, names []string, fn twig.FilterFunc) {
		e.AddExtension(&twig.CustomExtension{Name: "c07-custom", Filters: egMap(names, fn)})
	}},
	{"own-extension", "AddExtension(an Extension type of the caller)", func(e *twig.Engine, names []string, fn twig.FilterFunc) {
		e.AddExtension(&egExt{egMap(names, fn)})
	}},
	{"registerextension", "RegisterExtension", func(e *twig.Engine, names []string, fn twig.FilterFunc) {
		e.RegisterExtension("c07-registered", func(x *twig.CustomExtension) {
			for _, n := range names {
				x.Filters[n] = fn
			}
		})
	}},
	{"createextension", "CreateExtension + AddFilterToExtension + AddExtension", func(e *twig.Engine, names []string, fn twig.FilterFunc) {
		x := e.CreateExtension("c07-created")
		for _, n := range names {
			e.AddFilterToExtension(x, n, fn)
		}
		e.AddExtension(x)
	}},
}

// egSubsets: every non-empty subset of names, smallest first, in a fixed order
func egSubsets(names []string) [][]string {
	var out [][]string
	for size := 1; size <= len(names); size++ {
		for mask := 1; mask < 1<<len(names); mask++ {
			var s []string
			for i, n := range names {
				if mask&(1<<i) != 0 {
					s = append(s, n)
				}
			}
			if len(s) == size {
				out = append(out, s)
			}
		}
	}
	return out
}

// templates the other engine renders with its own filters
var egOtherTpl = []struct{ name, src string }{
	{"o-print", "{{ v|%s }}"},
	{"o-chain", "{{ v|raw|%s }}"},
	{"o-apply", "{%% apply %s %%}{{ v }}{%% endapply %%}"},
	{"o-macro", "{%% macro m(p) %%}{{ p|%s }}{%% endmacro %%}{{ m(v) }}"},
	{"o-include", "{%% include 'o-print-%s' %%}"},
}

func egRegisterOtherTpl(e *twig.Engine) {
	for _, n := range egNames {
		for _, t := range egOtherTpl {
			must(e.RegisterString(t.name+"-"+n, fmt.Sprintf(t.src, n)))
		}
	}
}

type egInput struct {
	v     interface{}
	text  string // "" + twin: taken from the unfiltered print tag of the engine under test
	twin  bool
	label string
}

// egInputs: quick — the specials; thorough — also the single bytes, the 23 already-escaped forms, the
// alphabet strings of length <= 2 and the non-string values
func egInputs(thorough bool) []egInput {
	var ins []egInput
	add := func(s string) { ins = append(ins, egInput{v: s, text: s, label: strconv.QuoteToASCII(s)}) }
	never := func(int) bool { return false }
	for _, b := range buildBlocks(blockCfg{L: 2, bytesLen: 1, refsLen: 1, maxRep: 0, long: false, cpEnd: 0, cpAlone: never, cpCore: never}) {
		if b.family == "special" || thorough {
			b.gen(add)
		}
	}
	if thorough {
		for _, nv := range nonStrings() {
			ins = append(ins, egInput{v: nv.v(), text: nv.want, twin: nv.twin, label: "value " + nv.name})
		}
	}
	return ins
}

// egCheck runs every input through every route of the engine under test under both names.
func egCheck(t *vlib.T, en *env, routes []route, ins []egInput, when string, renders *int64, feat map[string]bool) *finding {
	for _, in := range ins {
		text := in.text
		if in.twin {
			w, err := en.e().Render("plain", map[string]interface{}{"v": in.v})
			*renders++
			if err != nil {
				return &finding{"plain", "-", in.label, "", when + ": unfiltered print failed: " + err.Error()}
			}
			text = w
		}
		features(text, feat)
		for _, r := range routes {
			var outs [2]string
			for k, f := range filterNames {
				out, err := r.run(en, f, in.v)
				*renders++
				why := ""
				if err != nil {
					why = "error: " + err.Error()
				} else {
					why = verify(text, out)
				}
				if why != "" {
					return &finding{r.name, f, in.label, strconv.QuoteToASCII(clip(out, 200)), when + ": " + why}
				}
				outs[k] = out
			}
			if outs[0] != outs[1] {
				return &finding{r.name, "escape vs e", in.label, strconv.QuoteToASCII(clip(outs[0], 100) + " vs " + clip(outs[1], 100)), when + ": the two names give different output"}
			}
		}
		t.Progress()
	}
	return nil
}

// egOtherRenders lets the other engine render its templates for the names it registered. The outputs are
// not judged (what a user-supplied filter does is not the property's business); customised = for a
// registered name e / escape the other engine's `{{ v|NAME }}` is not the escaped form of the input, i.e.
// the other engine really behaves differently from an untouched one in what the property is about.
func egOtherRenders(other *twig.Engine, names []string, ins []egInput, renders *int64) (customised bool) {
	for _, in := range ins {
		ctx := map[string]interface{}{"v": in.v}
		for _, n := range names {
			for _, tp := range egOtherTpl {
				out, err := other.Render(tp.name+"-"+n, ctx)
				*renders++
				if tp.name == "o-print" && (n == "e" || n == "escape") && !in.twin && (err != nil || verify(in.text, out) != "") {
					customised = true
				}
			}
		}
	}
	return customised
}

func egOutcome(class string, feat map[string]bool, first *finding, renders int64, scenario string) *vlib.Outcome {
	o := abOutcome(class, feat, nil)
	o.Counters["renders"] = renders
	o.Counters["engines_renders"] = renders
	o.Counters["engines_scenarios"] = 1
	if first != nil {
		o.Class = "violation:engines/" + first.Route
		o.Violation = fmt.Sprintf("%s; route %s, filter %s, input %s: %s; output %s", scenario, first.Route, first.Filter, first.Input, first.Why, first.Output)
		o.Detail = first
	}
	return o
}

// runEngines: one scenario of the two-engine dimension.
func runEngines(t *vlib.T, routes []route, steps string, mech, kind int, names []string, ins []egInput, scenario string) *vlib.Outcome {
	en := newEnv()
	var other *twig.Engine
	feat := map[string]bool{}
	var renders int64
	var first *finding
	registered, used, differs := false, false, false
	for _, s := range steps {
		switch s {
		case 'T':
			en.e()
		case 'O':
			other = newEngine()
			egRegisterOtherTpl(other)
		case 'R':
			egMechanisms[mech].reg(other, names, egKinds[kind].fn)
			registered = true
		case 'U':
			// what the other engine renders is only looked at to see whether it really is customised; the engine
			// under test may not exist yet, so the comparison is made with the oracle: an output of `{{ v|NAME }}`
			// that is not the escaped form of the input
			differs = egOtherRenders(other, names, ins, &renders) || differs
			used = true
		case 'C':
			when := "before the other engine registered anything"
			if used {
				when = "after the other engine registered its filters and rendered with them"
			} else if registered {
				when = "after the other engine registered its filters"
			}
			first = egCheck(t, en, routes, ins, when, &renders, feat)
		}
		if first != nil {
			return egOutcome("", feat, first, renders, scenario)
		}
	}
	class := "engines-" + egKinds[kind].name + "-same"
	if differs {
		class = "engines-" + egKinds[kind].name + "-differs"
	}
	o := egOutcome(class, feat, nil, renders, scenario)
	// non-trivial: the other engine really renders something else than an escape for a name it registered
	// (a no-op raw / upper alone does not concern e / escape)
	o.Nontrivial = differs
	return o
}

// runEnginesSelf: the engine under test registers filters under names no route uses.
func runEnginesSelf(t *vlib.T, routes []route, steps string, mech, kind int, names []string, ins []egInput, scenario string) *vlib.Outcome {
	en := newEnv()
	feat := map[string]bool{}
	var renders int64
	var first *finding
	registered := false
	for _, s := range steps {
		switch s {
		case 'T':
			en.e()
		case 'R':
			egMechanisms[mech].reg(en.e(), names, egKinds[kind].fn)
			registered = true
		case 'C':
			when := "before the engine registered anything"
			if registered {
				when = "after the engine registered its additional filters"
			}
			first = egCheck(t, en, routes, ins, when, &renders, feat)
		}
		if first != nil {
			return egOutcome("", feat, first, renders, scenario)
		}
	}
	o := egOutcome("engines-self-"+egKinds[kind].name, feat, nil, renders, scenario)
	o.Nontrivial = len(feat) > 0
	return o
}

// enginesCases generates the cases of the dimension.
func enginesCases(t *vlib.T, routes []route) {
	var ins []egInput
	inputs := func() []egInput {
		if ins == nil {
			ins = egInputs(t.Thorough())
		}
		return ins
	}
	subsets := egSubsets(egNames)
	for _, tl := range egTimelines {
		for mi, m := range egMechanisms {
			for ki, k := range egKinds {
				for _, names := range subsets {
					tl, mi, m, ki, k, names := tl, mi, m, ki, k, names
					key := fmt.Sprintf("10-engines/other/%s/%s/%s/%s", tl.name, m.name, k.name, strings.Join(names, "+"))
					t.Case(key, func() *vlib.Outcome {
						scenario := fmt.Sprintf("another engine of the process (%s) registers %s under the name(s) %s through %s and renders with them; the engine under test is never customised",
							tl.what, k.what, strings.Join(names, ", "), m.what)
						return runEngines(t, routes, tl.steps, mi, ki, names, inputs(), scenario)
					})
				}
			}
		}
	}
	selfSubsets := egSubsets(egSelfNames)
	for _, tl := range egSelfTimelines {
		for mi, m := range egMechanisms {
			for ki, k := range egKinds {
				for _, names := range selfSubsets {
					tl, mi, m, ki, k, names := tl, mi, m, ki, k, names
					key := fmt.Sprintf("10-engines/self/%s/%s/%s/%s", tl.name, m.name, k.name, strings.Join(names, "+"))
					t.Case(key, func() *vlib.Outcome {
						scenario := fmt.Sprintf("the engine under test registered %s under the name(s) %s (used by no route) through %s; its escape / e are the built-in ones",
							k.what, strings.Join(names, ", "), m.what)
						return runEnginesSelf(t, routes, tl.steps, mi, ki, names, inputs(), scenario)
					})
				}
			}
		}
	}
}
