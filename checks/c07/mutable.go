// Values whose text changes between applications (cases 12-mutable/...).
//
// Every earlier dimension hands the filter a value whose text never changes while the check holds it
// (a fresh string, or a fresh non-string value per render). "Every non-string value converted to text"
// includes values that are reached THROUGH something - a *string, a *bytes.Buffer, a pointer with a
// String method, a pointer to a struct, a list or a map that is changed in place, a context map that
// the application keeps and updates - and such a value has a different text the next time the filter
// sees it. The statement speaks about the output of an application for its input; the input's text is
// what the value says at the moment of that application, so every application must escape the value's
// CURRENT text, whatever an earlier application (of the same template, of another template, of another
// engine of the process) saw.
//
// Enumerated: 8 kinds of value x every sequence of three texts over 7 texts (343; all pairs and all
// "back to the first text" sequences are among them). For every sequence a fresh value; at every step
// the pointee is set to the step's text and then every route (the 16 template positions - rendered with
// ONE context map kept for the whole sequence -, ApplyFilter x3, macro text x2) is run under both names
// on engine A and on engine B (two engines per case; the engine and the route that come first after a
// change rotate with the step). Plus two forms in which the text changes INSIDE one render, between two
// applications: a function of the check's own (`bump()`, registered with AddFunction) sets the next
// text - `{{ v|F1 }}<{{ bump() }}{{ v|F2 }}` and the same with two set variables (run after the sequence
// has been played between renders, on the same value).
//
// Oracle unchanged: verify(current text, out). The current text is known by construction for *string,
// *bytes.Buffer, the Stringer pointer and the string in the kept context map; for the pointer to a named
// string, the pointer to a struct, the list and the map it is what the unfiltered print tag renders on
// the same engine at that moment (twin). The in-render forms are not run for the string in the kept map
// (whether a running render sees the caller change its context map is open; this twig renders from a copy).
package main

import (
	"bytes"
	"fmt"
	"strconv"
	"strings"

	"verif/lib/vlib"
)

type mutValue struct {
	v    interface{}        // what is stored in the context under "v" ("" for inMap: the string itself is stored)
	set  func(string)       // change the text
	twin bool               // the text is taken from the unfiltered print tag
	cur  func() interface{} // the value to hand to the direct routes / to store in the map right now
}

type mutKind struct {
	name string
	make func() *mutValue
}

type mutBox struct{ Text string }

var mutKinds = []mutKind{
	{"ptr-string", func() *mutValue {
		s := new(string)
		return &mutValue{v: s, set: func(t string) { *s = t }}
	}},
	{"ptr-buffer", func() *mutValue {
		b := new(bytes.Buffer)
		return &mutValue{v: b, set: func(t string) { b.Reset(); b.WriteString(t) }}
	}},
	{"ptr-stringer", func() *mutValue {
		p := &pstrg{}
		return &mutValue{v: p, set: func(t string) { p.s = t }}
	}},
	{"ptr-named-string", func() *mutValue {
		s := new(named)
		return &mutValue{v: s, twin: true, set: func(t string) { *s = named(t) }}
	}},
	{"ptr-struct", func() *mutValue {
		p := &mutBox{}
		return &mutValue{v: p, twin: true, set: func(t string) { p.Text = t }}
	}},
	{"list-in-place", func() *mutValue {
		l := []interface{}{"", "x"}
		return &mutValue{v: l, twin: true, set: func(t string) { l[0] = t }}
	}},
	{"map-in-place", func() *mutValue {
		m := map[string]interface{}{"k": ""}
		return &mutValue{v: m, twin: true, set: func(t string) { m["k"] = t }}
	}},
	// a plain string, but the application keeps ONE context map and replaces the entry
	{"string-in-kept-map", func() *mutValue {
		mv := &mutValue{}
		cur := ""
		mv.set = func(t string) { cur = t }
		mv.cur = func() interface{} { return cur }
		return mv
	}},
}

var mutTexts = []string{
	"", "<", "&", "a", "&lt;", `<a href="x" title='y'>&amp;&</a>`, strings.Repeat("<é&\xff\"'", 24),
}

// in-render forms: F1 F2 = the filter names; bump() sets the next text and prints nothing
var mutInRender = []struct{ name, src string }{
	{"in-render-print", "{{ v|F1 }}<{{ bump() }}{{ v|F2 }}"},
	{"in-render-set", "{% set x = v|F1 %}{{ bump() }}{% set y = v|F2 %}{{ x }}<{{ y }}"},
}

type mutEngines struct {
	en   [2]*env
	hook func()
}

func newMutEngines() *mutEngines {
	m := &mutEngines{}
	for i := range m.en {
		m.en[i] = newEnv()
		e := m.en[i].e()
		e.AddFunction("bump", func(args ...interface{}) (interface{}, error) {
			if m.hook != nil {
				m.hook()
			}
			return "", nil
		})
		for _, t := range mutInRender {
			for _, f1 := range filterNames {
				for _, f2 := range filterNames {
					must(e.RegisterString("mut-"+t.name+"-"+f1+"-"+f2, strings.NewReplacer("F1", f1, "F2", f2).Replace(t.src)))
				}
			}
		}
	}
	return m
}

// runMutable: one kind x the sequences of texts that start with mutTexts[first]
func runMutable(t *vlib.T, kind mutKind, first int, routes []route) *vlib.Outcome {
	engs := newMutEngines()
	o := &vlib.Outcome{Counters: map[string]int64{}}
	var renders, apps, seqs int64
	feat := map[string]bool{}
	var direct []route
	for _, r := range routes {
		if r.direct {
			direct = append(direct, r)
		}
	}
	fail := func(seq []string, step int, route, filter, text, out, why string) *vlib.Outcome {
		var qs []string
		for _, s := range seq {
			qs = append(qs, strconv.QuoteToASCII(clip(s, 60)))
		}
		o.Class = "violation:mutable/" + route
		o.Violation = fmt.Sprintf("value %s takes the texts %s one after the other; application %d, route %s, filter %s, while the value's text is %s: %s; output %s",
			kind.name, strings.Join(qs, " -> "), step+1, route, filter, strconv.QuoteToASCII(clip(text, 200)), why, strconv.QuoteToASCII(clip(out, 200)))
		o.Detail = finding{route, filter, strconv.QuoteToASCII(clip(text, 200)), strconv.QuoteToASCII(clip(out, 200)), why}
		return o
	}
	n := len(mutTexts)
	for b := 0; b < n; b++ {
		for c := 0; c < n; c++ {
			seq := []string{mutTexts[first], mutTexts[b], mutTexts[c]}
			seqs++
			mv := kind.make()
			ctx := map[string]interface{}{"v": mv.v} // kept for the whole sequence
			now := func() interface{} {
				if mv.cur != nil {
					return mv.cur()
				}
				return mv.v
			}
			// text: the value's current text (twin kinds: what the unfiltered print tag of engine A renders now)
			text := func(known string) (string, error) {
				if !mv.twin {
					return known, nil
				}
				renders++
				return engs.en[0].e().Render("plain", map[string]interface{}{"v": now()})
			}
			// pass 0: the text changes between renders; pass 1 (afterwards, same value): inside one render
			for ps := 0; ps < 2*len(seq); ps++ {
				pass, step := ps/len(seq), ps%len(seq)
				txt := seq[step]
				mv.set(txt)
				ctx["v"] = now()
				want, err := text(txt)
				if err != nil {
					return fail(seq, step, "plain", "-", txt, "", "unfiltered print failed: "+err.Error())
				}
				features(want, feat)
				for ei := 0; ei < 2 && pass == 0; ei++ {
					en := engs.en[(ei+step)%2]
					// template routes, starting with a different one at every step
					for k := range tplRoutes {
						r := tplRoutes[(k+5*step)%len(tplRoutes)]
						var outs [2]string
						for fi, f := range filterNames {
							out, err := en.e().Render(r.name+"-"+f, ctx)
							renders++
							apps++
							why := ""
							if err != nil {
								why = "error: " + err.Error()
							} else {
								why = verify(want, out)
							}
							if why != "" {
								return fail(seq, step, r.name, f, want, out, why)
							}
							outs[fi] = out
						}
						if outs[0] != outs[1] {
							return fail(seq, step, r.name, "escape vs e", want, outs[0]+" vs "+outs[1], "the two names give different output")
						}
					}
					for _, r := range direct {
						for _, f := range filterNames {
							out, err := r.run(en, f, now())
							renders++
							apps++
							why := ""
							if err != nil {
								why = "error: " + err.Error()
							} else {
								why = verify(want, out)
							}
							if why != "" {
								return fail(seq, step, r.name, f, want, out, why)
							}
						}
					}
				}
				// the text changes inside one render, between two applications
				// (not for the string in the kept map: whether a render sees a change of the caller's context map made
				// while it runs is not the escape's business - this twig renders from a copy)
				if pass == 1 && step+1 < len(seq) && mv.cur == nil {
					next := seq[step+1]
					for _, tp := range mutInRender {
						for _, f1 := range filterNames {
							for _, f2 := range filterNames {
								mv.set(txt)
								ctx["v"] = now()
								engs.hook = func() { mv.set(next) }
								out, err := engs.en[step%2].e().Render("mut-"+tp.name+"-"+f1+"-"+f2, ctx)
								engs.hook = nil
								renders++
								apps += 2
								if err != nil {
									return fail(seq, step, tp.name, f1+","+f2, want, "", "error: "+err.Error())
								}
								wantNext, err := text(next)
								if err != nil {
									return fail(seq, step, "plain", "-", next, "", "unfiltered print failed: "+err.Error())
								}
								parts, err := splitParts(out, 2)
								if err != nil {
									return fail(seq, step, tp.name, f1+","+f2, want, out, fmt.Sprintf("(bump() sets the text to %s) %v", strconv.QuoteToASCII(clip(wantNext, 100)), err))
								}
								if why := verify(want, parts[0]); why != "" {
									return fail(seq, step, tp.name, f1+","+f2, want, out, "first application (before bump()): "+why)
								}
								if why := verify(wantNext, parts[1]); why != "" {
									return fail(seq, step, tp.name, f1+","+f2, wantNext, out, "second application (after bump() has set the text): "+why)
								}
							}
						}
					}
				}
				t.Progress()
			}
		}
	}
	o.Counters["renders"] = renders
	o.Counters["mutable_renders"] = renders
	o.Counters["mutable_applications"] = apps
	o.Counters["mutable_sequences"] = seqs
	o.Nontrivial = true // every case holds sequences in which a text with significant characters follows a different text
	o.Class = "mutable-" + kind.name
	return o
}
