// Operand shapes: escape / e applied to an expression that is not a plain variable or a plain chain
// on a variable. The escaped operand is a parenthesised concatenation, a conditional, an array / hash
// element whose parts carry filters of their own, or the result of a filter whose ARGUMENT is itself
// a filter chain; and the same nested two deep. Every shape is written in every position in which
// the escape can stand (print tag, set, apply block, print tag inside an apply block, macro body)
// under both names.
//
// The oracle is the unchanged verify(text, out): the text that reaches the escape is known by
// construction, because the input v is only ever concatenated with constants, selected by a
// condition / an index, or passed through `default(v)` / `replace(k, k)` (which give v whatever they
// decide), and the filters of the operand's other parts act on the constants p = " x " (trim -> "x")
// and q = "Ab" (lower -> "ab", upper -> "AB") only.
package main

import (
	"fmt"
	"sort"
	"strconv"
	"strings"

	"github.com/semihalev/twig"

	"verif/lib/vlib"
)

type shape struct {
	name string
	x    string // the operand; the escaped expression is x|F
	pre  string // text reaching the escape = pre + text(v) + post
	post string
	// pure: the operand's value IS v (selected, never concatenated or converted), so the shape is also
	// run on the non-string values
	pure bool
}

var shapes = []shape{
	// parenthesised concatenation whose parts carry their own filters
	{name: "paren-left", x: "(p|trim ~ v)", pre: "x"},
	{name: "paren-right", x: "(v ~ p|trim)", post: "x"},
	{name: "paren-both", x: "(p|trim ~ v|default(v) ~ q|upper)", pre: "x", post: "AB"},
	// conditional: filter in the test, in the taken branch, in the branch not taken
	{name: "cond-test", x: "(p|trim == 'x' ? v : q)", pure: true},
	{name: "cond-then", x: "(c ? v|default(v) : p|trim)", pure: true},
	{name: "cond-else", x: "(not c ? p|trim : v ~ q|lower)", post: "ab"},
	// array / hash element
	{name: "array-first", x: "[v|default(v), p|trim][0]", pure: true},
	{name: "array-last", x: "[p|trim, v][1]", pure: true},
	{name: "hash", x: "{'k': v|default(v), 'j': p|trim}['k']", pure: true},
	// after a filter whose argument is itself a filter chain
	{name: "arg-chain", x: "z|default(v|default(v)|default(v))", pure: true},
	{name: "arg-chain-concat", x: "z|default(v ~ p|trim|lower)", post: "x"},
	{name: "arg-replace", x: "v|replace('x', p|trim)"},
	{name: "arg-replace-chain", x: "v|replace(p|trim|lower, p|trim|lower)"},
	// nested two deep
	{name: "deep-paren", x: "((p|trim ~ v)|default(q|lower) ~ q|upper)", pre: "x", post: "AB"},
	{name: "deep-arg", x: "z|default((c ? p|trim ~ v : q)|default(q|trim|lower))", pre: "x"},
	{name: "deep-array", x: "[(p|trim ~ v)|default(q|upper)][0]", pre: "x"},
	{name: "deep-cond", x: "(c ? [v|default(v), (q|lower ~ p|trim)|upper][0] : q)", pure: true},
}

// positions: X = the operand, F = the filter name
var shapePositions = []struct{ name, src string }{
	{"print", "{{ X|F }}"},
	{"set", "{% set x = X|F %}{{ x }}"},
	{"apply", "{% apply F %}{{ X }}{% endapply %}"},
	{"in-apply", "{% apply raw %}{{ X|F }}{% endapply %}"},
	{"macro", "{% macro m(v, p, q, c, z) %}{{ X|F }}{% endmacro %}{{ m(v, p, q, c, z) }}"},
}

func shapeSrc(pos, x, f string) string {
	return strings.NewReplacer("X", x, "F", f).Replace(pos)
}

func shapeTpl(pos, sh, f string) string { return "shape-" + pos + "-" + sh + "-" + f }

func newShapeEngine() *twig.Engine {
	e := twig.New()
	must(e.RegisterString("plain", "{{ v }}"))
	for _, sh := range shapes {
		for _, p := range shapePositions {
			for _, f := range filterNames {
				must(e.RegisterString(shapeTpl(p.name, sh.name, f), shapeSrc(p.src, sh.x, f)))
			}
		}
	}
	return e
}

func shapeCtx(v interface{}) map[string]interface{} {
	return map[string]interface{}{"v": v, "p": " x ", "q": "Ab", "c": true, "z": nil}
}

// runShapes renders every shape (pureOnly: the pure ones) in every position under both names with the
// value v whose text is text, and returns the first deviation.
func runShapes(e *twig.Engine, v interface{}, text string, pureOnly bool, renders *int64) *finding {
	for _, sh := range shapes {
		if pureOnly && !sh.pure {
			continue
		}
		want := sh.pre + text + sh.post
		for _, p := range shapePositions {
			var outs [2]string
			if len(text) > 4096 {
				tick()
			}
			for k, f := range filterNames {
				out, err := e.Render(shapeTpl(p.name, sh.name, f), shapeCtx(v))
				*renders++
				why := ""
				if err != nil {
					why = "error: " + err.Error()
				} else {
					why = verify(want, out)
				}
				if why != "" {
					return &finding{"shape " + p.name + "/" + sh.name, f, strconv.QuoteToASCII(clip(text, 200)), strconv.QuoteToASCII(clip(out, 200)),
						fmt.Sprintf("template %s (p = \" x \", q = \"Ab\", c = true, z = null; the text that reaches the escape is %s): %s",
							shapeSrc(p.src, sh.x, f), strconv.QuoteToASCII(clip(want, 200)), why)}
				}
				outs[k] = out
			}
			if outs[0] != outs[1] {
				return &finding{"shape " + p.name + "/" + sh.name, "escape vs e", strconv.QuoteToASCII(clip(text, 200)),
					strconv.QuoteToASCII(clip(outs[0], 100) + " vs " + clip(outs[1], 100)), "the two names give different output"}
			}
		}
	}
	return nil
}

func runShapeBlock(t *vlib.T, b block) *vlib.Outcome {
	e := newShapeEngine()
	o := &vlib.Outcome{Counters: map[string]int64{}}
	feat := map[string]bool{}
	var first *finding
	var renders, inputs int64
	b.gen(func(in string) {
		if first != nil {
			return
		}
		inputs++
		features(in, feat)
		first = runShapes(e, in, in, false, &renders)
		t.Progress()
	})
	o.Counters["renders"] = renders
	o.Counters["shape_renders"] = renders
	o.Counters["shape_inputs"] = inputs
	var fs []string
	for k := range feat {
		fs = append(fs, k)
	}
	sort.Strings(fs)
	o.Nontrivial = len(fs) > 0
	o.Class = "shape-" + b.family + ":" + strings.Join(fs, "+")
	if first != nil {
		o.Class = "violation:" + first.Route
		o.Violation = fmt.Sprintf("%s, filter %s, input %s: %s; output %s", first.Route, first.Filter, first.Input, first.Why, first.Output)
		o.Detail = first
	}
	return o
}

func runShapeNonString(nv nsValue) *vlib.Outcome {
	e := newShapeEngine()
	o := &vlib.Outcome{Nontrivial: true, Counters: map[string]int64{}}
	want := nv.want
	if nv.twin {
		w, err := e.Render("plain", map[string]interface{}{"v": nv.v()})
		if err != nil {
			o.Violation = fmt.Sprintf("value %s: unfiltered print failed: %v", nv.name, err)
			return o
		}
		want = w
	}
	var renders int64
	if f := runShapes(e, nv.v(), want, true, &renders); f != nil {
		o.Violation = fmt.Sprintf("%s, filter %s, value %s (text %s): %s; output %s", f.Route, f.Filter, nv.name, f.Input, f.Why, f.Output)
		o.Detail = f
		o.Class = "violation:" + f.Route
		return o
	}
	o.Counters["renders"] = renders
	o.Counters["shape_renders"] = renders
	o.Counters["shape_inputs"] = 1
	set := map[string]bool{}
	features(want, set)
	var fs []string
	for k := range set {
		fs = append(fs, k)
	}
	sort.Strings(fs)
	o.Class = "shape-nonstring:" + strings.Join(fs, "+")
	return o
}

// shapeBlocks: the inputs of the shape dimension. Quick: specials, the 256 single bytes, every pair
// and triple of already-escaped forms, every alphabet string of length <= 4, boundary lengths up to
// 4097 repeats, every code point below U+0800 (1- and 2-byte forms) inside a?&. Thorough: every byte string of length <= 2,
// alphabet strings of length <= 5, all boundary lengths, the 1 MiB strings, every code point inside a?&.
func shapeBlocks(thorough bool) []block {
	never := func(int) bool { return false }
	if thorough {
		return buildBlocks(blockCfg{L: 5, bytesLen: 2, maxRep: 1 << 20, long: true, cpEnd: 0x110000, cpAlone: never, cpCore: never})
	}
	return buildBlocks(blockCfg{L: 4, bytesLen: 1, maxRep: 4097, long: false, cpEnd: 0x800, cpAlone: never, cpCore: never})
}
