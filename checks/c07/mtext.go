// Macro text with several references (cases 9-macrotext/...): a macro whose body is ONE text node
// (built with the exported constructors, like the macro-text routes) that refers to the SAME variable
// several times with different filters — `{{ p }} {{ p|e }}`, `{{ p|length }} {{ p|escape }}`,
// `{{ p|e }} {{ p }} {{ p|e }}`, `{{p|upper}}{{p|e}}` — and to a second variable in between. Every
// sequence of one, two and three references over the reference alphabet is enumerated, in three
// separator styles, with the engine's environment and without any.
//
// Oracle, reference by reference, walking the output from the left: a reference with e / escape must
// be the escaped form (walk) of the variable's text; every other reference must render exactly what
// that reference renders alone (a text node holding only it, same context kind, same value); the
// separators are literal.
package main

import (
	"bytes"
	"fmt"
	"strconv"
	"strings"

	"github.com/semihalev/twig"

	"verif/lib/vlib"
)

type mtRef struct {
	v      string // variable: p = the input, q = mtQ
	filter string // "" = bare
}

func (r mtRef) escape() bool { return r.filter == "e" || r.filter == "escape" }

func (r mtRef) src(tight bool) string {
	s := r.v
	if r.filter != "" {
		if tight {
			s += "|" + r.filter
		} else {
			s += " | " + r.filter
		}
	}
	if tight {
		return "{{" + s + "}}"
	}
	return "{{ " + s + " }}"
}

// second macro parameter
const mtQ = `<q>&"'`

// reference alphabets; without environment only the built-in escape exists
var mtRefsEnv = []mtRef{{"p", ""}, {"p", "e"}, {"p", "escape"}, {"p", "length"}, {"p", "upper"}, {"q", ""}, {"q", "e"}}
var mtRefsNoEnv = []mtRef{{"p", ""}, {"p", "e"}, {"p", "escape"}, {"q", ""}, {"q", "escape"}}

// separator styles: what stands before, between and after the references, and whether the
// references are written without blanks
var mtStyles = []struct {
	name          string
	pre, sep, end string
	tight         bool
}{
	{"blank", "", " ", "", false},
	{"adjacent", "", "", "", true},
	{"markup", `<a id="`, `" t='`, `'>&`, false},
}

type mtText struct {
	style int
	refs  []mtRef
	node  *twig.MacroNode
	src   string
}

func mtSeqs(alpha []mtRef, maxLen int) [][]mtRef {
	var out [][]mtRef
	level := [][]mtRef{nil}
	for n := 1; n <= maxLen; n++ {
		var next [][]mtRef
		for _, s := range level {
			for _, r := range alpha {
				t := append(append([]mtRef(nil), s...), r)
				next = append(next, t)
			}
		}
		for _, s := range next {
			// a text without an escape reference is not the property's business
			for _, r := range s {
				if r.escape() {
					out = append(out, s)
					break
				}
			}
		}
		level = next
	}
	return out
}

func mtMacro(text string) *twig.MacroNode {
	return twig.NewMacroNode("m", []string{"p", "q"}, nil, []twig.Node{twig.NewTextNode(text, 1)}, 1)
}

func mtBuild(alpha []mtRef, maxLen int) []mtText {
	var ts []mtText
	for _, s := range mtSeqs(alpha, maxLen) {
		for si, st := range mtStyles {
			var b strings.Builder
			b.WriteString(st.pre)
			for i, r := range s {
				if i > 0 {
					b.WriteString(st.sep)
				}
				b.WriteString(r.src(st.tight))
			}
			b.WriteString(st.end)
			ts = append(ts, mtText{style: si, refs: s, src: b.String(), node: mtMacro(b.String())})
		}
	}
	return ts
}

type mtSet struct {
	env   bool
	name  string
	alpha []mtRef
	alone []*twig.MacroNode // one text node per reference of the alphabet, holding only it
	texts []mtText
}

func mtSets(maxLen int) []*mtSet {
	var sets []*mtSet
	for _, env := range []bool{true, false} {
		s := &mtSet{env: env, name: "macro-text-multi", alpha: mtRefsEnv}
		if !env {
			s.name, s.alpha = "macro-text-multi-noenv", mtRefsNoEnv
		}
		for _, r := range s.alpha {
			s.alone = append(s.alone, mtMacro(r.src(false)))
		}
		s.texts = mtBuild(s.alpha, maxLen)
		sets = append(sets, s)
	}
	return sets
}

func (s *mtSet) call(en *env, m *twig.MacroNode, v interface{}) (string, error) {
	var ctx *twig.RenderContext
	if s.env {
		ctx = twig.NewRenderContext(en.e().GetEnvironment(), nil, en.e())
	} else {
		ctx = twig.NewRenderContext(nil, nil, nil)
	}
	defer ctx.Release()
	var buf bytes.Buffer
	err := m.CallMacro(&buf, ctx, v, mtQ)
	return buf.String(), err
}

// run renders every text of the set with the value v whose text is text. It returns the first
// deviation; known is set when the only deviation seen is the quirk of the open finding KF-C07-1
// (without environment the filter is skipped: the escape references print the raw text).
func (s *mtSet) run(vt *vlib.T, en *env, v interface{}, text, what string, renders *int64) (first, known *finding) {
	// what every reference renders alone
	alone := make(map[mtRef]string, len(s.alpha))
	raw := map[string]string{"p": text, "q": mtQ}
	var unusable map[mtRef]bool
	for i, r := range s.alpha {
		out, err := s.call(en, s.alone[i], v)
		*renders++
		if err != nil && !r.escape() {
			// what another filter does with this value is not the property's business: where the
			// reference alone is an error (length of a number) the texts that contain it are left out
			if unusable == nil {
				unusable = map[mtRef]bool{}
			}
			unusable[r] = true
			continue
		}
		if err != nil {
			return &finding{s.name, r.filter, what, "", fmt.Sprintf("macro text %s: error: %v", r.src(false), err)}, nil
		}
		if r.escape() {
			if why := verify(raw[r.v], out); why != "" {
				if !s.env && out == raw[r.v] {
					known = &finding{s.name, r.filter, what, strconv.QuoteToASCII(clip(out, 200)), fmt.Sprintf("macro text %s: %s", r.src(false), why)}
				} else {
					return &finding{s.name, r.filter, what, strconv.QuoteToASCII(clip(out, 200)), fmt.Sprintf("macro text %s: %s", r.src(false), why)}, nil
				}
			}
		}
		alone[r] = out
	}
texts:
	for ti, t := range s.texts {
		if ti%64 == 0 {
			vt.Progress() // long inputs: ~1000 texts of up to three copies each
		}
		for _, r := range t.refs {
			if unusable[r] {
				continue texts
			}
		}
		out, err := s.call(en, t.node, v)
		*renders++
		if err != nil {
			return &finding{s.name, "-", what, "", fmt.Sprintf("macro text %s (q = %q): error: %v", t.src, mtQ, err)}, known
		}
		st := mtStyles[t.style]
		j := 0
		why := ""
		lit := func(l string) bool {
			if !strings.HasPrefix(out[j:], l) {
				why = fmt.Sprintf("the literal text %q of the text node is missing at output offset %d (output continues with %s)", l, j, strconv.QuoteToASCII(clip(out[j:], 24)))
				return false
			}
			j += len(l)
			return true
		}
		ok := lit(st.pre)
		for i := 0; ok && i < len(t.refs); i++ {
			r := t.refs[i]
			if i > 0 && !lit(st.sep) {
				break
			}
			if r.escape() {
				n, w := walk(raw[r.v], out[j:])
				if w != "" {
					why = fmt.Sprintf("reference %d (%s) is not the escaped form of the text of %s: %s", i+1, r.src(st.tight), r.v, w)
					break
				}
				j += n
			} else {
				a := alone[r]
				if !strings.HasPrefix(out[j:], a) {
					why = fmt.Sprintf("reference %d (%s) renders %s alone but here the output continues with %s", i+1, r.src(st.tight), strconv.QuoteToASCII(clip(a, 60)), strconv.QuoteToASCII(clip(out[j:], 60)))
					break
				}
				j += len(a)
			}
		}
		if why == "" && lit(st.end) && j != len(out) {
			why = fmt.Sprintf("output has %d extra bytes %s", len(out)-j, strconv.QuoteToASCII(clip(out[j:], 24)))
		}
		if why == "" {
			continue
		}
		f := &finding{s.name, "-", what, strconv.QuoteToASCII(clip(out, 300)), fmt.Sprintf("macro text %s (q = %q): %s", t.src, mtQ, why)}
		if !s.env {
			// quirk prediction of KF-C07-1: every escape reference prints the raw text
			var b strings.Builder
			b.WriteString(st.pre)
			for i, r := range t.refs {
				if i > 0 {
					b.WriteString(st.sep)
				}
				if r.escape() {
					b.WriteString(raw[r.v])
				} else {
					b.WriteString(alone[r])
				}
			}
			b.WriteString(st.end)
			if out == b.String() {
				if known == nil {
					known = f
				}
				continue
			}
		}
		return f, known
	}
	return nil, known
}

func mtOutcome(o *vlib.Outcome, first, known *finding) *vlib.Outcome {
	if first != nil {
		o.Class = "violation:" + first.Route
		o.Violation = fmt.Sprintf("route %s, input %s: %s; output %s", first.Route, first.Input, first.Why, first.Output)
		o.Detail = first
	} else if known != nil {
		o.Class = "known:KF-C07-1"
		o.Known = "KF-C07-1"
		o.Violation = fmt.Sprintf("route %s, input %s: %s; output %s", known.Route, known.Input, known.Why, known.Output)
		o.Detail = known
	}
	return o
}

func runMacroTextBlock(t *vlib.T, b block, set *mtSet) *vlib.Outcome {
	en := newEnv()
	feat := map[string]bool{}
	var first, known *finding
	var renders, inputs int64
	b.gen(func(in string) {
		if first != nil {
			return
		}
		inputs++
		features(in, feat)
		var k *finding
		first, k = set.run(t, en, in, in, strconv.QuoteToASCII(clip(in, 200)), &renders)
		if known == nil {
			known = k
		}
		t.Progress()
	})
	o := abOutcome("macrotext-"+b.family, feat, nil)
	o.Nontrivial = true // q and the markup style carry significant characters whatever the input is
	o.Counters["renders"] = renders
	o.Counters["macrotext_renders"] = renders
	o.Counters["macrotext_inputs"] = inputs
	o.Counters["macrotext_texts"] = int64(len(set.texts))
	return mtOutcome(o, first, known)
}

func runMacroTextNonStrings(t *vlib.T, set *mtSet) *vlib.Outcome {
	en := newEnv()
	var first, known *finding
	var renders, inputs int64
	for _, nv := range nonStrings() {
		want := nv.want
		if nv.twin {
			w, err := en.e().Render("plain", map[string]interface{}{"v": nv.v()})
			if err != nil {
				o := &vlib.Outcome{Nontrivial: true}
				o.Violation = fmt.Sprintf("value %s: unfiltered print failed: %v", nv.name, err)
				return o
			}
			want = w
		}
		inputs++
		var k *finding
		first, k = set.run(t, en, nv.v(), want, "value "+nv.name+" (text "+strconv.QuoteToASCII(clip(want, 100))+")", &renders)
		if known == nil {
			known = k
		}
		if first != nil {
			break
		}
		t.Progress()
	}
	o := abOutcome("macrotext-nonstring", map[string]bool{"values": true}, nil)
	o.Nontrivial = true
	o.Counters["renders"] = renders
	o.Counters["macrotext_renders"] = renders
	o.Counters["macrotext_inputs"] = inputs
	o.Counters["macrotext_texts"] = int64(len(set.texts))
	return mtOutcome(o, first, known)
}

// macroTextBlocks: quick — specials, single bytes, the 23 already-escaped forms, alphabet strings of
// length <= 2, boundary lengths up to 257 repeats, code points below U+0100 inside a?&; thorough — pairs
// and triples of already-escaped forms, alphabet length <= 4, all boundary lengths, code points below
// U+3000. Sequences of up to 3 references in both tiers.
func macroTextBlocks(thorough bool) []block {
	never := func(int) bool { return false }
	if thorough {
		return buildBlocks(blockCfg{L: 4, bytesLen: 1, refsLen: 3, maxRep: 1 << 20, long: false, cpEnd: 0x3000, cpAlone: never, cpCore: never})
	}
	return buildBlocks(blockCfg{L: 2, bytesLen: 1, refsLen: 1, maxRep: 257, long: false, cpEnd: 0x100, cpAlone: never, cpCore: never})
}
