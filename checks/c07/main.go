// C07 — the escape filter neutralises every HTML-significant character.
//
// Results are also looked at AFTER further escapes have run (a caller may keep a result): every
// verified result is verified again after the next two inputs, and multi-value routes hold two or
// three escaped values in variables / operands / a slice before any of them is checked.
//
// The escaped expression is not only a variable: shapes.go adds compound operands whose parts carry
// filters of their own (filter evaluation is re-entrant), in every position.
//
// An apply block escapes everything its body produces: bodies.go puts the block around every kind of
// direct child (text, print of a variable, of a macro call, of a function call, if / for / set /
// include / nested apply / block), alone and in every mixture of two and three. Macro text is resolved
// reference after reference: mtext.go renders text nodes that refer to the same variable several
// times with different filters.
//
// The property is about the escape filter of an engine, and a process may hold several: engines.go lets
// ANOTHER engine of the process register its own e / escape / raw / upper (every way of registering,
// every order of creation / registration / first use) and requires the untouched engine under test to
// keep satisfying the oracle on every route.
//
// The output of one application is an ordinary input of the next: repeat.go applies e / escape two, three
// and four times to the same value (adjacent in one chain, with other filters in between, split over set
// variables, apply blocks, macro parameters, includes, loops; parser, node trees and direct calls) and
// requires the output to decode back to the value in exactly as many steps. A value may be reached through
// a pointer and say something else the next time: mutable.go changes the text of *string, *bytes.Buffer,
// Stringer pointers, structs, lists, maps and a kept context map between applications (between renders of
// the same and of other templates and engines, and inside one render) and requires every application to
// escape the current text.
//
// Bounded-exhaustive enumeration of input strings (every code point, every byte string of length
// <= 2, every string of length <= 5/6 over a 10-symbol alphabet of significant / multi-byte /
// invalid bytes, every pair and triple of already-escaped forms, long strings, non-string values)
// crossed with every route on which the filter can be applied and both filter names. The oracle is
// a lock-step walk of input and output transcribed from the property statement: a significant byte
// must appear as one character reference that decodes to it, every other byte must appear as
// itself, nothing else may appear.
package main

import (
	"bytes"
	"errors"
	"fmt"
	"sort"
	"strconv"
	"strings"
	"unicode/utf8"

	"github.com/semihalev/twig"

	"verif/lib/vlib"
)

// ---------------------------------------------------------------------------------------------
// oracle (from the statement; never from twig's code)

// references accepted for each significant character: any character reference that an HTML parser
// decodes to exactly that character
var refs = map[byte][]string{
	'&':  {"&amp;", "&#38;", "&#x26;"},
	'<':  {"&lt;", "&#60;", "&#x3c;", "&#x3C;"},
	'>':  {"&gt;", "&#62;", "&#x3e;", "&#x3E;"},
	'"':  {"&quot;", "&#34;", "&#x22;"},
	'\'': {"&#39;", "&#x27;", "&apos;"},
}

func significant(c byte) bool { return c == '&' || c == '<' || c == '>' || c == '"' || c == '\'' }

// walk consumes from the front of out the escaped form of in, in lock step. It returns the number of
// bytes of out consumed and "" when every byte of in was matched.
func walk(in, out string) (int, string) {
	j := 0
	for i := 0; i < len(in); i++ {
		c := in[i]
		if significant(c) {
			ok := false
			for _, r := range refs[c] {
				if strings.HasPrefix(out[j:], r) {
					j += len(r)
					ok = true
					break
				}
			}
			if !ok {
				return j, fmt.Sprintf("input byte %d (%q) is not replaced by a character reference for it (output continues with %q)", i, string(c), clip(out[j:], 12))
			}
			continue
		}
		if j >= len(out) {
			return j, fmt.Sprintf("output ends before input byte %d (0x%02x)", i, c)
		}
		if out[j] != c {
			return j, fmt.Sprintf("input byte %d (0x%02x) does not pass through unchanged (output has %q)", i, c, clip(out[j:], 12))
		}
		j++
	}
	return j, ""
}

// verify walks input and output in lock step. It returns "" when out is in escaped form of in.
func verify(in, out string) string {
	j, why := walk(in, out)
	if why != "" {
		return why
	}
	if j != len(out) {
		return fmt.Sprintf("output has %d extra bytes %q", len(out)-j, clip(out[j:], 12))
	}
	// redundant second opinion, independent of the walk: no raw significant character at all, every
	// '&' opens an accepted reference, and decoding gives back the input
	if strings.ContainsAny(out, "<>\"'") {
		return "raw significant character in output"
	}
	if decode(out) != in {
		return "decoding the references does not give back the input"
	}
	return ""
}

// decode is the 10-line reference decoder: the accepted references, longest match not needed
// because no accepted reference is a prefix of another.
func decode(s string) string {
	var b strings.Builder
	for i := 0; i < len(s); {
		if s[i] == '&' {
			hit := false
			for c, rs := range refs {
				for _, r := range rs {
					if strings.HasPrefix(s[i:], r) {
						b.WriteByte(c)
						i += len(r)
						hit = true
						break
					}
				}
				if hit {
					break
				}
			}
			if hit {
				continue
			}
		}
		b.WriteByte(s[i])
		i++
	}
	return b.String()
}

func clip(s string, n int) string {
	if len(s) > n {
		return s[:n] + "…"
	}
	return s
}

// ---------------------------------------------------------------------------------------------
// routes

// env is the engine of one case, built on first use (the routes without environment never need it)
type env struct {
	eng *twig.Engine
}

func (en *env) e() *twig.Engine {
	if en.eng == nil {
		en.eng = newEngine()
	}
	return en.eng
}

var filterNames = []string{"escape", "e"}

// template routes: %s is the filter name
var tplRoutes = []struct{ name, src string }{
	{"print", "{{ v|%s }}"},
	{"chain-after", "{{ v|raw|%s }}"},
	{"chain-before", "{{ v|%s|raw }}"},
	{"chain-default", "{{ v|default(v)|%s }}"},
	{"apply", "{%% apply %s %%}{{ v }}{%% endapply %%}"},
	{"macro", "{%% macro m(p) %%}{{ p|%s }}{%% endmacro %%}{{ m(v) }}"},
	{"macro-self", "{%% macro m(p) %%}{{ p|%s }}{%% endmacro %%}{{ _self.m(v) }}"},
	{"macro-import", "{%% import 'lib-%s' as l %%}{{ l.m(v) }}"},
	{"macro-from", "{%% from 'lib-%s' import m %%}{{ m(v) }}"},
	{"include", "{%% include 'print-%s' %%}"},
	{"include-with-only", "{%% include 'print-%s' with {'v': v} only %%}"},
	{"include-sandboxed", "{%% include 'print-%s' sandboxed %%}"},
	{"extends-block", "{%% extends 'base' %%}{%% block b %%}{{ v|%s }}{%% endblock %%}"},
	{"set", "{%% set x = v|%s %%}{{ x }}"},
	{"for", "{%% for x in [v] %%}{{ x|%s }}{%% endfor %%}"},
	{"if", "{%% if true %%}{{ v|%s }}{%% endif %%}"},
}

// core routes = one per independent escaping mechanism (registered filter: print; built-in fallback:
// fallback-noenv; macro text: macro-text, macro-text-noenv); the quick tier sweeps the code points
// above U+3000 on these only
var coreRoutes = map[string]bool{"print": true}

func newEnv() *env { return &env{} }

func newEngine() *twig.Engine {
	e := twig.New()
	e.EnableSandbox(twig.NewDefaultSecurityPolicy())
	must(e.RegisterString("plain", "{{ v }}"))
	must(e.RegisterString("base", "{% block b %}{% endblock %}"))
	for _, f := range filterNames {
		must(e.RegisterString("lib-"+f, fmt.Sprintf("{%% macro m(p) %%}{{ p|%s }}{%% endmacro %%}", f)))
	}
	for _, r := range tplRoutes {
		for _, f := range filterNames {
			must(e.RegisterString(r.name+"-"+f, fmt.Sprintf(r.src, f)))
		}
	}
	for _, m := range multiTpl {
		for rot := 0; rot < 2; rot++ {
			n := multiNames(rot)
			src := strings.NewReplacer("F1", n[0], "F2", n[1], "F3", n[2]).Replace(m.src)
			must(e.RegisterString(fmt.Sprintf("multi-%s-%d", m.name, rot), src))
		}
	}
	return e
}

func must(err error) {
	if err != nil {
		panic(err)
	}
}

type route struct {
	name string // without the filter name
	core bool
	// known: id of the open finding whose predicate is "this route" (see known_findings.json)
	known string
	// direct: the result does not pass through a rendered template's output buffer (ApplyFilter, macro
	// text); results of any length are kept for the deferred re-verification on these routes
	direct bool
	run    func(en *env, filter string, v interface{}) (string, error)
}

func allRoutes() []route {
	var rs []route
	for _, r := range tplRoutes {
		r := r
		rs = append(rs, route{name: r.name, core: coreRoutes[r.name], run: func(en *env, f string, v interface{}) (string, error) {
			return en.e().Render(r.name+"-"+f, map[string]interface{}{"v": v})
		}})
	}
	// the built-in fallback: a render context that has no environment at all / an empty environment
	rs = append(rs, route{name: "fallback-noenv", core: true, direct: true, run: func(en *env, f string, v interface{}) (string, error) {
		ctx := twig.NewRenderContext(nil, nil, nil)
		defer ctx.Release()
		r, err := ctx.ApplyFilter(f, v)
		if err != nil {
			return "", err
		}
		s, ok := r.(string)
		if !ok {
			return "", fmt.Errorf("filter result is %T, not a string", r)
		}
		return s, nil
	}})
	rs = append(rs, route{name: "fallback-emptyenv", direct: true, run: func(en *env, f string, v interface{}) (string, error) {
		ctx := twig.NewRenderContext(new(twig.Environment), nil, nil)
		defer ctx.Release()
		r, err := ctx.ApplyFilter(f, v)
		if err != nil {
			return "", err
		}
		s, ok := r.(string)
		if !ok {
			return "", fmt.Errorf("filter result is %T, not a string", r)
		}
		return s, nil
	}})
	// direct application of the registered filter through a context with the engine's environment
	rs = append(rs, route{name: "applyfilter-env", direct: true, run: func(en *env, f string, v interface{}) (string, error) {
		ctx := twig.NewRenderContext(en.e().GetEnvironment(), nil, en.e())
		defer ctx.Release()
		r, err := ctx.ApplyFilter(f, v)
		if err != nil {
			return "", err
		}
		s, ok := r.(string)
		if !ok {
			return "", fmt.Errorf("filter result is %T, not a string", r)
		}
		return s, nil
	}})
	// text inside a macro body that still contains a print tag (renderVariableString): a macro whose
	// body is a TextNode, built with the exported constructors
	macroText := func(withEnv bool, pad string) func(en *env, f string, v interface{}) (string, error) {
		return func(en *env, f string, v interface{}) (string, error) {
			m := twig.NewMacroNode("m", []string{"p"}, nil, []twig.Node{twig.NewTextNode("{{"+pad+"p"+pad+"|"+pad+f+pad+"}}", 1)}, 1)
			var ctx *twig.RenderContext
			if withEnv {
				ctx = twig.NewRenderContext(en.e().GetEnvironment(), nil, en.e())
			} else {
				ctx = twig.NewRenderContext(nil, nil, nil)
			}
			defer ctx.Release()
			var buf bytes.Buffer
			err := m.CallMacro(&buf, ctx, v)
			return buf.String(), err
		}
	}
	rs = append(rs, route{name: "macro-text", core: true, direct: true, run: macroText(true, " ")})
	rs = append(rs, route{name: "macro-text-tight", direct: true, run: macroText(true, "")})
	rs = append(rs, route{name: "macro-text-noenv", core: true, direct: true, known: "KF-C07-1", run: macroText(false, " ")})
	return rs
}

// ---------------------------------------------------------------------------------------------
// multi-value routes: two or three values are escaped and every result is HELD (in a variable, as an
// operand of a concatenation, in a slice of ApplyFilter results) while the following escapes run; the
// results are looked at only afterwards. The template forms separate the values with a raw '<' of
// their own, which cannot occur inside a correctly escaped value.

// multiNames gives the filter names of the three positions for rotation rot (0, 1): both names occur
// in every form, and every position sees both names
func multiNames(rot int) [3]string {
	return [3]string{filterNames[rot], filterNames[1-rot], filterNames[rot]}
}

var multiTpl = []struct {
	name string
	n    int
	src  string // F1 F2 F3 = filter names of the positions
}{
	{"set2", 2, "{% set x = a|F1 %}{% set y = b|F2 %}{{ x }}<{{ y }}"},
	{"set3", 3, "{% set x = a|F1 %}{% set y = b|F2 %}{% set z = c|F3 %}{{ x }}<{{ y }}<{{ z }}"},
	{"concat3", 3, "{{ (a|F1) ~ '<' ~ (b|F2) ~ '<' ~ (c|F3) }}"},
	{"macro-set2", 2, "{% macro m(p, q) %}{% set x = p|F1 %}{% set y = q|F2 %}{{ x }}<{{ y }}{% endmacro %}{{ m(a, b) }}"},
}

type multi struct {
	name string
	n    int // number of values used (2 or 3)
	core bool
	// both: both name rotations are run for every window also in the quick tier (the routes on which
	// a result does not pass through a template engine's own output handling of the registered filter);
	// the others alternate the rotation from one input to the next there
	both bool
	run  func(en *env, rot int, v [3]interface{}) ([]string, error)
}

func splitParts(out string, n int) ([]string, error) {
	parts := strings.Split(out, "<")
	if len(parts) != n {
		return nil, fmt.Errorf("output %s does not consist of %d escaped values separated by the template's own '<' (a raw '<' inside a value, or a value missing)", strconv.QuoteToASCII(clip(out, 200)), n)
	}
	return parts, nil
}

// nodeTree builds, with the exported constructors, the trees of
//
//	set3:    {% set x = a|F1 %}{% set y = b|F2 %}{% set z = c|F3 %}{{ x }}<{{ y }}<{{ z }}
//	concat3: {{ (a|F1) ~ '<' ~ (b|F2) ~ '<' ~ (c|F3) }}
//
// so that they can be rendered with a context that has no (or an empty) environment: there the
// built-in fallback does the escaping.
func nodeTree(form string, names [3]string) twig.Node {
	fl := func(v, f string) twig.Node { return twig.NewFilterNode(twig.NewVariableNode(v, 1), f, nil, 1) }
	if form == "concat3" {
		cat := func(l, r twig.Node) twig.Node { return twig.NewBinaryNode("~", l, r, 1) }
		lt := func() twig.Node { return twig.NewLiteralNode("<", 1) }
		return twig.NewRootNode([]twig.Node{
			twig.NewPrintNode(cat(cat(cat(cat(fl("a", names[0]), lt()), fl("b", names[1])), lt()), fl("c", names[2])), 1),
		}, 1)
	}
	return twig.NewRootNode([]twig.Node{
		twig.NewSetNode("x", fl("a", names[0]), 1),
		twig.NewSetNode("y", fl("b", names[1]), 1),
		twig.NewSetNode("z", fl("c", names[2]), 1),
		twig.NewPrintNode(twig.NewVariableNode("x", 1), 1),
		twig.NewTextNode("<", 1),
		twig.NewPrintNode(twig.NewVariableNode("y", 1), 1),
		twig.NewTextNode("<", 1),
		twig.NewPrintNode(twig.NewVariableNode("z", 1), 1),
	}, 1)
}

func allMultis() []multi {
	var ms []multi
	for _, m := range multiTpl {
		m := m
		ms = append(ms, multi{name: m.name, n: m.n, run: func(en *env, rot int, v [3]interface{}) ([]string, error) {
			out, err := en.e().Render(fmt.Sprintf("multi-%s-%d", m.name, rot), map[string]interface{}{"a": v[0], "b": v[1], "c": v[2]})
			if err != nil {
				return nil, err
			}
			return splitParts(out, m.n)
		}})
	}
	// the same through the built-in fallback: node trees rendered with an environment-less context
	for _, form := range []string{"set3", "concat3"} {
		for _, ev := range []string{"noenv", "emptyenv"} {
			form, ev := form, ev
			ms = append(ms, multi{name: "fallback-" + ev + "-" + form, n: 3, core: form == "set3" && ev == "noenv", both: true, run: func(en *env, rot int, v [3]interface{}) ([]string, error) {
				var e *twig.Environment
				if ev == "emptyenv" {
					e = new(twig.Environment)
				}
				ctx := twig.NewRenderContext(e, map[string]interface{}{"a": v[0], "b": v[1], "c": v[2]}, nil)
				defer ctx.Release()
				var buf bytes.Buffer
				if err := nodeTree(form, multiNames(rot)).Render(&buf, ctx); err != nil {
					return nil, err
				}
				return splitParts(buf.String(), 3)
			}})
		}
	}
	// direct ApplyFilter: three results collected on one context before any of them is looked at
	for _, ev := range []string{"noenv", "emptyenv", "env"} {
		ev := ev
		name := "fallback-" + ev + "-hold3"
		if ev == "env" {
			name = "applyfilter-env-hold3"
		}
		ms = append(ms, multi{name: name, n: 3, core: ev == "noenv", both: true, run: func(en *env, rot int, v [3]interface{}) ([]string, error) {
			var ctx *twig.RenderContext
			switch ev {
			case "noenv":
				ctx = twig.NewRenderContext(nil, nil, nil)
			case "emptyenv":
				ctx = twig.NewRenderContext(new(twig.Environment), nil, nil)
			default:
				ctx = twig.NewRenderContext(en.e().GetEnvironment(), nil, en.e())
			}
			defer ctx.Release()
			names := multiNames(rot)
			var held [3]interface{}
			for i := 0; i < 3; i++ {
				r, err := ctx.ApplyFilter(names[i], v[i])
				if err != nil {
					return nil, err
				}
				held[i] = r
			}
			parts := make([]string, 3)
			for i, r := range held {
				s, ok := r.(string)
				if !ok {
					return nil, fmt.Errorf("filter result %d is %T, not a string", i, r)
				}
				parts[i] = s
			}
			return parts, nil
		}})
	}
	return ms
}

// allRotations: thorough tier — every multi-value route runs both name rotations on every window
var allRotations bool

// runMulti applies the multi-value routes to the values v whose texts are want and returns the first
// deviation. seq is the number of the window in its block: where only one name rotation is run
// (quick tier: the template forms of the registered filter, and everything in the core-only code
// point blocks) it is rotation seq%2, so that consecutive windows alternate.
func runMulti(en *env, ms []multi, onlyCore bool, seq int64, v [3]interface{}, want [3]string, renders *int64) *finding {
	for _, m := range ms {
		if onlyCore && !m.core {
			continue
		}
		for rot := 0; rot < 2; rot++ {
			if !allRotations && (onlyCore || !m.both) && int64(rot) != seq%2 {
				continue
			}
			if len(want[2]) > 4096 {
				tick()
			}
			parts, err := m.run(en, rot, v)
			*renders++
			names := multiNames(rot)
			in := strconv.QuoteToASCII(clip(want[0], 100)) + ", " + strconv.QuoteToASCII(clip(want[1], 100))
			if m.n == 3 {
				in += ", " + strconv.QuoteToASCII(clip(want[2], 100))
			}
			if err != nil {
				return &finding{m.name, strings.Join(names[:m.n], ","), in, "", "error: " + err.Error()}
			}
			for i := 0; i < m.n; i++ {
				if why := verify(want[i], parts[i]); why != "" {
					return &finding{m.name, strings.Join(names[:m.n], ","), in, strconv.QuoteToASCII(clip(parts[i], 200)),
						fmt.Sprintf("value %d of %d (filter %s, all results looked at after the last escape): %s", i+1, m.n, names[i], why)}
				}
			}
		}
	}
	return nil
}

// padding values for the first inputs of a block (a window of three consecutive inputs is not full yet)
const pad1, pad2 = "<a&", "\"'>"

// held is a result that was verified when it was returned and is verified again after the escapes of
// the following inputs have run (an escape result must stay what it was: a caller may keep it)
type held struct{ route, filter, in, out string }

// holdLimit: longer results are kept for re-verification on the direct routes only (memory)
const holdLimit = 16 << 10

func recheck(hs []held, later int) *finding {
	for _, h := range hs {
		if why := verify(h.in, h.out); why != "" {
			return &finding{h.route, h.filter, strconv.QuoteToASCII(clip(h.in, 200)), strconv.QuoteToASCII(clip(h.out, 200)),
				fmt.Sprintf("the result was correct when it was returned but is not any more after the escapes that followed it (those of %d further input(s) included) ran: %s", later, why)}
		}
	}
	return nil
}

// ---------------------------------------------------------------------------------------------
// cases

type finding struct {
	Route, Filter, Input, Output, Why string
}

type block struct {
	family string
	key    string
	// gen calls f for every input of the block, simplest first
	gen func(f func(s string))
	// onlyCore: run only the core routes (quick-tier code point sweep above the BMP prefix)
	onlyCore bool
}

func features(s string, set map[string]bool) {
	for i := 0; i < len(s); i++ {
		switch c := s[i]; {
		case c == '&':
			set["amp"] = true
		case c == '<':
			set["lt"] = true
		case c == '>':
			set["gt"] = true
		case c == '"':
			set["quot"] = true
		case c == '\'':
			set["apos"] = true
		case c == 0:
			set["nul"] = true
		case c >= 0x80:
			set["hi"] = true
		}
	}
	if !utf8.ValidString(s) {
		set["inv"] = true
	}
}

// tick tells the framework that the worker is alive (set to t.Progress in Run): long inputs (1 MiB
// strings through every route) take long enough on an overloaded machine to trip the hang guard
var tick = func() {}

func runBlock(b block, routes []route, multis []multi) *vlib.Outcome {
	en := newEnv()
	o := &vlib.Outcome{Counters: map[string]int64{}}
	feat := map[string]bool{}
	forms := map[string]bool{}
	var first, known *finding
	knownID := ""
	var renders, inputs, rechecks int64
	var prev1, prev2 []held // verified results of the previous input and of the one before it
	last1, last2 := pad1, pad2
	b.gen(func(in string) {
		if first != nil {
			return
		}
		inputs++
		features(in, feat)
		var cur []held
		for _, r := range routes {
			if b.onlyCore && !r.core {
				continue
			}
			var outs [2]string
			if len(in) > 4096 {
				tick()
			}
			for k, f := range filterNames {
				out, err := r.run(en, f, in)
				renders++
				why := ""
				if err != nil {
					why = "error: " + err.Error()
				} else {
					why = verify(in, out)
				}
				correct := why == ""
				if why != "" && err == nil && r.known != "" && out == in {
					// predicate of the open finding (this route) holds and the observation is exactly its
					// quirk (the text comes out as it went in: the filter was skipped)
					if known == nil {
						known = &finding{r.name, f, strconv.QuoteToASCII(in), strconv.QuoteToASCII(clip(out, 200)), why}
						knownID = r.known
					}
					why = ""
				}
				if why != "" {
					first = &finding{r.name, f, strconv.QuoteToASCII(in), strconv.QuoteToASCII(clip(out, 200)), why}
					return
				}
				outs[k] = out
				if correct && (r.direct || len(out) <= holdLimit) {
					cur = append(cur, held{r.name, f, in, out})
				}
			}
			if outs[0] != outs[1] {
				first = &finding{r.name, "escape vs e", strconv.QuoteToASCII(in), strconv.QuoteToASCII(clip(outs[0], 100) + " vs " + clip(outs[1], 100)), "the two names give different output"}
				return
			}
			if len(in) < 64 {
				if strings.Contains(outs[0], "&quot;") {
					forms["quot"] = true
				}
				if strings.Contains(outs[0], "&#34;") {
					forms["#34"] = true
				}
			}
		}
		// two or three escaped values held at the same time: the window of consecutive inputs
		if len(multis) > 0 {
			if first = runMulti(en, multis, b.onlyCore, inputs, [3]interface{}{last2, last1, in}, [3]string{last2, last1, in}, &renders); first != nil {
				return
			}
			last2, last1 = last1, in
		}
		// results of the two previous inputs, verified once more now that further escapes have run
		if first = recheck(prev1, 1); first != nil {
			return
		}
		if first = recheck(prev2, 2); first != nil {
			return
		}
		rechecks += int64(len(prev1) + len(prev2))
		prev2, prev1 = prev1, cur
	})
	o.Counters["renders"] = renders
	o.Counters["inputs"] = inputs
	o.Counters["reverified_later"] = rechecks
	var fs []string
	for k := range feat {
		fs = append(fs, k)
	}
	sort.Strings(fs)
	var qs []string
	for k := range forms {
		qs = append(qs, k)
	}
	sort.Strings(qs)
	o.Nontrivial = len(fs) > 0
	o.Class = b.family + ":" + strings.Join(fs, "+") + "/" + strings.Join(qs, ",")
	if first != nil {
		o.Class = "violation:" + first.Route
		o.Violation = fmt.Sprintf("route %s, filter %s, input %s: %s; output %s", first.Route, first.Filter, first.Input, first.Why, first.Output)
		o.Detail = first
	} else if known != nil {
		o.Class = "known:" + knownID
		o.Known = knownID
		o.Violation = fmt.Sprintf("route %s, filter %s, input %s: %s; output %s", known.Route, known.Filter, known.Input, known.Why, known.Output)
		o.Detail = known
	}
	return o
}

var alphabet = []string{"<", ">", "&", "\"", "'", "a", "é", "\xff", ";", "#"}

// already-escaped forms and fragments of them
var refAlphabet = []string{"&amp;", "&lt;", "&gt;", "&quot;", "&#34;", "&#39;", "&#x27;", "&apos;", "&amp;amp;", "&amp;lt;", "&nbsp;",
	"&", "<", ">", "\"", "'", "&#", "&;", "amp;", "a", "é", "\xc3", "\x00"}

func encodeCP(cp int) string {
	if cp >= 0xD800 && cp <= 0xDFFF {
		// a surrogate has no UTF-8 form; use the generalized 3-byte encoding (invalid UTF-8 that must
		// pass through unchanged like every other byte string)
		return string([]byte{0xE0 | byte(cp>>12), 0x80 | byte(cp>>6)&0x3F, 0x80 | byte(cp)&0x3F})
	}
	return string(rune(cp))
}

// blockCfg selects the bounds of the input families
type blockCfg struct {
	L        int  // alphabet strings up to this many symbols
	bytesLen int  // 2: every byte string of length <= 2 (256 blocks); 1: the 256 single bytes only (4 blocks)
	maxRep   int  // boundary lengths up to this repeat count
	long     bool // the 1 MiB strings
	refsLen  int  // already-escaped forms: 1 = singles only; 2 = singles and pairs; 0 / 3 = singles, pairs and triples
	cpEnd    int  // code points below this bound
	// cpAlone: the code point also alone (otherwise inside a?& only); cpCore: on the core routes only
	cpAlone, cpCore func(base int) bool
}

func blocks(thorough bool) []block {
	L := 5
	if thorough {
		L = 6
	}
	// boundary lengths: the three around 64 KiB are run in the thorough tier only (the quick tier has the
	// growth boundaries up to 4097 and the 1 MiB strings)
	maxRep := 4097
	if thorough {
		maxRep = 1 << 20
	}
	return buildBlocks(blockCfg{L: L, bytesLen: 2, maxRep: maxRep, long: true, cpEnd: 0x110000,
		cpAlone: func(base int) bool { return thorough || base < 0x3000 },
		cpCore:  func(base int) bool { return !thorough && base >= 0x3000 }})
}

func buildBlocks(cfg blockCfg) []block {
	var bs []block
	// 1. specials: empty, single significant characters, the five together
	bs = append(bs, block{family: "special", key: "0-special/basic", gen: func(f func(string)) {
		for _, s := range []string{"", "<", ">", "&", "\"", "'", "<>&\"'", "'\"&><", "a<b>c&d\"e'f", "&&", "<<", "''", "\"\"", ">>",
			"<script>alert('x' & \"y\")</script>", "&amp;", "&lt;script&gt;", "&#39;", "&#x27;", "&quot;"} {
			f(s)
		}
	}})
	// 2. every byte string of length <= 2, one block per first byte
	for a := 0; a < 256 && cfg.bytesLen == 1; a += 64 {
		a := a
		bs = append(bs, block{family: "bytes1", key: fmt.Sprintf("1-bytes1/%02x", a), gen: func(f func(string)) {
			for b := a; b < a+64; b++ {
				f(string([]byte{byte(b)}))
			}
		}})
	}
	for a := 0; a < 256 && cfg.bytesLen == 2; a++ {
		a := a
		bs = append(bs, block{family: "bytes2", key: fmt.Sprintf("1-bytes2/%02x", a), gen: func(f func(string)) {
			f(string([]byte{byte(a)}))
			for b := 0; b < 256; b++ {
				f(string([]byte{byte(a), byte(b)}))
			}
		}})
	}
	// 3. already-escaped forms: every pair and triple, one block per first element
	for i := range refAlphabet {
		i := i
		bs = append(bs, block{family: "refs", key: fmt.Sprintf("2-refs/%02d", i), gen: func(f func(string)) {
			f(refAlphabet[i])
			for _, y := range refAlphabet {
				if cfg.refsLen == 1 {
					break
				}
				f(refAlphabet[i] + y)
			}
			for _, y := range refAlphabet {
				if cfg.refsLen == 2 || cfg.refsLen == 1 {
					break
				}
				for _, z := range refAlphabet {
					f(refAlphabet[i] + y + z)
				}
			}
		}})
	}
	// 4. every string of length <= L over the alphabet, blocks of 111 strings
	L := cfg.L
	P := L - 2  // blocks are keyed by a prefix of P symbols and hold the 111 strings of length P..L with that prefix
	if P >= 2 { // the strings shorter than the block prefix (none when P < 2)
		bs = append(bs, block{family: "alpha", key: fmt.Sprintf("3-alpha/0-len<%d", P), gen: func(f func(string)) {
			level := []string{""}
			for n := 0; n < P; n++ {
				var next []string
				for _, s := range level {
					if n > 0 {
						f(s)
					}
					for _, a := range alphabet {
						next = append(next, s+a)
					}
				}
				level = next
			}
		}})
	}
	var prefixes func(p string, idx string, n int)
	prefixes = func(p string, idx string, n int) {
		if n == P {
			bs = append(bs, block{family: "alpha", key: fmt.Sprintf("3-alpha/L%d/%s", L, idx), gen: func(f func(string)) {
				// breadth first: shorter strings first
				level := []string{p}
				for n := P; n <= L; n++ {
					var next []string
					for _, s := range level {
						f(s)
						if n < L {
							for _, a := range alphabet {
								next = append(next, s+a)
							}
						}
					}
					level = next
				}
			}})
			return
		}
		for i, a := range alphabet {
			prefixes(p+a, idx+strconv.Itoa(i), n+1)
		}
	}
	prefixes("", "", 0)
	// 5. lengths around growth boundaries of the output buffer, and very long strings
	for _, unit := range []string{"&", "<", "\"", "'", "a&", "é<", "\xff>"} {
		unit := unit
		bs = append(bs, block{family: "length", key: fmt.Sprintf("4-length/%q", unit), gen: func(f func(string)) {
			for _, n := range []int{6, 7, 8, 9, 15, 16, 17, 31, 32, 33, 63, 64, 65, 127, 128, 129, 255, 256, 257, 1023, 1024, 1025, 4095, 4096, 4097, 65535, 65536, 65537} {
				if n > cfg.maxRep {
					break
				}
				f(strings.Repeat(unit, n))
				f(strings.Repeat("a", n) + unit)
			}
		}})
	}
	for i, unit := range []string{"a", "<>&\"'", "é\xff&", "&amp;"} {
		if !cfg.long {
			break
		}
		unit := unit
		bs = append(bs, block{family: "long", key: fmt.Sprintf("5-long/1MiB/%d", i), gen: func(f func(string)) {
			f(strings.Repeat(unit, (1<<20)/len(unit)+1))
		}})
	}
	// 6. every code point, alone and embedded in a?&, blocks of 32
	for base := 0; base < cfg.cpEnd; base += 32 {
		base := base
		bs = append(bs, block{family: "codepoint", key: fmt.Sprintf("6-cp/%06x", base), onlyCore: cfg.cpCore(base),
			gen: func(f func(string)) {
				for cp := base; cp < base+32; cp++ {
					s := encodeCP(cp)
					if cfg.cpAlone(base) {
						f(s)
					}
					f("a" + s + "&")
				}
			}})
	}
	return bs
}

// ---------------------------------------------------------------------------------------------
// non-string values

type strg struct{ s string }

func (s strg) String() string { return s.s }

type pstrg struct{ s string }

func (s *pstrg) String() string { return s.s }

type named string

type rec struct {
	A string
	B int
}

type nsValue struct {
	name string
	v    func() interface{}
	// want is the text the value is converted to, when the conversion is beyond doubt; "" + twin
	// means: compare with what the unfiltered print tag gives on the same engine
	want string
	twin bool
}

func nonStrings() []nsValue {
	ptr := "<p>&"
	return []nsValue{
		{name: "int", v: func() interface{} { return 42 }, want: "42"},
		{name: "negint64", v: func() interface{} { return int64(-7) }, want: "-7"},
		{name: "uint8", v: func() interface{} { return uint8(200) }, want: "200"},
		{name: "float", v: func() interface{} { return 1.5 }, want: "1.5"},
		{name: "float32", v: func() interface{} { return float32(2.25) }, want: "2.25"},
		{name: "true", v: func() interface{} { return true }, want: "true"},
		{name: "false", v: func() interface{} { return false }, want: "false"},
		{name: "nil", v: func() interface{} { return nil }, want: ""},
		{name: "stringer", v: func() interface{} { return strg{"<i>'x' & \"y\"</i>"} }, want: "<i>'x' & \"y\"</i>"},
		{name: "ptr-stringer", v: func() interface{} { return &pstrg{"<b>&amp;</b>"} }, want: "<b>&amp;</b>"},
		{name: "bytes", v: func() interface{} { return []byte("<b>\xff&") }, want: "<b>\xff&"},
		{name: "error", v: func() interface{} { return errors.New("e<r>&") }, twin: true},
		{name: "named-string", v: func() interface{} { return named("<&>\"'") }, want: "<&>\"'"},
		{name: "ptr-string", v: func() interface{} { return &ptr }, want: "<p>&"},
		{name: "list", v: func() interface{} { return []interface{}{"<a>", "b&c", 1, "'"} }, twin: true},
		{name: "strings", v: func() interface{} { return []string{"x\"y", "'", "<"} }, twin: true},
		{name: "array", v: func() interface{} { return [2]string{"<", "&"} }, twin: true},
		{name: "map", v: func() interface{} { return map[string]interface{}{"k<": "v>", "a&": "'"} }, twin: true},
		{name: "typed-map", v: func() interface{} { return map[string]string{"k<": "v>"} }, twin: true},
		{name: "struct", v: func() interface{} { return rec{"<s>&\"'", 3} }, twin: true},
		{name: "nested", v: func() interface{} { return []interface{}{[]interface{}{"<"}, map[string]interface{}{"&": "\""}} }, twin: true},
	}
}

func runNonString(nv nsValue, routes []route, multis []multi) *vlib.Outcome {
	en := newEnv()
	o := &vlib.Outcome{Nontrivial: true, Counters: map[string]int64{}}
	want := nv.want
	if nv.twin {
		w, err := en.e().Render("plain", map[string]interface{}{"v": nv.v()})
		if err != nil {
			o.Violation = fmt.Sprintf("value %s: unfiltered print failed: %v", nv.name, err)
			return o
		}
		want = w
	}
	var renders int64
	var kept []held
	knownWhy, knownID := "", ""
	for _, r := range routes {
		var outs [2]string
		for k, f := range filterNames {
			out, err := r.run(en, f, nv.v())
			renders++
			why := ""
			if err != nil {
				why = "error: " + err.Error()
			} else {
				why = verify(want, out)
			}
			correct := why == ""
			if why != "" && err == nil && r.known != "" && out == want {
				if knownWhy == "" {
					knownWhy = fmt.Sprintf("route %s, filter %s, value %s (text %s): %s; output %s", r.name, f, nv.name, strconv.QuoteToASCII(want), why, strconv.QuoteToASCII(out))
					knownID = r.known
				}
				why = ""
			}
			if why != "" {
				o.Violation = fmt.Sprintf("route %s, filter %s, value %s (text %s): %s; output %s", r.name, f, nv.name, strconv.QuoteToASCII(want), why, strconv.QuoteToASCII(out))
				o.Detail = finding{r.name, f, nv.name, out, why}
				o.Class = "violation:" + r.name
				return o
			}
			outs[k] = out
			if correct {
				kept = append(kept, held{r.name, f, want, out})
			}
		}
		if outs[0] != outs[1] {
			o.Violation = fmt.Sprintf("route %s, value %s: escape gives %q, e gives %q", r.name, nv.name, outs[0], outs[1])
			return o
		}
	}
	// the value held together with a string and with itself, and every earlier result once more
	const other = "<x>&"
	f := runMulti(en, multis, false, 0, [3]interface{}{nv.v(), other, nv.v()}, [3]string{want, other, want}, &renders)
	if f == nil {
		f = runMulti(en, multis, false, 1, [3]interface{}{other, nv.v(), other}, [3]string{other, want, other}, &renders)
	}
	if f == nil {
		f = recheck(kept, 0)
	}
	if f != nil {
		o.Violation = fmt.Sprintf("route %s, filter %s, value %s (texts %s): %s; output %s", f.Route, f.Filter, nv.name, f.Input, f.Why, f.Output)
		o.Detail = f
		o.Class = "violation:" + f.Route
		return o
	}
	o.Counters["renders"] = renders
	o.Counters["inputs"] = 1
	set := map[string]bool{}
	features(want, set)
	var fs []string
	for k := range set {
		fs = append(fs, k)
	}
	sort.Strings(fs)
	o.Class = "nonstring:" + strings.Join(fs, "+")
	if knownWhy != "" {
		o.Class = "known:" + knownID
		o.Known = knownID
		o.Violation = knownWhy
	}
	return o
}

func main() {
	vlib.Main(vlib.Spec{
		ID:    "C07",
		Level: "exploration",
		Rule: "every input of the bounded families (all code points alone and inside a?&, all byte strings of length <= 2, all strings of length <= 5 (thorough 6) over " +
			"{< > & \" ' a é 0xFF ; #}, all pairs and triples of 23 already-escaped forms and fragments, boundary lengths up to 4097 repeats (thorough 64 KiB), 1 MiB strings, 21 non-string values) " +
			"x every route (16 template positions, direct ApplyFilter with the engine's / an empty / no environment, macro text with and without environment) x both names; " +
			"every verified result is kept and verified again after the escapes of the next two inputs have run; every window of three consecutive inputs of a block also goes through 11 multi-value routes " +
			"that hold two or three escaped values (set variables, concatenation operands, a macro's set variables, collected ApplyFilter results; registered filter and built-in fallback) before any is looked at; " +
			"operand shapes (cases 7-shape/...): escape / e applied to 17 compound operands whose parts carry filters of their own (parenthesised concatenation, conditional, array / hash element, " +
			"after a filter whose argument is itself a filter chain, nested two deep) x 5 positions (print, set, apply block, print inside an apply block, macro body) x both names, for the specials, single bytes (thorough: all byte strings of length <= 2), " +
			"all pairs and triples of already-escaped forms, all alphabet strings of length <= 4 (thorough 5), boundary lengths, code points below U+0800 (thorough: all) inside a?&, and the non-string values (on the 7 shapes that select the value unchanged); " +
			"apply-block bodies (cases 8-applybody/...): {% apply escape %} / {% apply e %} around a body built from 16 kinds of direct child (text, print of a variable / a filtered variable, print of a macro call - local, _self, import, from -, " +
			"print of a function call, if, for, set, include, nested apply around a macro call, nested apply raw, block, spaceless) alone in 7 placements of the block (top level, block of an extending template incl. parent(), macro body, for, if, inside another apply, between text) plus 9 further single kinds, " +
			"every mixture of two children (256) and of three children (4096); the block's output must be the escaped form of what the same body renders without the block (twin template, same engine), both names identical; " +
			"macro text with several references (cases 9-macrotext/...): one text node of an API-built macro holding every sequence of 1..3 references over {p, p|e, p|escape, p|length, p|upper, q, q|e} (environment) / {p, p|e, p|escape, q, q|escape} (no environment) " +
			"that contains an escape, in 3 separator styles (blank, adjacent and without blanks, inside markup): every e / escape reference must be the escaped form of its variable's text and every other reference must render what it renders alone; " +
			"two engines in one process (cases 10-engines/...): ANOTHER engine of the process registers filters of its own - a no-op, a filter that wraps the text in markup, a filter that fails - under every non-empty subset of the names {e, escape, raw, upper} " +
			"through every exported way of registering a filter (AddFilter, AddExtension with a CustomExtension / with an Extension type of the caller, RegisterExtension, CreateExtension + AddFilterToExtension) and renders with them, in 8 timelines " +
			"(other engine created before / after the engine under test; registration before the engine under test exists, while it is cold, after it has rendered; the other engine's first use before or after the first render of the engine under test): " +
			"the never-customised engine under test must satisfy the unchanged oracle on every route under both names at every point of the timeline; plus the engine under test itself registering filters under names no route uses (upper, shout) in the same ways; " +
			"repeated application (cases 11-repeat/...): every sequence of 2, 3 and 4 names over {escape, e} (28) applied to the same value in 21 template forms (adjacent in one chain, with blanks, parenthesised, after default(v), with raw / trim / upper in between, " +
			"split over a set variable - first / last application separate, one variable re-assigned n times -, an apply block as the last application, n nested apply blocks, macro body, macro argument, include, include with, for, if, block of an extending template) and 6 parser-free forms " +
			"(nested FilterNodes / a SetNode rendered without and with an empty environment = built-in fallback; n chained ApplyFilter calls with no / an empty / the engine's environment): the output must decode back to the value's text in exactly n steps, every intermediate text being a correct escaped form of the next " +
			"(with trim / upper in between: the output must be the escaped form of what the template without the last application renders), all name sequences of one length byte-identical; " +
			"values whose text changes (cases 12-mutable/...): 8 kinds of value reached through something (*string, *bytes.Buffer, Stringer pointer, pointer to a named string, pointer to a struct, list and map changed in place, a string replaced in ONE kept context map) x every sequence of three texts over 7 texts (343): " +
			"after every change all 21 routes run under both names on two engines (the template routes with one context map kept for the whole sequence), then the same sequence with the change made INSIDE one render by a function of the check (bump()) between two applications (print tags / set variables, all four name pairs): every application must escape the value's current text; " +
			"a case is one block of inputs (<= 553 strings) on a fresh engine; non-trivial = the block contains a significant character or a byte >= 0x80 (apply bodies: the unescaped body does; two engines: the other engine's own e / escape really renders something that is not the escaped form)",
		Assumptions: []string{
			"strings longer than 1 MiB + 5 bytes and alphabet strings longer than the bound are not explored",
			"in the quick tier code points >= U+3000 are swept inside a?& only (not alone) and on one route per escaping mechanism only (print tag = registered filter, ApplyFilter without environment = built-in fallback, macro text with and without environment); the thorough tier sweeps them on all routes",
			"the text a non-string value is converted to is taken from the statement for scalars, Stringers, byte slices and named strings, and from the unfiltered print tag of the same engine for lists, maps, structs and errors",
			"input reaches the filter as a context value; string literals written in template source are the subject of C08/C04",
			"operand shapes: the text that reaches the escape is known by construction (the input is only concatenated with constants, selected by a condition / an index, or passed through default(v) / replace(k, k)); the operand's own filters (trim, lower, upper, default, replace) act on the constants \" x \" and \"Ab\" and are trusted to give x / ab / AB; shapes are not run on the environment-less fallback (it has no filter but escape) nor in macro text; quick tier: shorter bounds than the plain routes (alphabet length 4, single bytes, code points < U+0800, repeats <= 4097)",
			"apply-block bodies: the expected text is what the body renders without the block on the same engine (the children themselves - macros, include, for, parent() - are trusted); inputs are the short ones of every family (quick: specials, single bytes, the 23 already-escaped forms, alphabet length <= 2, repeats <= 65, code points < U+0100; mixtures of two on the specials, bytes, alphabet strings and non-string values, of three on the specials only; thorough: alphabet length <= 3, pairs of already-escaped forms, repeats <= 4097, code points < U+0800, mixtures of two everywhere, of three also on the bytes and non-string values); macros are not called in the block of an extending template (this twig does not see the template's macros there)",
			"macro text with several references: a reference without e / escape is compared with the same reference alone in a text node (what upper / length do is not examined); texts with a reference that is an error alone (length of a number) are left out for that value; filter chains and arguments inside macro text are not generated; inputs: quick specials, single bytes, the 23 already-escaped forms, alphabet length <= 2, repeats <= 257, code points < U+0100; thorough alphabet length <= 4, pairs and triples of already-escaped forms, all boundary lengths, code points < U+3000",
			"boundary lengths around 64 KiB are run in the thorough tier only (quick: up to 4097 repeats, and the 1 MiB strings)",
			"two engines: one other engine per scenario (not several), one registration per scenario, everything on one goroutine; inputs: quick the 20 specials, thorough also the single bytes, the 23 already-escaped forms, alphabet strings of length <= 2 and the non-string values; an engine under test that registers its OWN e / escape is not generated (the statement describes the escape filter and its alias, not a user-supplied filter of that name); what the other engine renders with its own filters is not judged; worker processes are reused, so behaviour that is fixed by the very first use of a filter name in a process is only seen by the workers whose first case is a two-engine case (the dimension is enumerated right after the first block for that reason)",
			"repeated application: at most 4 applications; a filter applied to the RESULT of a macro call ({{ m(v)|e }}) is not generated (this twig hands the filter the macro callable, not its text - what a macro call is as a filter operand is not the escape's business); filter chains in macro text are not generated (see above); " +
				"with trim / upper between two applications the text given to the last one is taken from the twin template without it (what trim / upper do is not examined); quick: four applications on 3 template forms (print, set-first, apply-nested) and the 6 parser-free forms only, inputs specials, single bytes, singles and pairs of already-escaped forms, alphabet length <= 3, repeats <= 257, code points < U+0800 inside a?&, non-string values; thorough: all forms, triples of already-escaped forms, alphabet length <= 4, repeats <= 4097, code points < U+3000",
			"values whose text changes: single goroutine (a value changed WHILE a filter runs is C02's subject); three texts per sequence over 7 texts; the text of the pointer to a named string / to a struct, of the list and of the map is what the unfiltered print tag of the same engine renders at that moment; " +
				"the change inside one render is made by a registered function between two print tags / set tags of the same template (not for the string in the kept context map: whether a running render sees the caller change its map is open - this twig renders from a copy)",
			"held results: only windows of consecutive inputs of the enumeration order are held together (not all pairs); in the quick tier the template forms of the registered filter and the code point blocks >= U+3000 run one of the two name rotations per window, alternating; results longer than 16 KiB are kept for later re-verification on the direct routes only",
		},
		QuickDeadline:    150,
		ThoroughDeadline: 1200,
		Run: func(t *vlib.T) {
			tc := t.Case
			tick = t.Progress
			// routes that carry an open finding form their own cases, so that the (re-run) cost of a
			// tolerated deviation is not paid for the other routes
			var main, side []route
			for _, r := range allRoutes() {
				if r.known != "" {
					side = append(side, r)
				} else {
					main = append(main, r)
				}
			}
			multis := allMultis()
			allRotations = t.Thorough()
			// order: the structured dimensions first, the two code point sweeps (by far the largest and the most
			// uniform families) last, so that a run cut short by the deadline has seen every dimension
			const (
				selSpecial    = iota // the block of the specials: the simplest case of all
				selStructured        // every other family but the code points
				selCodePoints
			)
			plain := func(sel int) {
				for _, b := range blocks(t.Thorough()) {
					b := b
					is := selStructured
					if b.family == "special" {
						is = selSpecial
					} else if b.family == "codepoint" {
						is = selCodePoints
					}
					if is != sel {
						continue
					}
					tc(b.key, func() *vlib.Outcome { return runBlock(b, main, multis) })
					tc(b.key+"#"+side[0].name, func() *vlib.Outcome { return runBlock(b, side, nil) })
				}
			}
			// the specials on one engine first: a plain defect of the escape is then reported by the plainest case
			plain(selSpecial)
			// two engines in one process (engines.go): another engine registers its own e / escape / raw / upper.
			// This small dimension (1 890 short cases) comes before everything else: something that is decided once
			// per process by whichever engine gets there first (a memoised lookup, a table built on first use) can
			// only show while the worker process is still fresh (14 or 15 of the 16 workers still are)
			enginesCases(t, main)
			plain(selStructured)
			for _, nv := range nonStrings() {
				nv := nv
				tc("0-nonstring/"+nv.name, func() *vlib.Outcome { return runNonString(nv, main, multis) })
				tc("0-nonstring/"+nv.name+"#"+side[0].name, func() *vlib.Outcome { return runNonString(nv, side, nil) })
			}
			// operand shapes (shapes.go): the escaped expression is a compound expression whose parts
			// carry filters of their own
			for _, nv := range nonStrings() {
				nv := nv
				tc("7-shape/0-nonstring/"+nv.name, func() *vlib.Outcome { return runShapeNonString(nv) })
			}
			shaped := func(cp bool) {
				for _, b := range shapeBlocks(t.Thorough()) {
					b := b
					if (b.family == "codepoint") != cp {
						continue
					}
					tc("7-shape/"+b.key, func() *vlib.Outcome { return runShapeBlock(t, b) })
				}
			}
			shaped(false)
			// apply-block bodies (bodies.go): every kind of direct child, alone and in mixtures of two / three
			groups := abGroupNames()
			for g, gname := range groups {
				g := g
				tc("8-applybody/0-nonstring/"+gname, func() *vlib.Outcome { return runBodyNonStrings(t, g, t.Thorough()) })
			}
			for _, b := range bodyBlocks(t.Thorough()) {
				b := b
				triples := bodyTriples(b, t.Thorough())
				for g, gname := range groups {
					g := g
					if g > 0 && !bodyPairs(b, t.Thorough()) {
						break
					}
					tc("8-applybody/"+b.key+"/"+gname, func() *vlib.Outcome { return runBodyBlock(t, b, g, triples) })
				}
			}
			// macro text with several references to the same variable (mtext.go)
			var sets []*mtSet
			set := func(i int) *mtSet {
				if sets == nil {
					sets = mtSets(3)
				}
				return sets[i]
			}
			for i, sname := range []string{"env", "noenv"} {
				i := i
				tc("9-macrotext/0-nonstring/"+sname, func() *vlib.Outcome { return runMacroTextNonStrings(t, set(i)) })
			}
			for _, b := range macroTextBlocks(t.Thorough()) {
				b := b
				for i, sname := range []string{"env", "noenv"} {
					i := i
					tc("9-macrotext/"+b.key+"/"+sname, func() *vlib.Outcome { return runMacroTextBlock(t, b, set(i)) })
				}
			}
			// the escape applied more than once to the same value (repeat.go)
			for _, nv := range nonStrings() {
				nv := nv
				tc("11-repeat/0-nonstring/"+nv.name, func() *vlib.Outcome { return runRepeatNonString(t, nv) })
			}
			for _, b := range repeatBlocks(t.Thorough()) {
				b := b
				tc("11-repeat/"+b.key, func() *vlib.Outcome { return runRepeatBlock(t, b) })
			}
			// values whose text changes between applications (mutable.go)
			for _, k := range mutKinds {
				k := k
				for first := range mutTexts {
					first := first
					tc(fmt.Sprintf("12-mutable/%s/first-%d", k.name, first), func() *vlib.Outcome { return runMutable(t, k, first, main) })
				}
			}
			plain(selCodePoints)
			shaped(true)
		},
		Extra: func(tier string, cov map[string]interface{}) {
			cov["routes"] = len(allRoutes())
			cov["multi_value_routes"] = len(allMultis())
			cov["operand_shapes"] = len(shapes)
			cov["shape_positions"] = len(shapePositions)
			cov["filter_names"] = filterNames
			cov["apply_body_child_kinds"] = len(abChildren)
			cov["apply_body_single_only_kinds"] = len(abExtraChildren)
			cov["apply_body_placements"] = len(abPlacements)
			cov["engines_timelines"] = len(egTimelines)
			cov["engines_registration_mechanisms"] = len(egMechanisms)
			cov["engines_filter_kinds"] = len(egKinds)
			cov["engines_name_subsets"] = len(egSubsets(egNames))
			cov["engines_self_scenarios"] = len(egSelfTimelines) * len(egMechanisms) * len(egKinds) * len(egSubsets(egSelfNames))
			cov["repeat_forms"] = len(rpForms) + len(rpDirect)
			cov["repeat_name_sequences"] = len(rpSeqs(2)) + len(rpSeqs(3)) + len(rpSeqs(4))
			cov["mutable_value_kinds"] = len(mutKinds)
			cov["mutable_texts"] = len(mutTexts)
			cov["mutable_in_render_forms"] = len(mutInRender)
			cov["macro_text_separator_styles"] = len(mtStyles)
			cov["macro_text_texts_env"] = len(mtSeqs(mtRefsEnv, 3)) * len(mtStyles)
			cov["macro_text_texts_noenv"] = len(mtSeqs(mtRefsNoEnv, 3)) * len(mtStyles)
		},
	})
}
