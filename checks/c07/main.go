// C07 — the escape filter neutralises every HTML-significant character.
//
// Bounded-exhaustive enumeration of input strings (every code point, every byte string of length
// <= 2, every string of length <= 5/6 over a 10-symbol alphabet of significant / multi-byte /
// invalid bytes, every pair and triple of already-escaped forms, long strings, non-string values)
// crossed with every route on which the filter can be applied and both filter names. The oracle is
// a lock-step walk of input and output transcribed from the property statement: a significant byte
// must appear as one character reference that decodes to it, every other byte must appear as
// itself, nothing else may appear.
package main

import (
	"bytes"
	"errors"
	"fmt"
	"sort"
	"strconv"
	"strings"
	"unicode/utf8"

	"github.com/semihalev/twig"

	"verif/lib/vlib"
)

// ---------------------------------------------------------------------------------------------
// oracle (from the statement; never from twig's code)

// references accepted for each significant character: any character reference that an HTML parser
// decodes to exactly that character
var refs = map[byte][]string{
	'&':  {"&amp;", "&#38;", "&#x26;"},
	'<':  {"&lt;", "&#60;", "&#x3c;", "&#x3C;"},
	'>':  {"&gt;", "&#62;", "&#x3e;", "&#x3E;"},
	'"':  {"&quot;", "&#34;", "&#x22;"},
	'\'': {"&#39;", "&#x27;", "&apos;"},
}

func significant(c byte) bool { return c == '&' || c == '<' || c == '>' || c == '"' || c == '\'' }

// verify walks input and output in lock step. It returns "" when out is in escaped form of in.
func verify(in, out string) string {
	j := 0
	for i := 0; i < len(in); i++ {
		c := in[i]
		if significant(c) {
			ok := false
			for _, r := range refs[c] {
				if strings.HasPrefix(out[j:], r) {
					j += len(r)
					ok = true
					break
				}
			}
			if !ok {
				return fmt.Sprintf("input byte %d (%q) is not replaced by a character reference for it (output continues with %q)", i, string(c), clip(out[j:], 12))
			}
			continue
		}
		if j >= len(out) {
			return fmt.Sprintf("output ends before input byte %d (0x%02x)", i, c)
		}
		if out[j] != c {
			return fmt.Sprintf("input byte %d (0x%02x) does not pass through unchanged (output has %q)", i, c, clip(out[j:], 12))
		}
		j++
	}
	if j != len(out) {
		return fmt.Sprintf("output has %d extra bytes %q", len(out)-j, clip(out[j:], 12))
	}
	// redundant second opinion, independent of the walk: no raw significant character at all, every
	// '&' opens an accepted reference, and decoding gives back the input
	if strings.ContainsAny(out, "<>\"'") {
		return "raw significant character in output"
	}
	if decode(out) != in {
		return "decoding the references does not give back the input"
	}
	return ""
}

// decode is the 10-line reference decoder: the accepted references, longest match not needed
// because no accepted reference is a prefix of another.
func decode(s string) string {
	var b strings.Builder
	for i := 0; i < len(s); {
		if s[i] == '&' {
			hit := false
			for c, rs := range refs {
				for _, r := range rs {
					if strings.HasPrefix(s[i:], r) {
						b.WriteByte(c)
						i += len(r)
						hit = true
						break
					}
				}
				if hit {
					break
				}
			}
			if hit {
				continue
			}
		}
		b.WriteByte(s[i])
		i++
	}
	return b.String()
}

func clip(s string, n int) string {
	if len(s) > n {
		return s[:n] + "…"
	}
	return s
}

// ---------------------------------------------------------------------------------------------
// routes

// env is the engine of one case, built on first use (the routes without environment never need it)
type env struct {
	eng *twig.Engine
}

func (en *env) e() *twig.Engine {
	if en.eng == nil {
		en.eng = newEngine()
	}
	return en.eng
}

var filterNames = []string{"escape", "e"}

// template routes: %s is the filter name
var tplRoutes = []struct{ name, src string }{
	{"print", "{{ v|%s }}"},
	{"chain-after", "{{ v|raw|%s }}"},
	{"chain-before", "{{ v|%s|raw }}"},
	{"chain-default", "{{ v|default(v)|%s }}"},
	{"apply", "{%% apply %s %%}{{ v }}{%% endapply %%}"},
	{"macro", "{%% macro m(p) %%}{{ p|%s }}{%% endmacro %%}{{ m(v) }}"},
	{"macro-self", "{%% macro m(p) %%}{{ p|%s }}{%% endmacro %%}{{ _self.m(v) }}"},
	{"macro-import", "{%% import 'lib-%s' as l %%}{{ l.m(v) }}"},
	{"macro-from", "{%% from 'lib-%s' import m %%}{{ m(v) }}"},
	{"include", "{%% include 'print-%s' %%}"},
	{"include-with-only", "{%% include 'print-%s' with {'v': v} only %%}"},
	{"include-sandboxed", "{%% include 'print-%s' sandboxed %%}"},
	{"extends-block", "{%% extends 'base' %%}{%% block b %%}{{ v|%s }}{%% endblock %%}"},
	{"set", "{%% set x = v|%s %%}{{ x }}"},
	{"for", "{%% for x in [v] %%}{{ x|%s }}{%% endfor %%}"},
	{"if", "{%% if true %%}{{ v|%s }}{%% endif %%}"},
}

// core routes = one per independent escaping mechanism (registered filter: print; built-in fallback:
// fallback-noenv; macro text: macro-text, macro-text-noenv); the quick tier sweeps the code points
// above U+3000 on these only
var coreRoutes = map[string]bool{"print": true}

func newEnv() *env { return &env{} }

func newEngine() *twig.Engine {
	e := twig.New()
	e.EnableSandbox(twig.NewDefaultSecurityPolicy())
	must(e.RegisterString("plain", "{{ v }}"))
	must(e.RegisterString("base", "{% block b %}{% endblock %}"))
	for _, f := range filterNames {
		must(e.RegisterString("lib-"+f, fmt.Sprintf("{%% macro m(p) %%}{{ p|%s }}{%% endmacro %%}", f)))
	}
	for _, r := range tplRoutes {
		for _, f := range filterNames {
			must(e.RegisterString(r.name+"-"+f, fmt.Sprintf(r.src, f)))
		}
	}
	return e
}

func must(err error) {
	if err != nil {
		panic(err)
	}
}

type route struct {
	name string // without the filter name
	core bool
	// known: id of the open finding whose predicate is "this route" (see known_findings.json)
	known string
	run   func(en *env, filter string, v interface{}) (string, error)
}

func allRoutes() []route {
	var rs []route
	for _, r := range tplRoutes {
		r := r
		rs = append(rs, route{name: r.name, core: coreRoutes[r.name], run: func(en *env, f string, v interface{}) (string, error) {
			return en.e().Render(r.name+"-"+f, map[string]interface{}{"v": v})
		}})
	}
	// the built-in fallback: a render context that has no environment at all / an empty environment
	rs = append(rs, route{name: "fallback-noenv", core: true, run: func(en *env, f string, v interface{}) (string, error) {
		ctx := twig.NewRenderContext(nil, nil, nil)
		defer ctx.Release()
		r, err := ctx.ApplyFilter(f, v)
		if err != nil {
			return "", err
		}
		s, ok := r.(string)
		if !ok {
			return "", fmt.Errorf("filter result is %T, not a string", r)
		}
		return s, nil
	}})
	rs = append(rs, route{name: "fallback-emptyenv", run: func(en *env, f string, v interface{}) (string, error) {
		ctx := twig.NewRenderContext(new(twig.Environment), nil, nil)
		defer ctx.Release()
		r, err := ctx.ApplyFilter(f, v)
		if err != nil {
			return "", err
		}
		s, ok := r.(string)
		if !ok {
			return "", fmt.Errorf("filter result is %T, not a string", r)
		}
		return s, nil
	}})
	// direct application of the registered filter through a context with the engine's environment
	rs = append(rs, route{name: "applyfilter-env", run: func(en *env, f string, v interface{}) (string, error) {
		ctx := twig.NewRenderContext(en.e().GetEnvironment(), nil, en.e())
		defer ctx.Release()
		r, err := ctx.ApplyFilter(f, v)
		if err != nil {
			return "", err
		}
		s, ok := r.(string)
		if !ok {
			return "", fmt.Errorf("filter result is %T, not a string", r)
		}
		return s, nil
	}})
	// text inside a macro body that still contains a print tag (renderVariableString): a macro whose
	// body is a TextNode, built with the exported constructors
	macroText := func(withEnv bool, pad string) func(en *env, f string, v interface{}) (string, error) {
		return func(en *env, f string, v interface{}) (string, error) {
			m := twig.NewMacroNode("m", []string{"p"}, nil, []twig.Node{twig.NewTextNode("{{"+pad+"p"+pad+"|"+pad+f+pad+"}}", 1)}, 1)
			var ctx *twig.RenderContext
			if withEnv {
				ctx = twig.NewRenderContext(en.e().GetEnvironment(), nil, en.e())
			} else {
				ctx = twig.NewRenderContext(nil, nil, nil)
			}
			defer ctx.Release()
			var buf bytes.Buffer
			err := m.CallMacro(&buf, ctx, v)
			return buf.String(), err
		}
	}
	rs = append(rs, route{name: "macro-text", core: true, run: macroText(true, " ")})
	rs = append(rs, route{name: "macro-text-tight", run: macroText(true, "")})
	rs = append(rs, route{name: "macro-text-noenv", core: true, known: "KF-C07-1", run: macroText(false, " ")})
	return rs
}

// ---------------------------------------------------------------------------------------------
// cases

type finding struct {
	Route, Filter, Input, Output, Why string
}

type block struct {
	family string
	key    string
	// gen calls f for every input of the block, simplest first
	gen func(f func(s string))
	// onlyCore: run only the core routes (quick-tier code point sweep above the BMP prefix)
	onlyCore bool
}

func features(s string, set map[string]bool) {
	for i := 0; i < len(s); i++ {
		switch c := s[i]; {
		case c == '&':
			set["amp"] = true
		case c == '<':
			set["lt"] = true
		case c == '>':
			set["gt"] = true
		case c == '"':
			set["quot"] = true
		case c == '\'':
			set["apos"] = true
		case c == 0:
			set["nul"] = true
		case c >= 0x80:
			set["hi"] = true
		}
	}
	if !utf8.ValidString(s) {
		set["inv"] = true
	}
}

func runBlock(b block, routes []route) *vlib.Outcome {
	en := newEnv()
	o := &vlib.Outcome{Counters: map[string]int64{}}
	feat := map[string]bool{}
	forms := map[string]bool{}
	var first, known *finding
	knownID := ""
	var renders, inputs int64
	b.gen(func(in string) {
		if first != nil {
			return
		}
		inputs++
		features(in, feat)
		for _, r := range routes {
			if b.onlyCore && !r.core {
				continue
			}
			var outs [2]string
			for k, f := range filterNames {
				out, err := r.run(en, f, in)
				renders++
				why := ""
				if err != nil {
					why = "error: " + err.Error()
				} else {
					why = verify(in, out)
				}
				if why != "" && err == nil && r.known != "" && out == in {
					// predicate of the open finding (this route) holds and the observation is exactly its
					// quirk (the text comes out as it went in: the filter was skipped)
					if known == nil {
						known = &finding{r.name, f, strconv.QuoteToASCII(in), strconv.QuoteToASCII(clip(out, 200)), why}
						knownID = r.known
					}
					why = ""
				}
				if why != "" {
					first = &finding{r.name, f, strconv.QuoteToASCII(in), strconv.QuoteToASCII(clip(out, 200)), why}
					return
				}
				outs[k] = out
			}
			if outs[0] != outs[1] {
				first = &finding{r.name, "escape vs e", strconv.QuoteToASCII(in), strconv.QuoteToASCII(clip(outs[0], 100) + " vs " + clip(outs[1], 100)), "the two names give different output"}
				return
			}
			if len(in) < 64 {
				if strings.Contains(outs[0], "&quot;") {
					forms["quot"] = true
				}
				if strings.Contains(outs[0], "&#34;") {
					forms["#34"] = true
				}
			}
		}
	})
	o.Counters["renders"] = renders
	o.Counters["inputs"] = inputs
	var fs []string
	for k := range feat {
		fs = append(fs, k)
	}
	sort.Strings(fs)
	var qs []string
	for k := range forms {
		qs = append(qs, k)
	}
	sort.Strings(qs)
	o.Nontrivial = len(fs) > 0
	o.Class = b.family + ":" + strings.Join(fs, "+") + "/" + strings.Join(qs, ",")
	if first != nil {
		o.Class = "violation:" + first.Route
		o.Violation = fmt.Sprintf("route %s, filter %s, input %s: %s; output %s", first.Route, first.Filter, first.Input, first.Why, first.Output)
		o.Detail = first
	} else if known != nil {
		o.Class = "known:" + knownID
		o.Known = knownID
		o.Violation = fmt.Sprintf("route %s, filter %s, input %s: %s; output %s", known.Route, known.Filter, known.Input, known.Why, known.Output)
		o.Detail = known
	}
	return o
}

var alphabet = []string{"<", ">", "&", "\"", "'", "a", "é", "\xff", ";", "#"}

// already-escaped forms and fragments of them
var refAlphabet = []string{"&amp;", "&lt;", "&gt;", "&quot;", "&#34;", "&#39;", "&#x27;", "&apos;", "&amp;amp;", "&amp;lt;", "&nbsp;",
	"&", "<", ">", "\"", "'", "&#", "&;", "amp;", "a", "é", "\xc3", "\x00"}

func encodeCP(cp int) string {
	if cp >= 0xD800 && cp <= 0xDFFF {
		// a surrogate has no UTF-8 form; use the generalized 3-byte encoding (invalid UTF-8 that must
		// pass through unchanged like every other byte string)
		return string([]byte{0xE0 | byte(cp>>12), 0x80 | byte(cp>>6)&0x3F, 0x80 | byte(cp)&0x3F})
	}
	return string(rune(cp))
}

func blocks(thorough bool) []block {
	var bs []block
	// 1. specials: empty, single significant characters, the five together
	bs = append(bs, block{family: "special", key: "0-special/basic", gen: func(f func(string)) {
		for _, s := range []string{"", "<", ">", "&", "\"", "'", "<>&\"'", "'\"&><", "a<b>c&d\"e'f", "&&", "<<", "''", "\"\"", ">>",
			"<script>alert('x' & \"y\")</script>", "&amp;", "&lt;script&gt;", "&#39;", "&#x27;", "&quot;"} {
			f(s)
		}
	}})
	// 2. every byte string of length <= 2, one block per first byte
	for a := 0; a < 256; a++ {
		a := a
		bs = append(bs, block{family: "bytes2", key: fmt.Sprintf("1-bytes2/%02x", a), gen: func(f func(string)) {
			f(string([]byte{byte(a)}))
			for b := 0; b < 256; b++ {
				f(string([]byte{byte(a), byte(b)}))
			}
		}})
	}
	// 3. already-escaped forms: every pair and triple, one block per first element
	for i := range refAlphabet {
		i := i
		bs = append(bs, block{family: "refs", key: fmt.Sprintf("2-refs/%02d", i), gen: func(f func(string)) {
			f(refAlphabet[i])
			for _, y := range refAlphabet {
				f(refAlphabet[i] + y)
			}
			for _, y := range refAlphabet {
				for _, z := range refAlphabet {
					f(refAlphabet[i] + y + z)
				}
			}
		}})
	}
	// 4. every string of length <= L over the alphabet, blocks of 111 strings
	L := 5
	if thorough {
		L = 6
	}
	P := L - 2 // blocks are keyed by a prefix of P symbols and hold the 111 strings of length P..L with that prefix
	bs = append(bs, block{family: "alpha", key: fmt.Sprintf("3-alpha/0-len<%d", P), gen: func(f func(string)) {
		level := []string{""}
		for n := 0; n < P; n++ {
			var next []string
			for _, s := range level {
				if n > 0 {
					f(s)
				}
				for _, a := range alphabet {
					next = append(next, s+a)
				}
			}
			level = next
		}
	}})
	var prefixes func(p string, idx string, n int)
	prefixes = func(p string, idx string, n int) {
		if n == P {
			bs = append(bs, block{family: "alpha", key: fmt.Sprintf("3-alpha/L%d/%s", L, idx), gen: func(f func(string)) {
				// breadth first: shorter strings first
				level := []string{p}
				for n := P; n <= L; n++ {
					var next []string
					for _, s := range level {
						f(s)
						if n < L {
							for _, a := range alphabet {
								next = append(next, s+a)
							}
						}
					}
					level = next
				}
			}})
			return
		}
		for i, a := range alphabet {
			prefixes(p+a, idx+strconv.Itoa(i), n+1)
		}
	}
	prefixes("", "", 0)
	// 5. lengths around growth boundaries of the output buffer, and very long strings
	for _, unit := range []string{"&", "<", "\"", "'", "a&", "é<", "\xff>"} {
		unit := unit
		bs = append(bs, block{family: "length", key: fmt.Sprintf("4-length/%q", unit), gen: func(f func(string)) {
			for _, n := range []int{6, 7, 8, 9, 15, 16, 17, 31, 32, 33, 63, 64, 65, 127, 128, 129, 255, 256, 257, 1023, 1024, 1025, 4095, 4096, 4097, 65535, 65536, 65537} {
				f(strings.Repeat(unit, n))
				f(strings.Repeat("a", n) + unit)
			}
		}})
	}
	for i, unit := range []string{"a", "<>&\"'", "é\xff&", "&amp;"} {
		unit := unit
		bs = append(bs, block{family: "long", key: fmt.Sprintf("5-long/1MiB/%d", i), gen: func(f func(string)) {
			f(strings.Repeat(unit, (1<<20)/len(unit)+1))
		}})
	}
	// 6. every code point, alone and embedded in a?&, blocks of 32
	for base := 0; base <= 0x10FFFF; base += 32 {
		base := base
		bs = append(bs, block{family: "codepoint", key: fmt.Sprintf("6-cp/%06x", base), onlyCore: !thorough && base >= 0x3000,
			gen: func(f func(string)) {
				for cp := base; cp < base+32; cp++ {
					s := encodeCP(cp)
					if thorough || base < 0x3000 {
						f(s)
					}
					f("a" + s + "&")
				}
			}})
	}
	return bs
}

// ---------------------------------------------------------------------------------------------
// non-string values

type strg struct{ s string }

func (s strg) String() string { return s.s }

type pstrg struct{ s string }

func (s *pstrg) String() string { return s.s }

type named string

type rec struct {
	A string
	B int
}

type nsValue struct {
	name string
	v    func() interface{}
	// want is the text the value is converted to, when the conversion is beyond doubt; "" + twin
	// means: compare with what the unfiltered print tag gives on the same engine
	want string
	twin bool
}

func nonStrings() []nsValue {
	ptr := "<p>&"
	return []nsValue{
		{name: "int", v: func() interface{} { return 42 }, want: "42"},
		{name: "negint64", v: func() interface{} { return int64(-7) }, want: "-7"},
		{name: "uint8", v: func() interface{} { return uint8(200) }, want: "200"},
		{name: "float", v: func() interface{} { return 1.5 }, want: "1.5"},
		{name: "float32", v: func() interface{} { return float32(2.25) }, want: "2.25"},
		{name: "true", v: func() interface{} { return true }, want: "true"},
		{name: "false", v: func() interface{} { return false }, want: "false"},
		{name: "nil", v: func() interface{} { return nil }, want: ""},
		{name: "stringer", v: func() interface{} { return strg{"<i>'x' & \"y\"</i>"} }, want: "<i>'x' & \"y\"</i>"},
		{name: "ptr-stringer", v: func() interface{} { return &pstrg{"<b>&amp;</b>"} }, want: "<b>&amp;</b>"},
		{name: "bytes", v: func() interface{} { return []byte("<b>\xff&") }, want: "<b>\xff&"},
		{name: "error", v: func() interface{} { return errors.New("e<r>&") }, twin: true},
		{name: "named-string", v: func() interface{} { return named("<&>\"'") }, want: "<&>\"'"},
		{name: "ptr-string", v: func() interface{} { return &ptr }, want: "<p>&"},
		{name: "list", v: func() interface{} { return []interface{}{"<a>", "b&c", 1, "'"} }, twin: true},
		{name: "strings", v: func() interface{} { return []string{"x\"y", "'", "<"} }, twin: true},
		{name: "array", v: func() interface{} { return [2]string{"<", "&"} }, twin: true},
		{name: "map", v: func() interface{} { return map[string]interface{}{"k<": "v>", "a&": "'"} }, twin: true},
		{name: "typed-map", v: func() interface{} { return map[string]string{"k<": "v>"} }, twin: true},
		{name: "struct", v: func() interface{} { return rec{"<s>&\"'", 3} }, twin: true},
		{name: "nested", v: func() interface{} { return []interface{}{[]interface{}{"<"}, map[string]interface{}{"&": "\""}} }, twin: true},
	}
}

func runNonString(nv nsValue, routes []route) *vlib.Outcome {
	en := newEnv()
	o := &vlib.Outcome{Nontrivial: true, Counters: map[string]int64{}}
	want := nv.want
	if nv.twin {
		w, err := en.e().Render("plain", map[string]interface{}{"v": nv.v()})
		if err != nil {
			o.Violation = fmt.Sprintf("value %s: unfiltered print failed: %v", nv.name, err)
			return o
		}
		want = w
	}
	var renders int64
	knownWhy, knownID := "", ""
	for _, r := range routes {
		var outs [2]string
		for k, f := range filterNames {
			out, err := r.run(en, f, nv.v())
			renders++
			why := ""
			if err != nil {
				why = "error: " + err.Error()
			} else {
				why = verify(want, out)
			}
			if why != "" && err == nil && r.known != "" && out == want {
				if knownWhy == "" {
					knownWhy = fmt.Sprintf("route %s, filter %s, value %s (text %s): %s; output %s", r.name, f, nv.name, strconv.QuoteToASCII(want), why, strconv.QuoteToASCII(out))
					knownID = r.known
				}
				why = ""
			}
			if why != "" {
				o.Violation = fmt.Sprintf("route %s, filter %s, value %s (text %s): %s; output %s", r.name, f, nv.name, strconv.QuoteToASCII(want), why, strconv.QuoteToASCII(out))
				o.Detail = finding{r.name, f, nv.name, out, why}
				o.Class = "violation:" + r.name
				return o
			}
			outs[k] = out
		}
		if outs[0] != outs[1] {
			o.Violation = fmt.Sprintf("route %s, value %s: escape gives %q, e gives %q", r.name, nv.name, outs[0], outs[1])
			return o
		}
	}
	o.Counters["renders"] = renders
	o.Counters["inputs"] = 1
	set := map[string]bool{}
	features(want, set)
	var fs []string
	for k := range set {
		fs = append(fs, k)
	}
	sort.Strings(fs)
	o.Class = "nonstring:" + strings.Join(fs, "+")
	if knownWhy != "" {
		o.Class = "known:" + knownID
		o.Known = knownID
		o.Violation = knownWhy
	}
	return o
}

func main() {
	vlib.Main(vlib.Spec{
		ID:    "C07",
		Level: "exploration",
		Rule: "every input of the bounded families (all code points alone and inside a?&, all byte strings of length <= 2, all strings of length <= 5 (thorough 6) over " +
			"{< > & \" ' a é 0xFF ; #}, all pairs and triples of 23 already-escaped forms and fragments, boundary lengths up to 64 KiB, 1 MiB strings, 21 non-string values) " +
			"x every route (16 template positions, direct ApplyFilter with the engine's / an empty / no environment, macro text with and without environment) x both names; " +
			"a case is one block of inputs (<= 553 strings) on a fresh engine; non-trivial = the block contains a significant character or a byte >= 0x80",
		Assumptions: []string{
			"strings longer than 1 MiB + 5 bytes and alphabet strings longer than the bound are not explored",
			"in the quick tier code points >= U+3000 are swept inside a?& only (not alone) and on one route per escaping mechanism only (print tag = registered filter, ApplyFilter without environment = built-in fallback, macro text with and without environment); the thorough tier sweeps them on all routes",
			"the text a non-string value is converted to is taken from the statement for scalars, Stringers, byte slices and named strings, and from the unfiltered print tag of the same engine for lists, maps, structs and errors",
			"input reaches the filter as a context value; string literals written in template source are the subject of C08/C04",
		},
		QuickDeadline:    150,
		ThoroughDeadline: 1200,
		Run: func(t *vlib.T) {
			// routes that carry an open finding form their own cases, so that the (re-run) cost of a
			// tolerated deviation is not paid for the other routes
			var main, side []route
			for _, r := range allRoutes() {
				if r.known != "" {
					side = append(side, r)
				} else {
					main = append(main, r)
				}
			}
			for _, b := range blocks(t.Thorough()) {
				b := b
				t.Case(b.key, func() *vlib.Outcome { return runBlock(b, main) })
				t.Case(b.key+"#"+side[0].name, func() *vlib.Outcome { return runBlock(b, side) })
			}
			for _, nv := range nonStrings() {
				nv := nv
				t.Case("0-nonstring/"+nv.name, func() *vlib.Outcome { return runNonString(nv, main) })
				t.Case("0-nonstring/"+nv.name+"#"+side[0].name, func() *vlib.Outcome { return runNonString(nv, side) })
			}
		},
		Extra: func(tier string, cov map[string]interface{}) {
			cov["routes"] = len(allRoutes())
			cov["filter_names"] = filterNames
		},
	})
}
