// Apply-block bodies (cases 8-applybody/...): `{% apply escape %}` / `{% apply e %}` around a body
// that is built from every kind of direct child — text, print of a variable, print of a MACRO CALL
// (local, _self, imported with import / from), print of a function call, if / for / set / include /
// nested apply / block / spaceless children — alone, and every mixture of two and of three children.
// The plain routes and the operand shapes only ever put one print tag into the block.
//
// Oracle: the statement's, on the whole block: the block's output must be the escaped form
// (verify) of what the same body renders WITHOUT the apply block (twin template on the same engine,
// same context) — no raw significant character, every other byte unchanged, decodes back to the
// unescaped body. Both names must give byte-identical output.
package main

import (
	"fmt"
	"sort"
	"strconv"
	"strings"

	"github.com/semihalev/twig"

	"verif/lib/vlib"
)

type abChild struct {
	name string
	src  string // '#' = the position of the child in the body (block / variable names stay unique)
}

// the 16 kinds that are mixed; every one prints hostile symbols of its own next to the input
var abChildren = []abChild{
	{"text", `<t a="1" b='2'>&`},
	{"var", `{{ v }}`},
	{"var-filter", `{{ v|default(v) }}`},
	{"macro", `{{ m(v) }}`},
	{"macro-self", `{{ _self.m(v) }}`},
	{"macro-import", `{{ l.m(v) }}`},
	{"macro-from", `{{ fm(v) }}`},
	{"func", `{{ tagf(v) }}`},
	{"if", `{% if c %}<i>{{ v }}{% endif %}`},
	{"for", `{% for x in [v, v] %}{{ x }}'{% endfor %}`},
	{"set", `{% set s# = v %}{{ s# }}<s>`},
	{"include", `{% include 'ab-inc' %}`},
	{"apply-macro", `{% apply escape %}<n>{{ m(v) }}{% endapply %}`},
	{"apply-raw", `{% apply raw %}<n>{{ v }}"{% endapply %}`},
	{"block", `{% block bb# %}<k>{{ v }}&{% endblock %}`},
	{"spaceless", `{% spaceless %}<a> <b>{{ v }}</b> </a>{% endspaceless %}`},
}

// further kinds, as the only child (top placement)
var abExtraChildren = []abChild{
	{"else", `{% if not c %}x{% else %}{{ v }}"e"{% endif %}`},
	{"func-builtin", `{{ cycle([v, '<c>'], 0) }}`},
	{"func-number", `{{ max(1, 2) }}`},
	{"verbatim", `{% verbatim %}<v>{{ v }}&{% endverbatim %}`},
	{"apply-upper", `{% apply upper %}<n>{{ v }}{% endapply %}`},
	{"apply-e", `{% apply e %}<n>{{ v }}{% endapply %}`},
	{"comment", `{# c #}`},
	{"macro-two", `{{ m(v) }}{{ m('<') }}`},
	{"empty", ``},
}

// macro definitions / imports the bodies use
const abPre = `{% macro m(p) %}<b title="t">{{ p }}'&</b>{% endmacro %}{% import 'ab-lib' as l %}{% from 'ab-lib' import m as fm %}`

// placements of the apply block: A = the block (the twin has the bare body there), P = abPre
var abPlacements = []struct {
	name, src string
	// the macro kinds are left out where this twig does not see a template's macros (a block of a
	// template that extends another one)
	noMacros bool
	extra    []abChild
}{
	{name: "top", src: "PA"},
	{name: "child-block", src: "{% extends 'ab-base' %}{% block b %}A{% endblock %}", noMacros: true,
		extra: []abChild{{"parent", `{{ parent() }}`}, {"parent-var", `{{ parent() }}{{ v }}`}}},
	{name: "macro", src: "P{% macro w(v, c) %}A{% endmacro %}{{ w(v, c) }}"},
	{name: "for", src: "P{% for i in [1, 2] %}A{% endfor %}"},
	{name: "if", src: "P{% if c %}A{% endif %}"},
	{name: "in-apply", src: "P{% apply raw %}A{% endapply %}"},
	{name: "between-text", src: "P(pre {{ c }})A(post)"},
}

func abBodySrc(cs []abChild) string {
	var b strings.Builder
	for i, c := range cs {
		b.WriteString(strings.ReplaceAll(c.src, "#", strconv.Itoa(i+1)))
	}
	return b.String()
}

func abBodyName(cs []abChild) string {
	ns := make([]string, len(cs))
	for i, c := range cs {
		ns[i] = c.name
	}
	return strings.Join(ns, "+")
}

func isMacroKind(c abChild) bool {
	return strings.Contains(c.src, "m(")
}

// abBody is one template pair/triple: the body under both names and its twin without the block
type abBody struct {
	placement, body string // names
	src             [3]string
	tpl             [3]string // registered names: escape, e, twin
}

func abMake(pl int, cs []abChild) abBody {
	p := abPlacements[pl]
	body := abBodySrc(cs)
	b := abBody{placement: p.name, body: abBodyName(cs)}
	for k := 0; k < 3; k++ {
		a := body
		tag := "plain"
		if k < 2 {
			a = "{% apply " + filterNames[k] + " %}" + body + "{% endapply %}"
			tag = filterNames[k]
		}
		// the placement pattern contains no other 'A' / 'P' than the two placeholders
		b.src[k] = strings.NewReplacer("P", abPre, "A", a).Replace(p.src)
		b.tpl[k] = "ab/" + p.name + "/" + tag + "/" + b.body
	}
	return b
}

// abGroups: the body groups; a case is one input block x one group. Group "singles": every kind alone
// in every placement (+ the extra kinds); group "first-<kind>": every mixture of two (and, where
// triples is set, three) children that starts with <kind>, top placement.
func abGroupNames() []string {
	gs := []string{"singles"}
	for _, c := range abChildren {
		gs = append(gs, "first-"+c.name)
	}
	return gs
}

func abGroup(g int, triples bool) []abBody {
	var bs []abBody
	if g == 0 {
		for pl, p := range abPlacements {
			for _, c := range abChildren {
				if p.noMacros && isMacroKind(c) {
					continue
				}
				bs = append(bs, abMake(pl, []abChild{c}))
			}
			for _, c := range p.extra {
				bs = append(bs, abMake(pl, []abChild{c}))
			}
		}
		for _, c := range abExtraChildren {
			bs = append(bs, abMake(0, []abChild{c}))
		}
		return bs
	}
	first := abChildren[g-1]
	for _, c2 := range abChildren {
		bs = append(bs, abMake(0, []abChild{first, c2}))
	}
	if triples {
		for _, c2 := range abChildren {
			for _, c3 := range abChildren {
				bs = append(bs, abMake(0, []abChild{first, c2, c3}))
			}
		}
	}
	return bs
}

func newBodyEngine(bodies []abBody) *twig.Engine {
	e := twig.New()
	e.AddFunction("tagf", func(args ...interface{}) (interface{}, error) {
		// the text of a non-string argument is not this function's business: a constant
		s := "<ns>"
		if len(args) > 0 {
			if x, ok := args[0].(string); ok {
				s = x
			}
		}
		return "<f a='1'>" + s + "&</f>", nil
	})
	must(e.RegisterString("ab-lib", `{% macro m(p) %}<l t="i">{{ p }}&</l>{% endmacro %}`))
	must(e.RegisterString("ab-inc", `<inc a='1'>{{ v }}&</inc>`))
	must(e.RegisterString("ab-base", `[{% block b %}<base t="b">{{ v }}&'{% endblock %}]`))
	for _, b := range bodies {
		for k := 0; k < 3; k++ {
			must(e.RegisterString(b.tpl[k], b.src[k]))
		}
	}
	return e
}

// runBodies renders every body of the group with the value v and returns the first deviation
func runBodies(t *vlib.T, e *twig.Engine, bodies []abBody, v interface{}, what string, renders *int64, sig *bool) *finding {
	ctx := map[string]interface{}{"v": v, "c": true}
	for bi, b := range bodies {
		if bi%64 == 0 {
			t.Progress()
		}
		plain, err := e.Render(b.tpl[2], ctx)
		*renders++
		route := "apply body " + b.placement + "/" + b.body
		if err != nil {
			return &finding{route, "-", what, "", fmt.Sprintf("template %s (the body without the apply block) does not render: %v", b.src[2], err)}
		}
		if strings.ContainsAny(plain, "<>&\"'") {
			*sig = true
		}
		var outs [2]string
		for k, f := range filterNames {
			out, err := e.Render(b.tpl[k], ctx)
			*renders++
			why := ""
			if err != nil {
				why = "error: " + err.Error()
			} else {
				why = verify(plain, out)
			}
			if why != "" {
				return &finding{route, f, what, strconv.QuoteToASCII(clip(out, 300)),
					fmt.Sprintf("template %s (c = true): without the apply block the body renders %s; the block's output is not the escaped form of that: %s",
						b.src[k], strconv.QuoteToASCII(clip(plain, 300)), why)}
			}
			outs[k] = out
		}
		if outs[0] != outs[1] {
			return &finding{route, "escape vs e", what, strconv.QuoteToASCII(clip(outs[0], 100) + " vs " + clip(outs[1], 100)), "the two names give different output"}
		}
	}
	return nil
}

func abOutcome(class string, feat map[string]bool, first *finding) *vlib.Outcome {
	o := &vlib.Outcome{Counters: map[string]int64{}}
	var fs []string
	for k := range feat {
		fs = append(fs, k)
	}
	sort.Strings(fs)
	o.Class = class + ":" + strings.Join(fs, "+")
	if first != nil {
		o.Class = "violation:" + first.Route
		o.Violation = fmt.Sprintf("%s, filter %s, input %s: %s; output %s", first.Route, first.Filter, first.Input, first.Why, first.Output)
		o.Detail = first
	}
	return o
}

func runBodyBlock(t *vlib.T, b block, g int, triples bool) *vlib.Outcome {
	bodies := abGroup(g, triples)
	e := newBodyEngine(bodies)
	feat := map[string]bool{}
	var first *finding
	var renders, inputs int64
	sig := false
	b.gen(func(in string) {
		if first != nil {
			return
		}
		inputs++
		features(in, feat)
		first = runBodies(t, e, bodies, in, strconv.QuoteToASCII(clip(in, 200)), &renders, &sig)
		t.Progress()
	})
	kind := "pairs"
	if g == 0 {
		kind = "singles"
	} else if triples {
		kind = "triples"
	}
	o := abOutcome("applybody-"+kind+"-"+b.family, feat, first)
	// the bodies print significant characters of their own: every case reaches the mechanism
	o.Nontrivial = sig
	o.Counters["renders"] = renders
	o.Counters["applybody_renders"] = renders
	o.Counters["applybody_inputs"] = inputs
	o.Counters["applybody_bodies"] = int64(len(bodies))
	return o
}

func runBodyNonStrings(t *vlib.T, g int, triples bool) *vlib.Outcome {
	bodies := abGroup(g, triples)
	e := newBodyEngine(bodies)
	feat := map[string]bool{}
	var first *finding
	var renders, inputs int64
	sig := false
	for _, nv := range nonStrings() {
		inputs++
		feat[nv.name] = true
		if first = runBodies(t, e, bodies, nv.v(), "value "+nv.name, &renders, &sig); first != nil {
			break
		}
		t.Progress()
	}
	o := abOutcome("applybody-nonstring", map[string]bool{"values": true}, first)
	o.Nontrivial = sig
	o.Counters["renders"] = renders
	o.Counters["applybody_renders"] = renders
	o.Counters["applybody_inputs"] = inputs
	o.Counters["applybody_bodies"] = int64(len(bodies))
	return o
}

// bodyBlocks: the inputs of the apply-body dimension (the structure of the body is what is enumerated
// here; the inputs are the short ones of every family).
//
//	quick:    specials, the 256 single bytes, the 23 already-escaped forms, alphabet strings of length <= 2,
//	          boundary lengths up to 65 repeats, code points below U+0100 inside a?&
//	thorough: alphabet strings of length <= 3, singles and pairs of already-escaped forms, boundary
//	          lengths up to 4097, code points below U+0800
//
// every kind alone (all placements): all of these inputs. Mixtures of two children: quick on the
// specials, single bytes, alphabet strings and non-string values, thorough on all inputs. Mixtures of
// three: quick on the specials, thorough also on the single bytes and the non-string values.
func bodyBlocks(thorough bool) []block {
	never := func(int) bool { return false }
	if thorough {
		return buildBlocks(blockCfg{L: 3, bytesLen: 1, refsLen: 2, maxRep: 4097, long: false, cpEnd: 0x800, cpAlone: never, cpCore: never})
	}
	return buildBlocks(blockCfg{L: 2, bytesLen: 1, refsLen: 1, maxRep: 65, long: false, cpEnd: 0x100, cpAlone: never, cpCore: never})
}

func bodyPairs(b block, thorough bool) bool {
	return thorough || b.family == "special" || b.family == "bytes1" || b.family == "alpha"
}

func bodyTriples(b block, thorough bool) bool {
	return b.family == "special" || thorough && b.family == "bytes1"
}
