// Multi-tag family: sequences of two (thorough: also three) constructs from a tag alphabet, written one
// after the other with literal text in between, every subset of ALL delimiters of the sequence dashed
// (including the "every delimiter dashed" house style). The single-construct bases of corpus.go give
// every tag its own dash subsets; this family adds the dimension "what FOLLOWS / PRECEDES the dashed
// tag": a handler that looks beyond its own closing delimiter (look-ahead for '=', for the end tag, for
// a keyword) only misbehaves when a particular other tag stands later in the same template and no plain
// delimiter stops it in between.
//
// The templates are ordinary `base` values, so printer, hand-trimmed twin, model and oracle are the
// ones of the single-construct corpus.
package main

import (
	"fmt"

	"verif/lib/vlib"
)

// unit: one construct of the alphabet. Text indices in out are relative to the unit's first segment.
// Constructs whose effect is otherwise invisible carry the print tag that shows it (set, import, from).
// '#' in a tag body is replaced by the position of the unit in the sequence (block names must differ).
type unit struct {
	name string
	segs []seg
	out  []interface{}
}

var units = []unit{
	{"print", []seg{V("a")}, o("A")},
	{"set", []seg{B("set v = 1"), T("@"), V("v")}, o(1, "1")},
	{"do", []seg{B("do 1 + 1")}, nil},
	{"doname", []seg{B("do a")}, nil},
	{"include", []seg{B("include 'inc'")}, o("IA")},
	{"import", []seg{B("import 'lib' as l"), T("@"), V("l.m()")}, o(1, "M")},
	{"from", []seg{B("from 'lib' import m"), T("@"), V("m()")}, o(1, "M")},
	{"if", []seg{B("if x"), T("@y@"), B("endif")}, o(1)},
	{"for", []seg{B("for i in xs"), T("@y@"), B("endfor")}, o(1, 1)},
	{"block", []seg{B("block k#"), T("@y@"), B("endblock")}, o(1)},
	{"apply", []seg{B("apply upper"), T("@y@"), B("endapply")}, o(up(1))},
	{"comment", []seg{C(" c ")}, nil},
}

var betweenCores = []string{"m", "n"}

// sequence builds the base  p@ U1 @m@ U2 [@n@ U3] @q  for the given unit indices.
func sequence(us []int) *base {
	b := &base{}
	add := func(s seg) int { b.segs = append(b.segs, s); return len(b.segs) - 1 }
	b.out = append(b.out, add(T("p@")))
	for pos, ui := range us {
		u := &units[ui]
		if pos > 0 {
			b.name += "+"
			b.out = append(b.out, add(T("@"+betweenCores[pos-1]+"@")))
		}
		b.name += u.name
		off := len(b.segs)
		for _, s := range u.segs {
			if s.k == 'b' {
				body := []byte(s.s)
				for i, c := range body {
					if c == '#' {
						body[i] = byte('1' + pos)
					}
				}
				s.s = string(body)
			}
			add(s)
		}
		for _, it := range u.out {
			switch v := it.(type) {
			case int:
				b.out = append(b.out, v+off)
			case up:
				b.out = append(b.out, up(int(v)+off))
			default:
				b.out = append(b.out, it)
			}
		}
	}
	b.out = append(b.out, add(T("@q")))
	return b
}

type uniformFill struct {
	shape  int
	ia, ib int // indices into the whitespace lists (part of the key)
	wa, wb string
}

func uniformFills(leads, trails []string) []uniformFill {
	var r []uniformFill
	for shape := 0; shape < 3; shape++ {
		for ia, wa := range leads {
			for ib, wb := range trails {
				r = append(r, uniformFill{shape, ia, ib, wa, wb})
			}
		}
	}
	return r
}

// whitespace lists of the multi-tag family (own lists: the keys name the list and the index)
var wsSeqSmall = []string{"", " \n"} // fill tag "a": lead x trail from this list
var wsSeqLead = []string{" \n"}      // fill tag "c": one combination, lead " \n", trail "\t "
var wsSeqTrail = []string{"\t "}     //

// runSequences enumerates every ordered sequence of n units x every dash subset (all 2^d up to d = 10
// delimiters, above that all subsets of size <= 3 and the full set) x the given spellings and fillings.
func runSequences(t *vlib.T, n int, family string, styles []int, fillTag string, fills []uniformFill) bool {
	idx := make([]int, n)
	for {
		b := sequence(idx)
		class := family + "/" + b.name
		if n > 2 {
			class = family + "/" + units[idx[0]].name
		}
		masks := b.masks()
		for _, style := range styles {
			style := style
			for _, f := range fills {
				texts := b.fillUniform(f.shape, f.wa, f.wb)
				for _, m := range masks {
					m := m
					key := fmt.Sprintf("%s/%s/%s/%s%d.%d.%d/m%d", family, b.name, styleNames[style], fillTag, f.shape, f.ia, f.ib, m)
					t.Case(key, func() *vlib.Outcome { return runCase(b, class, texts, m, style) })
				}
			}
			if t.Stopped() {
				return false
			}
		}
		k := n - 1
		for k >= 0 {
			idx[k]++
			if idx[k] < len(units) {
				break
			}
			idx[k] = 0
			k--
		}
		if k < 0 {
			return true
		}
	}
}
