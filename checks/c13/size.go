// Size family: the per-tag, per-side dash cases of the single-construct corpus inside a LARGE template.
// Every other family renders templates of a few dozen tokens (the 4100-byte comment of runCase adds bytes,
// not tokens), so anything that depends on the NUMBER of tokens of the template - growth of the token buffer,
// pooled buffers, a result that is copied above some size - is never reached (seeded change C13-K: above 1000
// tokens the tokenizer hands out a detached copy of the token buffer and the trimming works on the abandoned
// one, so no dash trims anything).
//
// Template: M dash-free print tags `{{ a }}` (3 tokens each, no text in between; plus r = 0, 1, 2 one-letter
// texts between the outermost padding tags, one token each, so that the totals step by ONE token) written
// before ("pre") or after ("post") a base of the corpus, for every base that starts with text and parses x every single
// dashed delimiter (each tag, each side) and the all-dashed subset x one filling with whitespace on both
// sides of every tag. M runs through every value of the windows around the token boundaries 1000, 1024, 2048
// (thorough: 4096, 8192), wide enough that for every base the total crosses the boundary,
// plus, per case, the two values of M that put the byte length of the template just below / just above 4096
// (the tokenizer switch), plus one large M. Oracle unchanged: dashed == hand-trimmed twin == model, dashed
// parses, and the same behind the 4100-byte comment.
package main

import (
	"fmt"
	"strings"

	"github.com/semihalev/twig"

	"verif/lib/vlib"
)

func newEngine() *twig.Engine {
	e := twig.New()
	for _, h := range helpers {
		e.RegisterString(h[0], h[1])
	}
	return e
}

const padTag = "{{ a }}" // 7 bytes, 3 tokens, prints "A"

// windows of M (number of padding tags) around the token boundaries; a base has between 4 and ~50 tokens
func sizeWindows(thorough bool) []int {
	bounds := []int{1000, 1024, 2048}
	if thorough {
		bounds = append(bounds, 4096, 8192)
	}
	var r []int
	seen := map[int]bool{}
	for _, b := range bounds {
		for m := (b - 54) / 3; m <= b/3+1; m++ {
			if !seen[m] {
				seen[m] = true
				r = append(r, m)
			}
		}
	}
	r = append(r, 1500) // far above every boundary of the quick tier (4500 tokens, 10.5 kB)
	return r
}

func sizeMasks(b *base) []uint {
	n := uint(2 * len(b.tagIdx()))
	var r []uint
	for i := uint(0); i < n; i++ {
		r = append(r, 1<<i)
	}
	if n > 1 {
		r = append(r, 1<<n-1)
	}
	return r
}

// padding returns m padding tags with r (0..2) one-letter texts between them (r extra tokens), written so
// that the letters never touch the base's own first / last text, and what the padding prints.
func padding(m, r int, post bool) (src, out string) {
	parts := make([]string, 0, m+2)
	outs := make([]string, 0, m+2)
	for i := 0; i < m; i++ {
		if !post && i < r {
			parts, outs = append(parts, "z"), append(outs, "z")
		}
		parts, outs = append(parts, padTag), append(outs, "A")
		if post && i >= m-r {
			parts, outs = append(parts, "z"), append(outs, "z")
		}
	}
	return strings.Join(parts, ""), strings.Join(outs, "")
}

func runSizeCase(b *base, texts []string, mask uint, post bool, m, r int) *vlib.Outcome {
	dashed, twin, trimmed, removed := b.build(texts, mask, styleSpaced)
	pad, padOut := padding(m, r, post)
	var want string
	if post {
		dashed, twin = dashed+pad, twin+pad
		want = "OK:" + b.model(trimmed) + padOut
	} else {
		dashed, twin = pad+dashed, pad+twin
		want = "OK:" + padOut + b.model(trimmed)
	}
	e := newEngine()
	rd := renderOn(e, "d", dashed)
	rt := renderOn(e, "t", twin)
	rb := renderOn(e, "b", bigPrefix+dashed)
	o := &vlib.Outcome{Nontrivial: removed > 0, Counters: map[string]int64{"renders": 3, "whitespace_bytes_to_trim": int64(removed)}}
	cl := "dash-nothing-to-trim"
	if removed > 0 {
		cl = "dash-trims"
	}
	o.Class = "size/" + b.name + "/" + cl + "/" + kind(rd)
	short := func(s string) string {
		if len(s) > 300 {
			return fmt.Sprintf("%s ...[%d bytes]... %s", s[:120], len(s)-240, s[len(s)-120:])
		}
		return s
	}
	fail := func(msg string) *vlib.Outcome {
		o.Violation = fmt.Sprintf("%s (%d padding tags %s, %d bytes)\n dashed  %q -> %q\n twin    %q -> %q\n dashed behind a 4100-byte comment -> %q",
			msg, m, map[bool]string{false: "before", true: "after"}[post], len(dashed), short(dashed), short(rd), short(twin), short(rt), short(rb))
		o.Detail = map[string]string{"dashed": dashed, "twin": twin, "got_dashed": rd, "got_twin": rt, "got_big": rb}
		return o
	}
	if kind(rt) != "OK" {
		return fail("the undashed twin does not render (harness or unrelated defect)")
	}
	if kind(rd) == "PARSEERR" {
		return fail("the dash changes whether the template parses")
	}
	if rd != rt {
		return fail("dashed output differs from the hand-trimmed twin")
	}
	if !b.noModel && rt != want {
		return fail(fmt.Sprintf("output differs from the model %q", short(want)))
	}
	if rb != rd {
		return fail("the same dashed template renders differently behind a 4100-byte comment")
	}
	return o
}

func runSizes(t *vlib.T) bool {
	ms := sizeWindows(t.Thorough())
	for bi := range bases {
		b := &bases[bi]
		if b.bad || b.segs[0].k != 't' {
			continue // extends must stay the first tag of its template
		}
		texts := b.fillUniform(0, " \n", "\t ")
		for _, mask := range sizeMasks(b) {
			mask := mask
			d0, _, _, _ := b.build(texts, mask, styleSpaced)
			mb := (4096 - len(d0)) / len(padTag) // largest M with at most 4096 bytes
			for _, post := range []bool{false, true} {
				post := post
				pos := "pre"
				if post {
					pos = "post"
				}
				for _, m := range ms {
					m := m
					for r := 0; r < 3; r++ {
						r := r
						key := fmt.Sprintf("size/%s/%s/n%d/m%d", b.name, pos, m, mask)
						if r > 0 {
							key = fmt.Sprintf("size/%s/%s/n%d+%d/m%d", b.name, pos, m, r, mask)
						}
						t.Case(key, func() *vlib.Outcome { return runSizeCase(b, texts, mask, post, m, r) })
					}
				}
				for k := 0; k < 2; k++ {
					m := mb + k
					key := fmt.Sprintf("size/%s/%s/b%d/m%d", b.name, pos, k, mask)
					t.Case(key, func() *vlib.Outcome { return runSizeCase(b, texts, mask, post, m, 0) })
				}
			}
			if t.Stopped() {
				return false
			}
		}
	}
	return true
}
