// Brace family: the literal text next to a dashed tag contains brace characters that do NOT start a
// tag (inline CSS, JSON, JavaScript: `a { b`, `{x}`, `.c{color:red}`, `{"k": 1}`, `{ { z`, `a{b - {c`).
// The other families fill the text slots with letters and whitespace only, so the tokenizer's search for
// the next tag opener always hits a real opener first; a lone `{` in front of a dashed opener (or behind
// a dashed closer) makes that search skip a candidate before it tests for the dash - a dimension of its
// own (seeded change C13-I: the dash tested at the wrong offset after a lone brace was skipped).
//
// Every base of the single-construct corpus (every tag kind, every opening / middle / closing tag) x every
// dash subset x spelling x brace core x which slots carry the core x whitespace around the core; thorough:
// also every ordered pair of the multi-tag alphabet. Printer, hand-trimmed twin, model and oracle are
// those of the other families (runCase renders dashed, twin and dashed behind a 4100-byte comment, so
// every case is decided below and above 4096 bytes).
//
// No core ends in `{` and none begins with `%`, `#`, `{` after a `{`: `{` + `{{ a }}` would spell `{{{`,
// whose reading the statement does not determine.
package main

import (
	"fmt"
	"strings"

	"verif/lib/vlib"
)

var braceCores = []string{"a { b", "{x}", ".c{color:red}", "{\"k\": 1}", "{ { z", "a{b - {c"}

// whitespace around the core (own list: the keys name the index)
var wsBrace = []string{"", " \n"}
var wsBraceThorough = []string{"", " \n", " ", " \t\r\n ", "\v"}

// fillBrace: like fillUniform shape 0, but the core of a text slot is the brace core.
//
//	which == -1: every slot that has a core in the base (p@, @y@, @q, ...) gets the brace core;
//	             whitespace-only slots (@) stay whitespace-only;
//	which == -2: every slot, also the whitespace-only ones (wa + core + wb);
//	which >= 0 : only the which-th text slot gets the brace core (also when it is a whitespace-only
//	             slot), the others keep their letters.
func (b *base) fillBrace(core string, which int, wa, wb string) []string {
	texts := make([]string, len(b.segs))
	n := -1
	for i, s := range b.segs {
		if s.k != 't' {
			continue
		}
		n++
		p := s.s
		lead := strings.HasPrefix(p, "@")
		trail := strings.HasSuffix(p, "@")
		c := strings.Trim(p, "@")
		switch {
		case which == -1 && c != "", which == -2, which == n:
			c = core
		}
		t := c
		if lead {
			t = wa + t
		}
		if trail {
			t = t + wb
		}
		texts[i] = t
	}
	return texts
}

func runBraceBase(t *vlib.T, b *base, class string, keyPrefix string, styles []int, whiches []int, ws []string) bool {
	masks := b.masks()
	for _, style := range styles {
		if !b.styleOK(style) {
			continue
		}
		style := style
		for ci, core := range braceCores {
			for _, which := range whiches {
				wn := "s" + fmt.Sprint(which)
				switch which {
				case -1:
					wn = "cores"
				case -2:
					wn = "all"
				}
				for ia, wa := range ws {
					for ib, wb := range ws {
						texts := b.fillBrace(core, which, wa, wb)
						for _, m := range masks {
							m := m
							key := fmt.Sprintf("%s/%s/g%d.%s.%d.%d/m%d", keyPrefix, styleNames[style], ci, wn, ia, ib, m)
							t.Case(key, func() *vlib.Outcome { return runCase(b, class, texts, m, style) })
						}
					}
					if t.Stopped() {
						return false
					}
				}
			}
		}
	}
	return true
}

// runBraces: every base x {cores, all} x three spellings x wsBrace^2 (both tiers).
func runBraces(t *vlib.T, styles []int) bool {
	for bi := range bases {
		b := &bases[bi]
		if !runBraceBase(t, b, "brace/"+b.name, "brace/"+b.name, styles, []int{-1, -2}, wsBrace) {
			return false
		}
	}
	return true
}

// runBracesThorough: every single slot alone (spaced), the wider whitespace list (spaced, cores/all), and
// every ordered pair of the multi-tag alphabet (spaced, cores, wsBrace^2).
func runBracesThorough(t *vlib.T) bool {
	for bi := range bases {
		b := &bases[bi]
		var single []int
		for k := range b.textIdx() {
			single = append(single, k)
		}
		if !runBraceBase(t, b, "brace/"+b.name, "brace1/"+b.name, []int{styleSpaced}, single, wsBrace) {
			return false
		}
		if !runBraceBase(t, b, "brace/"+b.name, "bracew/"+b.name, []int{styleSpaced}, []int{-1, -2}, wsBraceThorough) {
			return false
		}
	}
	idx := []int{0, 0}
	for {
		b := sequence(idx)
		if !runBraceBase(t, b, "bracepair/"+units[idx[0]].name, "bracepair/"+b.name, []int{styleSpaced}, []int{-1}, wsBrace) {
			return false
		}
		k := 1
		for k >= 0 {
			idx[k]++
			if idx[k] < len(units) {
				break
			}
			idx[k] = 0
			k--
		}
		if k < 0 {
			return true
		}
	}
}
