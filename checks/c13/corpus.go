// Corpus shared (by copy) between the C13 and C14 checks: base templates that together contain every
// tag kind and every opening / middle / closing tag of every block construct, their printer (which
// delimiters carry a dash, tag spelling), whitespace fillings, the hand-trimming twin and the model.
package main

import "strings"

// ---- corpus ---------------------------------------------------------------------------------

type seg struct {
	k byte   // 't' literal text, 'v' print tag, 'b' block tag, 'c' comment (never carries a dash)
	s string // text pattern ('@' = whitespace slot) or tag body
}

func T(s string) seg { return seg{'t', s} }
func V(s string) seg { return seg{'v', s} }
func B(s string) seg { return seg{'b', s} }
func C(s string) seg { return seg{'c', s} }

type up int // output item: text segment, upper-cased

type base struct {
	name    string
	segs    []seg
	out     []interface{} // int: text segment index; string: literal; up: upper-cased text segment
	noModel bool          // body is transformed by a filter whose definition is not part of C13 (spaceless)
	bad     bool          // the base does not parse; neither may any dashed variant
}

var ctx = map[string]interface{}{
	"x": true, "n": false, "xs": []interface{}{1, 2}, "e": []interface{}{}, "a": "A", "w": " W ",
}

var helpers = [][2]string{
	{"inc", "I{{ a }}"},
	{"base", "[{% block k %}K{% endblock %}]"},
	{"lib", "{% macro m() %}M{% endmacro %}"},
}

func o(items ...interface{}) []interface{} { return items }

var bases = []base{
	{name: "print", segs: []seg{T("p@"), V("a"), T("@q")}, out: o(0, "A", 2)},
	{name: "print2", segs: []seg{T("p@"), V("w"), T("@"), V("a"), T("@q")}, out: o(0, " W ", 2, "A", 4)},
	{name: "printexpr", segs: []seg{T("p@"), V("a ~ 'b'"), T("@q")}, out: o(0, "Ab", 2)},
	{name: "printminus", segs: []seg{T("p@"), V("3 - 1"), T("@q")}, out: o(0, "2", 2)},
	{name: "printneg", segs: []seg{T("p@"), V("-1"), T("@q")}, out: o(0, "-1", 2)},
	{name: "printfilter", segs: []seg{T("p@"), V("a|lower"), T("@q")}, out: o(0, "a", 2)},
	{name: "printcond", segs: []seg{T("p@"), V("x ? 'y' : 'n'"), T("@q")}, out: o(0, "y", 2)},
	{name: "printstr", segs: []seg{T("p@"), V("'-'"), T("@q")}, out: o(0, "-", 2)},
	{name: "if", segs: []seg{T("p@"), B("if x"), T("@y@"), B("endif"), T("@q")}, out: o(0, 2, 4)},
	{name: "iffalse", segs: []seg{T("p@"), B("if n"), T("@y@"), B("endif"), T("@q")}, out: o(0, 4)},
	{name: "ifexpr", segs: []seg{T("p@"), B("if xs|length > 1"), T("@y@"), B("endif"), T("@q")}, out: o(0, 2, 4)},
	{name: "ifelse", segs: []seg{T("p@"), B("if n"), T("@y@"), B("else"), T("@z@"), B("endif"), T("@q")}, out: o(0, 4, 6)},
	{name: "ifelsetrue", segs: []seg{T("p@"), B("if x"), T("@y@"), B("else"), T("@z@"), B("endif"), T("@q")}, out: o(0, 2, 6)},
	{name: "elseif", segs: []seg{T("p@"), B("if n"), T("@y@"), B("elseif x"), T("@z@"), B("else"), T("@w@"), B("endif"), T("@q")}, out: o(0, 4, 8)},
	{name: "elseifelse", segs: []seg{T("p@"), B("if n"), T("@y@"), B("elseif n"), T("@z@"), B("else"), T("@w@"), B("endif"), T("@q")}, out: o(0, 6, 8)},
	{name: "for", segs: []seg{T("p@"), B("for i in xs"), T("@"), V("i"), T("@"), B("endfor"), T("@q")}, out: o(0, 2, "1", 4, 2, "2", 4, 6)},
	{name: "forkv", segs: []seg{T("p@"), B("for k, v in xs"), T("@"), V("v"), T("@"), B("endfor"), T("@q")}, out: o(0, 2, "1", 4, 2, "2", 4, 6)},
	{name: "forelse", segs: []seg{T("p@"), B("for i in e"), T("@y@"), B("else"), T("@z@"), B("endfor"), T("@q")}, out: o(0, 4, 6)},
	{name: "forelsefull", segs: []seg{T("p@"), B("for i in xs"), T("@y@"), B("else"), T("@z@"), B("endfor"), T("@q")}, out: o(0, 2, 2, 6)},
	{name: "set", segs: []seg{T("p@"), B("set v = 1"), T("@"), V("v"), T("@q")}, out: o(0, 2, "1", 4)},
	{name: "setexpr", segs: []seg{T("p@"), B("set v = a ~ 'b'"), T("@"), V("v"), T("@q")}, out: o(0, 2, "Ab", 4)},
	{name: "setminus", segs: []seg{T("p@"), B("set v = 3 - 1"), T("@"), V("v"), T("@q")}, out: o(0, 2, "2", 4)},
	{name: "do", segs: []seg{T("p@"), B("do 1 + 1"), T("@q")}, out: o(0, 2)},
	{name: "block", segs: []seg{T("p@"), B("block k"), T("@y@"), B("endblock"), T("@q")}, out: o(0, 2, 4)},
	{name: "blocknamed", segs: []seg{T("p@"), B("block k"), T("@y@"), B("endblock k"), T("@q")}, out: o(0, 2, 4)},
	{name: "extends", segs: []seg{B("extends 'base'"), T("@"), B("block k"), T("@y@"), B("endblock"), T("@")}, out: o("[", 3, "]")},
	{name: "include", segs: []seg{T("p@"), B("include 'inc'"), T("@q")}, out: o(0, "IA", 2)},
	{name: "includewith", segs: []seg{T("p@"), B("include 'inc' with {'a': 1}"), T("@q")}, out: o(0, "I1", 2)},
	{name: "includeonly", segs: []seg{T("p@"), B("include 'inc' with {'a': 1} only"), T("@q")}, out: o(0, "I1", 2)},
	{name: "import", segs: []seg{T("p@"), B("import 'lib' as l"), T("@"), V("l.m()"), T("@q")}, out: o(0, 2, "M", 4)},
	{name: "from", segs: []seg{T("p@"), B("from 'lib' import m"), T("@"), V("m()"), T("@q")}, out: o(0, 2, "M", 4)},
	{name: "macro", segs: []seg{T("p@"), B("macro f()"), T("@y@"), B("endmacro"), T("@"), V("f()"), T("@q")}, out: o(0, 4, 2, 6)},
	{name: "macroargs", segs: []seg{T("p@"), B("macro g(p, q = 'd')"), T("@"), V("p"), T("@"), V("q"), T("@"), B("endmacro"), T("@"), V("g(1)"), T("@q")},
		out: o(0, 8, 2, "1", 4, "d", 6, 10)},
	{name: "apply", segs: []seg{T("p@"), B("apply upper"), T("@y@"), B("endapply"), T("@q")}, out: o(0, up(2), 4)},
	{name: "spaceless", segs: []seg{T("p@"), B("spaceless"), T("@<a> <b>@"), B("endspaceless"), T("@q")}, noModel: true},
	{name: "verbatim", segs: []seg{T("p@"), B("verbatim"), T("@y@"), B("endverbatim"), T("@q")}, out: o(0, 2, 4)},
	{name: "nested", segs: []seg{T("p@"), B("for i in xs"), T("@"), B("if x"), T("@"), V("i"), T("@"), B("endif"), T("@"), B("endfor"), T("@q")},
		out: o(0, 2, 4, "1", 6, 8, 2, 4, "2", 6, 8, 10)},
	{name: "comment", segs: []seg{T("p@"), C(" c "), T("@"), V("a"), T("@"), C(" d "), T("@q")}, out: o(0, 2, "A", 4, 6)},
	{name: "badunclosed", segs: []seg{T("p@"), B("if x"), T("@y@q")}, bad: true},
	{name: "badunknown", segs: []seg{T("p@"), B("nosuchtag"), T("@q")}, bad: true},
}

// ---- printing -------------------------------------------------------------------------------

const (
	styleSpaced = iota // {{- a -}}
	styleTight         // {{-a-}}
	styleWide          // {{-\n a\t\n-}}
)

var styleNames = []string{"spaced", "tight", "wide"}

func (b *base) tagIdx() []int {
	var r []int
	for i, s := range b.segs {
		if s.k == 'v' || s.k == 'b' {
			r = append(r, i)
		}
	}
	return r
}

func (b *base) textIdx() []int {
	var r []int
	for i, s := range b.segs {
		if s.k == 't' {
			r = append(r, i)
		}
	}
	return r
}

// styleOK: a tight tag whose body begins with '-' would spell a dash itself ({{-1}}).
func (b *base) styleOK(style int) bool {
	if style != styleTight {
		return true
	}
	for _, s := range b.segs {
		if (s.k == 'v' || s.k == 'b') && (strings.HasPrefix(s.s, "-") || strings.HasSuffix(s.s, "-")) {
			return false
		}
	}
	return true
}

func tagSrc(s seg, l, r bool, style int) string {
	op, cl := "{{", "}}"
	if s.k == 'b' {
		op, cl = "{%", "%}"
	}
	if l {
		op += "-"
	}
	if r {
		cl = "-" + cl
	}
	switch style {
	case styleTight:
		return op + s.s + cl
	case styleWide:
		return op + "\n " + s.s + "\t\n" + cl
	}
	return op + " " + s.s + " " + cl
}

const wsChars = " \t\r\n"

// build returns the dashed source, the hand-trimmed undashed twin, the hand-trimmed texts and the
// number of whitespace bytes the dashes have to remove.
func (b *base) build(texts []string, mask uint, style int) (dashed, twin string, trimmed []string, removed int) {
	trimmed = append([]string{}, texts...)
	type lr struct{ l, r bool }
	d := make([]lr, len(b.segs))
	bit := uint(0)
	for i, s := range b.segs {
		if s.k != 'v' && s.k != 'b' {
			continue
		}
		d[i].l = mask&(1<<bit) != 0
		bit++
		d[i].r = mask&(1<<bit) != 0
		bit++
		if d[i].l && i > 0 && b.segs[i-1].k == 't' {
			trimmed[i-1] = strings.TrimRight(trimmed[i-1], wsChars)
		}
		if d[i].r && i+1 < len(b.segs) && b.segs[i+1].k == 't' {
			trimmed[i+1] = strings.TrimLeft(trimmed[i+1], wsChars)
		}
	}
	var sd, st strings.Builder
	for i, s := range b.segs {
		switch s.k {
		case 't':
			sd.WriteString(texts[i])
			st.WriteString(trimmed[i])
			removed += len(texts[i]) - len(trimmed[i])
		case 'c':
			sd.WriteString("{#" + s.s + "#}")
			st.WriteString("{#" + s.s + "#}")
		default:
			sd.WriteString(tagSrc(s, d[i].l, d[i].r, style))
			st.WriteString(tagSrc(s, false, false, style))
		}
	}
	return sd.String(), st.String(), trimmed, removed
}

func (b *base) model(trimmed []string) string {
	var sb strings.Builder
	for _, it := range b.out {
		switch v := it.(type) {
		case int:
			sb.WriteString(trimmed[v])
		case up:
			sb.WriteString(strings.ToUpper(trimmed[int(v)]))
		case string:
			sb.WriteString(v)
		}
	}
	return sb.String()
}

// ---- fillings -------------------------------------------------------------------------------

// The last entries are NOT whitespace for the property (vertical tab, form feed, NBSP, NEL, EM
// SPACE): a dash must leave them alone and must stop trimming at them.
var wsQuick = []string{"", " ", "\n", " \t\r\n ", "\v", " \u00a0 "}
var wsThorough = []string{"", " ", "\n", "\t", "\r\n", " \t\r\n ", "\v", " \u00a0 ", "\f\n", " \u0085", "\u2003 "}

// uniform filling: every text pattern gets the same leading whitespace wa (the run a closing dash
// of the tag before it removes) and trailing whitespace wb (the run an opening dash of the tag after
// it removes). shape 0: cores kept; 1: inner texts are whitespace only; 2: inner texts are empty
// (tags adjacent to tags: a dash has nothing to trim and must not reach beyond the neighbouring tag).
func (b *base) fillUniform(shape int, wa, wb string) []string {
	texts := make([]string, len(b.segs))
	for i, s := range b.segs {
		if s.k != 't' {
			continue
		}
		p := s.s
		lead := strings.HasPrefix(p, "@")
		trail := strings.HasSuffix(p, "@") && len(p) > 1
		if p == "@" {
			trail = true
		}
		core := strings.Trim(p, "@")
		inner := i > 0 && i < len(b.segs)-1
		if inner && shape >= 1 {
			core = ""
		}
		if inner && shape == 2 {
			continue
		}
		t := core
		if lead {
			t = wa + t
		}
		if trail {
			t = t + wb
		}
		texts[i] = t
	}
	return texts
}

// independent filling (thorough): every text slot draws its own text.
var indep5 = []string{"", " \n", "x", " x ", "\t\r\n x \n"}
var indep4 = []string{"", " ", "x", " x\n"}
var indep3 = []string{"", " ", " x "}

func (b *base) masks() []uint {
	n := uint(2 * len(b.tagIdx()))
	var r []uint
	if n <= 10 {
		for m := uint(0); m < 1<<n; m++ {
			r = append(r, m)
		}
		return r
	}
	// more than 10 delimiters: all subsets of size <= 3 and the full set
	for m := uint(0); m < 1<<n; m++ {
		c := 0
		for x := m; x != 0; x &= x - 1 {
			c++
		}
		if c <= 3 || m == 1<<n-1 {
			r = append(r, m)
		}
	}
	return r
}
