// C13 — whitespace-control dashes trim adjacent whitespace and change nothing else.
//
// Bounded-exhaustive enumeration: a corpus of base templates that together contain every tag kind
// and every opening / middle / closing tag of every block construct; for each base EVERY subset of
// its tag delimiters carries a dash, crossed with every whitespace filling of the neighbouring text
// (inside the stated bounds) and with the spelling of the tag (spaced / tight / multi-line).
//
// Oracle (the property's own twin + a boring model):
//
//	render(dashed) == render(same template, dashes removed, trimmed whitespace deleted by hand)
//	               == model(hand-trimmed texts)
//	dashed parses  <=> undashed parses
//	render(4100-byte comment + dashed) == render(dashed)     (second tokenizer, > 4096 bytes)
//
// Brace family (brace.go): the same bases with text slots that contain braces which do not start a tag
// (CSS, JSON, JavaScript), every dash subset, three spellings.
//
// Size family (size.go): single dashed delimiters and the all-dashed subset of every base inside a template of
// about 1000 / 1024 / 2048 tokens (thorough: 4096, 8192) and of about 4096 bytes (dash-free padding tags).
//
// Multi-tag family (multi.go): every ordered pair (thorough: also every ordered triple) of constructs
// from a 12-entry tag alphabet, written one after the other with text in between, every subset of all
// delimiters of the sequence dashed - what follows or precedes a dashed tag is a dimension of its own.
package main

import (
	"fmt"
	"strings"

	"github.com/semihalev/twig"

	"verif/lib/vlib"
)

// ---- running twig ---------------------------------------------------------------------------

var bigPrefix = "{#" + strings.Repeat("c", 4100) + "#}"

func renderOn(e *twig.Engine, name, src string) (res string) {
	defer func() {
		if r := recover(); r != nil {
			res = fmt.Sprintf("PANIC %v", r)
		}
	}()
	if err := e.RegisterString(name, src); err != nil {
		return "PARSEERR " + err.Error()
	}
	out, err := e.Render(name, ctx)
	if err != nil {
		return "ERR " + err.Error()
	}
	return "OK:" + out
}

func kind(r string) string {
	if i := strings.IndexAny(r, " :"); i > 0 {
		return r[:i]
	}
	return r
}

func runCase(b *base, class string, texts []string, mask uint, style int) *vlib.Outcome {
	dashed, twin, trimmed, removed := b.build(texts, mask, style)
	e := twig.New()
	for _, h := range helpers {
		e.RegisterString(h[0], h[1])
	}
	rd := renderOn(e, "d", dashed)
	rt := renderOn(e, "t", twin)
	rb := renderOn(e, "b", bigPrefix+dashed)
	o := &vlib.Outcome{Nontrivial: removed > 0, Counters: map[string]int64{"renders": 3, "whitespace_bytes_to_trim": int64(removed)}}
	cl := "nodash"
	if mask != 0 {
		cl = "dash-nothing-to-trim"
		if removed > 0 {
			cl = "dash-trims"
		}
	}
	o.Class = class + "/" + cl + "/" + kind(rd)
	fail := func(msg string) *vlib.Outcome {
		o.Violation = fmt.Sprintf("%s\n dashed  %q -> %.200q\n twin    %q -> %.200q\n dashed behind a 4100-byte comment -> %.200q", msg, dashed, rd, twin, rt, rb)
		o.Detail = map[string]string{"dashed": dashed, "twin": twin, "got_dashed": rd, "got_twin": rt, "got_big": rb}
		return o
	}
	if b.bad {
		if kind(rd) != "PARSEERR" || kind(rt) != "PARSEERR" || kind(rb) != "PARSEERR" {
			return fail("a template that does not parse must not parse with dashes either")
		}
		return o
	}
	if kind(rt) != "OK" {
		return fail("the undashed twin does not render (harness or unrelated defect)")
	}
	if kind(rd) == "PARSEERR" {
		return fail("the dash changes whether the template parses")
	}
	if rd != rt {
		return fail("dashed output differs from the hand-trimmed twin")
	}
	if !b.noModel {
		if want := "OK:" + b.model(trimmed); rt != want {
			return fail(fmt.Sprintf("output differs from the model %q", want))
		}
	}
	if rb != rd {
		return fail("the same dashed template renders differently above 4096 bytes")
	}
	return o
}

// ---- enumeration ----------------------------------------------------------------------------

func pow(a, n int) int {
	r := 1
	for i := 0; i < n; i++ {
		r *= a
	}
	return r
}

func run(t *vlib.T) {
	ws := wsQuick
	styles := []int{styleSpaced, styleTight, styleWide}
	if t.Thorough() {
		ws = wsThorough
	}
	// pass 1: uniform fillings, every dash subset, every style
	for bi := range bases {
		b := &bases[bi]
		masks := b.masks()
		for _, style := range styles {
			if !b.styleOK(style) {
				continue
			}
			for shape := 0; shape < 3; shape++ {
				for ia, wa := range ws {
					for ib, wb := range ws {
						texts := b.fillUniform(shape, wa, wb)
						for _, m := range masks {
							m := m
							key := fmt.Sprintf("%s/%s/u%d.%d.%d/m%d", b.name, styleNames[style], shape, ia, ib, m)
							t.Case(key, func() *vlib.Outcome { return runCase(b, b.name, texts, m, style) })
						}
						if t.Stopped() {
							return
						}
					}
				}
			}
		}
	}
	// pass 1b: multi-tag sequences (multi.go): every ordered pair of constructs of the tag alphabet,
	// every dash subset over all delimiters of the pair, three spellings, uniform fillings.
	if !runSequences(t, 2, "pair", styles, "a", uniformFills(wsSeqSmall, wsSeqSmall)) {
		return
	}
	if t.Thorough() {
		if !runSequences(t, 2, "pair", []int{styleSpaced}, "q", uniformFills(wsQuick, wsQuick)) {
			return
		}
	}
	// pass 1c: brace family (brace.go): the literal text around the tags contains braces that do not start
	// a tag; every base, every dash subset, three spellings.
	if !runBraces(t, styles) {
		return
	}
	// pass 1d: size family (size.go): single dashed delimiters and the all-dashed subset of every base
	// inside a template of about 1000 / 1024 / 2048 (thorough: 4096, 8192) tokens and around 4096 bytes.
	if !runSizes(t) {
		return
	}
	// pass 2: every text slot draws its own text independently of the others.
	// quick: 3 texts per slot, bases with at most 8 delimiters; thorough: 5 texts per slot
	// (4 where that exceeds 10^6 cases for one base).
	for bi := range bases {
		b := &bases[bi]
		masks := b.masks()
		slots := b.textIdx()
		alpha, an := indep3, "i3"
		if t.Thorough() {
			alpha, an = indep5, "i5"
			if len(masks)*pow(5, len(slots)) > 1_000_000 {
				alpha, an = indep4, "i4"
			}
		} else if len(b.tagIdx()) > 4 {
			continue
		}
		idx := make([]int, len(slots))
		for {
			texts := make([]string, len(b.segs))
			var id strings.Builder
			for k, si := range slots {
				texts[si] = alpha[idx[k]]
				id.WriteByte(byte('0' + idx[k]))
			}
			for _, m := range masks {
				m := m
				key := fmt.Sprintf("%s/spaced/%s.%s/m%d", b.name, an, id.String(), m)
				t.Case(key, func() *vlib.Outcome { return runCase(b, b.name, texts, m, styleSpaced) })
			}
			if t.Stopped() {
				return
			}
			k := 0
			for k < len(idx) {
				idx[k]++
				if idx[k] < len(alpha) {
					break
				}
				idx[k] = 0
				k++
			}
			if k == len(idx) {
				break
			}
		}
	}
	// pass 3 (thorough): every ordered triple of constructs, every dash subset (up to 10 delimiters;
	// 12 delimiters: all subsets of size <= 3 and the all-dashed one), one filling per slot shape.
	if t.Thorough() {
		if !runBracesThorough(t) {
			return
		}
		runSequences(t, 3, "triple", []int{styleSpaced}, "c", uniformFills(wsSeqLead, wsSeqTrail))
	}
}

func main() {
	nd := 0
	for i := range bases {
		nd += 2 * len(bases[i].tagIdx())
	}
	vlib.Main(vlib.Spec{
		ID:    "C13",
		Level: "exploration",
		Rule: "for each of the base templates (every tag kind; opening, middle and closing tag of every block construct): every subset of its tag delimiters " +
			"carries a dash x every whitespace filling of the neighbouring literal text within the bounds x tag spelling (spaced/tight/multi-line); " +
			"plus multi-tag sequences: every ordered pair (thorough: and triple) of 12 constructs (print, set, do <expr>, do <name>, include, import, from, if..endif, for..endfor, block..endblock, apply..endapply, comment) " +
			"with text in between x every subset of all delimiters of the sequence (all 2^d up to d = 10; d = 12: size <= 3 and all-dashed) x spellings x uniform fillings; " +
			"plus the brace family: every base x every dash subset x spellings with the text slots carrying one of 6 texts whose braces do not start a tag (a { b, {x}, .c{color:red}, {\"k\": 1}, { { z, a{b - {c) " +
			"in the slots that have a core / in every slot (thorough: in each single slot, wider whitespace, every ordered pair of constructs); " +
			"plus the size family: every parsing base that starts with text x every single dashed delimiter and the all-dashed subset, written after / before M dash-free print tags (+ 0..2 one-letter texts) " +
			"so that the template's token count runs through every value around 1000, 1024, 2048 (thorough: 4096, 8192) and its byte length lies just below / above 4096; " +
			"each rendered dashed, as the hand-trimmed undashed twin, and dashed behind a 4100-byte comment (second tokenizer). " +
			"non-trivial = at least one dash stands next to a non-empty whitespace run, i.e. the dashed source and the twin differ by more than the dashes",
		Assumptions: []string{
			"the hand-trimmed twin is rendered by the same implementation; the model covers the constructs' meaning only as far as the fixed context (x, n, xs, e, a, w) exercises it",
			"whitespace is the four bytes space, tab, CR, LF; other Unicode space characters are not whitespace for the property and are not generated",
			"a comment or tag between a dashed delimiter and further whitespace ends the run that is trimmed (the dash acts on the adjacent literal text only)",
			"dashes inside verbatim bodies, dashes on comment delimiters ({#- -#}) and delimiters inside string literals are outside the statement and not generated",
		},
		QuickDeadline:    120,
		ThoroughDeadline: 840,
		Run:              run,
		Extra: func(tier string, cov map[string]interface{}) {
			cov["base_templates"] = len(bases)
			cov["tag_delimiters_in_corpus"] = nd
			cov["sequence_alphabet"] = len(units)
			cov["brace_texts"] = len(braceCores)
			cov["tag_pairs"] = len(units) * len(units)
			if tier == "thorough" {
				cov["tag_triples"] = len(units) * len(units) * len(units)
			}
		},
	})
}
