module verif

go 1.24.1

require github.com/semihalev/twig v0.0.0

replace github.com/semihalev/twig => /repo
