// vgen generates the build-time instrumentation overlay from the CURRENT repository tree.
// Nothing is written into the repository; `go build -overlay` substitutes the rewritten files.
//
// conf lines (one rewrite each):
//
//	sync                      import "sync" -> shim package vsync (under the name sync)
//	access T1 T2 ...          Access hooks on the plain fields of the named struct types
//	map                       range-over-map and reflect MapKeys() go through the order oracle vmap
//	time                      time.Now() in package twig goes through vtime.Now()
//	addfile <path>            add a file (relative to /verif) to package twig
package main

import (
	"bytes"
	"encoding/json"
	"flag"
	"fmt"
	"go/ast"
	"go/format"
	"go/importer"
	"go/parser"
	"go/token"
	"go/types"
	"os"
	"path/filepath"
	"sort"
	"strings"
)

const twigPath = "github.com/semihalev/twig"

var (
	fset     = token.NewFileSet()
	info     *types.Info
	watched  = map[string]bool{}
	stats    = map[string]int{}
	shimDirs = map[string]string{}
)

func main() {
	repo := flag.String("repo", "/repo", "")
	out := flag.String("out", "", "")
	conf := flag.String("conf", "", "")
	shim := flag.String("shim", "/verif/shim", "")
	flag.Parse()
	cb, err := os.ReadFile(*conf)
	if err != nil {
		fatal(err)
	}
	var doSync, doMap, doTime, doAccess bool
	var addFiles []string
	for _, ln := range strings.Split(string(cb), "\n") {
		f := strings.Fields(strings.SplitN(ln, "#", 2)[0])
		if len(f) == 0 {
			continue
		}
		switch f[0] {
		case "sync":
			doSync = true
		case "map":
			doMap = true
		case "time":
			doTime = true
		case "access":
			doAccess = true
			for _, t := range f[1:] {
				watched[t] = true
			}
		case "shim": // shim <virtual package> <directory under shim/>
			shimDirs[f[1]] = f[2]
		case "addfile":
			addFiles = append(addFiles, f[1])
		}
	}
	os.RemoveAll(*out)
	os.MkdirAll(*out, 0o755)

	matches, _ := filepath.Glob(filepath.Join(*repo, "*.go"))
	sort.Strings(matches)
	var files []*ast.File
	var names []string
	for _, m := range matches {
		if strings.HasSuffix(m, "_test.go") {
			continue
		}
		f, err := parser.ParseFile(fset, m, nil, parser.ParseComments)
		if err != nil {
			fatal(err)
		}
		files = append(files, f)
		names = append(names, m)
	}
	if doMap || doAccess {
		info = &types.Info{Types: map[ast.Expr]types.TypeAndValue{}, Selections: map[*ast.SelectorExpr]*types.Selection{}, Uses: map[*ast.Ident]types.Object{}}
		cfg := types.Config{Importer: importer.ForCompiler(fset, "source", nil), Error: func(error) {}}
		if _, err := cfg.Check(twigPath, fset, files, info); err != nil {
			// the tree does not type-check: let the real build report it
			fmt.Fprintln(os.Stderr, "vgen: type check:", err)
		}
	}
	overlay := map[string]string{}
	for i, f := range files {
		changed := false
		needVsync, needUnsafe, needVmap, needVtime := false, false, false, false
		if doAccess {
			if rewriteAccess(f) {
				changed, needVsync, needUnsafe = true, true, true
			}
		}
		if doMap {
			if rewriteMap(f) {
				changed, needVmap = true, true
			}
		}
		if doTime {
			if rewriteTime(f) {
				changed, needVtime = true, true
			}
		}
		if doSync {
			for _, im := range f.Imports {
				if im.Path.Value == `"sync"` {
					im.Path.Value = `"` + twigPath + `/vsync"`
					im.Name = ast.NewIdent("sync")
					changed = true
					stats["sync-imports"]++
				}
			}
		}
		if !changed {
			continue
		}
		var extra []string
		if needVsync {
			extra = append(extra, `_vs "`+twigPath+`/vsync"`)
		}
		if needUnsafe {
			extra = append(extra, `_us "unsafe"`)
		}
		if needVmap {
			extra = append(extra, `_vmap "`+twigPath+`/vmap"`)
		}
		if needVtime {
			extra = append(extra, `_vtime "`+twigPath+`/vtime"`)
		}
		var buf bytes.Buffer
		if err := format.Node(&buf, fset, f); err != nil {
			fatal(err)
		}
		src := buf.String()
		if len(extra) > 0 {
			// append import declarations right after the package clause
			idx := strings.Index(src, "\npackage ")
			end := idx + 1 + strings.Index(src[idx+1:], "\n")
			imp := "\nimport (\n"
			for _, e := range extra {
				imp += "\t" + e + "\n"
			}
			imp += ")\n"
			src = src[:end] + imp + src[end:]
		}
		if needVtime {
			src += "\nvar _ time.Duration // keeps the import used after the Now() rewrite\n"
		}
		dst := filepath.Join(*out, filepath.Base(names[i]))
		os.WriteFile(dst, []byte(src), 0o644)
		overlay[names[i]] = dst
	}
	// virtual shim packages inside the twig module
	for _, pkg := range []string{"vsync", "vmap", "vtime"} {
		dir := pkg
		if d, ok := shimDirs[pkg]; ok {
			dir = d
		}
		fs, _ := filepath.Glob(filepath.Join(*shim, dir, "*.go"))
		for _, f := range fs {
			overlay[filepath.Join(*repo, pkg, filepath.Base(f))] = f
		}
	}
	for _, a := range addFiles {
		src := a
		if !filepath.IsAbs(src) {
			src = filepath.Join(filepath.Dir(*shim), a)
		}
		overlay[filepath.Join(*repo, "zz_verif_"+filepath.Base(a))] = src
	}
	b, _ := json.MarshalIndent(map[string]interface{}{"Replace": overlay}, "", " ")
	os.WriteFile(filepath.Join(*out, "overlay.json"), b, 0o644)
	sb, _ := json.Marshal(stats)
	os.WriteFile(filepath.Join(*out, "stats.json"), sb, 0o644)
}

func fatal(err error) {
	fmt.Fprintln(os.Stderr, "vgen:", err)
	os.Exit(1)
}

// ---------------------------------------------------------------------------------------------
// R-time: time.Now() -> _vtime.Now()

func rewriteTime(f *ast.File) bool {
	changed := false
	ast.Inspect(f, func(n ast.Node) bool {
		if c, ok := n.(*ast.CallExpr); ok {
			if s, ok := c.Fun.(*ast.SelectorExpr); ok && s.Sel.Name == "Now" {
				if id, ok := s.X.(*ast.Ident); ok && id.Name == "time" && len(c.Args) == 0 {
					id.Name = "_vtime"
					changed = true
					stats["time-now"]++
				}
			}
		}
		return true
	})
	return changed
}

// ---------------------------------------------------------------------------------------------
// R-map

func rewriteMap(f *ast.File) bool {
	changed := false
	ast.Inspect(f, func(n ast.Node) bool {
		switch x := n.(type) {
		case *ast.RangeStmt:
			tv, ok := info.Types[x.X]
			if !ok || tv.Type == nil {
				return true
			}
			if _, isMap := tv.Type.Underlying().(*types.Map); !isMap {
				return true
			}
			if orderBlind(x) {
				stats["map-range-orderblind"]++
				return true
			}
			stats["map-range"]++
			changed = true
			m := x.X
			keyIdent := ast.NewIdent("_vk")
			if id, ok := x.Key.(*ast.Ident); ok && id.Name != "_" {
				keyIdent = id
			}
			var pre []ast.Stmt
			if x.Value != nil {
				if id, ok := x.Value.(*ast.Ident); !ok || id.Name != "_" {
					tok := x.Tok
					pre = append(pre, &ast.AssignStmt{Lhs: []ast.Expr{x.Value}, Tok: tok, Rhs: []ast.Expr{&ast.IndexExpr{X: m, Index: keyIdent}}})
					pre = append(pre, &ast.AssignStmt{Lhs: []ast.Expr{ast.NewIdent("_")}, Tok: token.ASSIGN, Rhs: []ast.Expr{x.Value}})
				}
			}
			if x.Key == nil {
				x.Tok = token.DEFINE
			}
			x.Body.List = append(pre, x.Body.List...)
			x.X = &ast.CallExpr{Fun: &ast.SelectorExpr{X: ast.NewIdent("_vmap"), Sel: ast.NewIdent("Keys")}, Args: []ast.Expr{m}}
			x.Value = keyIdent
			x.Key = ast.NewIdent("_")
		case *ast.CallExpr:
			if s, ok := x.Fun.(*ast.SelectorExpr); ok && s.Sel.Name == "MapKeys" && len(x.Args) == 0 {
				inner := &ast.CallExpr{Fun: s}
				x.Fun = &ast.SelectorExpr{X: ast.NewIdent("_vmap"), Sel: ast.NewIdent("ReflectKeys")}
				x.Args = []ast.Expr{inner}
				stats["map-reflectkeys"]++
				changed = true
				return false
			}
		}
		return true
	})
	return changed
}

// orderBlind: the body is only delete(m, k) or a single dst[k] = v copy — order unobservable
func orderBlind(r *ast.RangeStmt) bool {
	if len(r.Body.List) != 1 {
		return false
	}
	switch s := r.Body.List[0].(type) {
	case *ast.ExprStmt:
		if c, ok := s.X.(*ast.CallExpr); ok {
			if id, ok := c.Fun.(*ast.Ident); ok && id.Name == "delete" {
				return true
			}
		}
	case *ast.AssignStmt:
		if len(s.Lhs) == 1 && len(s.Rhs) == 1 && s.Tok == token.ASSIGN {
			if ix, ok := s.Lhs[0].(*ast.IndexExpr); ok {
				k, kok := ix.Index.(*ast.Ident)
				rk, rkok := r.Key.(*ast.Ident)
				v, vok := s.Rhs[0].(*ast.Ident)
				rv, rvok := r.Value.(*ast.Ident)
				if kok && rkok && vok && rvok && k.Name == rk.Name && v.Name == rv.Name {
					return true
				}
			}
		}
	}
	return false
}

// ---------------------------------------------------------------------------------------------
// R-access

type hook struct {
	expr  ast.Expr
	write bool
	name  string
}

func rewriteAccess(f *ast.File) bool {
	changed := false
	for _, d := range f.Decls {
		fd, ok := d.(*ast.FuncDecl)
		if !ok || fd.Body == nil {
			continue
		}
		// constructors build objects nobody else can see yet
		if strings.HasPrefix(fd.Name.Name, "New") && fd.Recv == nil {
			continue
		}
		if processBlock(&fd.Body.List) {
			changed = true
		}
	}
	return changed
}

func processBlock(list *[]ast.Stmt) bool {
	changed := false
	var out []ast.Stmt
	for _, st := range *list {
		var hooks []hook
		collectStmt(st, &hooks)
		seen := map[string]bool{}
		for _, h := range hooks {
			key := fmt.Sprint(exprString(h.expr), h.write)
			if seen[key] {
				continue
			}
			// the receiver must already exist before the statement (not be declared by its init part)
			if id := rootIdent(h.expr); id == nil {
				continue
			} else if obj := info.Uses[id]; obj == nil || (obj.Pos() >= st.Pos() && obj.Pos() < st.End()) {
				continue
			}
			seen[key] = true
			out = append(out, hookStmt(h))
			stats["access-hooks"]++
			changed = true
		}
		out = append(out, st)
		if nested(st) {
			changed = true
		}
	}
	*list = out
	return changed
}

func nested(st ast.Stmt) bool {
	changed := false
	switch s := st.(type) {
	case *ast.BlockStmt:
		changed = processBlock(&s.List) || changed
	case *ast.IfStmt:
		changed = processBlock(&s.Body.List) || changed
		if s.Else != nil {
			changed = nested(s.Else) || changed
		}
	case *ast.ForStmt:
		changed = processBlock(&s.Body.List) || changed
	case *ast.RangeStmt:
		changed = processBlock(&s.Body.List) || changed
	case *ast.SwitchStmt:
		for _, c := range s.Body.List {
			changed = processBlock(&c.(*ast.CaseClause).Body) || changed
		}
	case *ast.TypeSwitchStmt:
		for _, c := range s.Body.List {
			changed = processBlock(&c.(*ast.CaseClause).Body) || changed
		}
	case *ast.SelectStmt:
		for _, c := range s.Body.List {
			changed = processBlock(&c.(*ast.CommClause).Body) || changed
		}
	case *ast.LabeledStmt:
		changed = nested(s.Stmt) || changed
	}
	// function literals anywhere in the statement (defer func(){...}(), callbacks)
	ast.Inspect(st, func(n ast.Node) bool {
		switch x := n.(type) {
		case *ast.FuncLit:
			if processBlock(&x.Body.List) {
				changed = true
			}
			return false
		case *ast.BlockStmt:
			// nested blocks were handled above
			if n != st {
				return false
			}
		}
		return true
	})
	return changed
}

func rootIdent(e ast.Expr) *ast.Ident {
	for {
		switch x := e.(type) {
		case *ast.Ident:
			return x
		case *ast.SelectorExpr:
			e = x.X
		case *ast.ParenExpr:
			e = x.X
		case *ast.StarExpr:
			e = x.X
		default:
			return nil
		}
	}
}

func hookStmt(h hook) ast.Stmt {
	w := "false"
	if h.write {
		w = "true"
	}
	return &ast.ExprStmt{X: &ast.CallExpr{
		Fun: &ast.SelectorExpr{X: ast.NewIdent("_vs"), Sel: ast.NewIdent("Access")},
		Args: []ast.Expr{
			&ast.CallExpr{Fun: &ast.SelectorExpr{X: ast.NewIdent("_us"), Sel: ast.NewIdent("Pointer")}, Args: []ast.Expr{&ast.UnaryExpr{Op: token.AND, X: h.expr}}},
			ast.NewIdent(w),
			&ast.BasicLit{Kind: token.STRING, Value: fmt.Sprintf("%q", h.name)},
		}}}
}

func exprString(e ast.Expr) string {
	var b bytes.Buffer
	format.Node(&b, fset, e)
	return b.String()
}

// collectStmt gathers hooks for the parts of st that are evaluated unconditionally and first.
func collectStmt(st ast.Stmt, hooks *[]hook) {
	switch s := st.(type) {
	case *ast.ExprStmt:
		scan(s.X, hooks)
	case *ast.AssignStmt:
		for _, l := range s.Lhs {
			scanLHS(l, hooks)
		}
		for _, r := range s.Rhs {
			scan(r, hooks)
		}
	case *ast.IncDecStmt:
		scanLHS(s.X, hooks)
	case *ast.ReturnStmt:
		for _, r := range s.Results {
			scan(r, hooks)
		}
	case *ast.DeferStmt:
		for _, a := range s.Call.Args {
			scan(a, hooks)
		}
	case *ast.GoStmt:
		for _, a := range s.Call.Args {
			scan(a, hooks)
		}
	case *ast.SendStmt:
		scan(s.Chan, hooks)
		scan(s.Value, hooks)
	case *ast.IfStmt:
		if s.Init != nil {
			collectStmt(s.Init, hooks)
		}
		scan(s.Cond, hooks)
	case *ast.ForStmt:
		if s.Init != nil {
			collectStmt(s.Init, hooks)
		}
		if s.Cond != nil {
			scan(s.Cond, hooks)
		}
	case *ast.RangeStmt:
		scan(s.X, hooks)
	case *ast.SwitchStmt:
		if s.Init != nil {
			collectStmt(s.Init, hooks)
		}
		if s.Tag != nil {
			scan(s.Tag, hooks)
		}
	case *ast.TypeSwitchStmt:
		if s.Init != nil {
			collectStmt(s.Init, hooks)
		}
		collectStmt(s.Assign, hooks)
	case *ast.DeclStmt:
		if g, ok := s.Decl.(*ast.GenDecl); ok {
			for _, sp := range g.Specs {
				if v, ok := sp.(*ast.ValueSpec); ok {
					for _, e := range v.Values {
						scan(e, hooks)
					}
				}
			}
		}
	case *ast.LabeledStmt:
		collectStmt(s.Stmt, hooks)
	}
}

func scanLHS(l ast.Expr, hooks *[]hook) {
	switch x := l.(type) {
	case *ast.SelectorExpr:
		if name, ok := watchedField(x); ok {
			*hooks = append(*hooks, hook{x, true, name})
			scan(x.X, hooks)
			return
		}
		scan(x.X, hooks)
	case *ast.IndexExpr:
		if sel, ok := x.X.(*ast.SelectorExpr); ok {
			if name, ok := watchedField(sel); ok && isMapOrSlice(sel) {
				*hooks = append(*hooks, hook{sel, true, name})
				scan(sel.X, hooks)
				scan(x.Index, hooks)
				return
			}
		}
		scan(x.X, hooks)
		scan(x.Index, hooks)
	case *ast.StarExpr:
		scan(x.X, hooks)
	case *ast.ParenExpr:
		scanLHS(x.X, hooks)
	}
}

func isMapOrSlice(e ast.Expr) bool {
	tv, ok := info.Types[e]
	if !ok || tv.Type == nil {
		return false
	}
	switch tv.Type.Underlying().(type) {
	case *types.Map, *types.Slice:
		return true
	}
	return false
}

// scan records read hooks for watched selectors in the unconditionally evaluated part of e.
func scan(e ast.Expr, hooks *[]hook) {
	switch x := e.(type) {
	case nil:
	case *ast.FuncLit:
	case *ast.BinaryExpr:
		scan(x.X, hooks)
		if x.Op != token.LAND && x.Op != token.LOR {
			scan(x.Y, hooks)
		}
	case *ast.SelectorExpr:
		if name, ok := watchedField(x); ok {
			*hooks = append(*hooks, hook{x, false, name})
		}
		scan(x.X, hooks)
	case *ast.CallExpr:
		if id, ok := x.Fun.(*ast.Ident); ok && id.Name == "delete" && len(x.Args) == 2 {
			if sel, ok := x.Args[0].(*ast.SelectorExpr); ok {
				if name, ok := watchedField(sel); ok {
					*hooks = append(*hooks, hook{sel, true, name})
					scan(sel.X, hooks)
					scan(x.Args[1], hooks)
					return
				}
			}
		}
		scan(x.Fun, hooks)
		for _, a := range x.Args {
			scan(a, hooks)
		}
	case *ast.ParenExpr:
		scan(x.X, hooks)
	case *ast.StarExpr:
		scan(x.X, hooks)
	case *ast.UnaryExpr:
		scan(x.X, hooks)
	case *ast.IndexExpr:
		scan(x.X, hooks)
		scan(x.Index, hooks)
	case *ast.SliceExpr:
		scan(x.X, hooks)
		scan(x.Low, hooks)
		scan(x.High, hooks)
		scan(x.Max, hooks)
	case *ast.TypeAssertExpr:
		scan(x.X, hooks)
	case *ast.KeyValueExpr:
		scan(x.Value, hooks)
	case *ast.CompositeLit:
		for _, el := range x.Elts {
			scan(el, hooks)
		}
	}
}

// watchedField: sel is a field selection on one of the watched struct types, with a pure,
// addressable receiver chain, and the field is plain data (not a lock, not a func).
func watchedField(sel *ast.SelectorExpr) (string, bool) {
	if info == nil {
		return "", false
	}
	s, ok := info.Selections[sel]
	if !ok || s.Kind() != types.FieldVal {
		return "", false
	}
	if len(s.Index()) != 1 {
		return "", false // promoted through embedding: skip
	}
	recv := s.Recv()
	if p, ok := recv.(*types.Pointer); ok {
		recv = p.Elem()
	}
	named, ok := recv.(*types.Named)
	if !ok || !watched[named.Obj().Name()] || named.Obj().Pkg() == nil || named.Obj().Pkg().Path() != twigPath {
		return "", false
	}
	ft := s.Obj().Type()
	if ts := ft.String(); strings.Contains(ts, "sync.") || strings.Contains(ts, "vsync.") {
		return "", false
	}
	if _, isFunc := ft.Underlying().(*types.Signature); isFunc {
		return "", false
	}
	if !pureChain(sel.X) {
		return "", false
	}
	return named.Obj().Name() + "." + sel.Sel.Name, true
}

func pureChain(e ast.Expr) bool {
	switch x := e.(type) {
	case *ast.Ident:
		if obj, ok := info.Uses[x]; ok {
			_, isVar := obj.(*types.Var)
			return isVar
		}
		return false
	case *ast.SelectorExpr:
		if s, ok := info.Selections[x]; ok && s.Kind() == types.FieldVal {
			return pureChain(x.X)
		}
		return false
	case *ast.ParenExpr:
		return pureChain(x.X)
	case *ast.StarExpr:
		return pureChain(x.X)
	}
	return false
}
