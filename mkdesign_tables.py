#!/usr/bin/env python3
"""Regenerates the generated regions of DESIGN.md (findings table, detection matrix)."""
import json, glob, os, re
here=os.path.dirname(os.path.abspath(__file__))
s=open(f'{here}/DESIGN.md').read()
kf=json.load(open(f'{here}/known_findings.json'))['findings']
rows=['| id | property | status | commit | what fails |','|---|---|---|---|---|']
for e in sorted(kf,key=lambda e:(e['property'],e['id'])):
    what=re.sub(r'^fixed: property=\S+ \S+ ','',e['what']).replace('|','\\|').replace('\n',' ')
    rows.append(f"| {e['id']} | {e['property']} | {e['status']} | {e.get('commit','—')} | {what} |")
nfix=sum(1 for e in kf if e['status']=='fixed'); nopen=sum(1 for e in kf if e['status']=='open')
tab=f"{nfix} repaired, {nopen} open.\n\n"+'\n'.join(rows)
s=re.sub(r'(<!-- BEGIN GENERATED: findings -->\n).*?(<!-- END GENERATED: findings -->)',lambda m:m.group(1)+tab+'\n'+m.group(2),s,flags=re.S)
det=[]
# own mutants that turned out to change nothing the property can observe (analysed by hand)
EQUIV={
 'C04-comment-evaluated':'the extra nodes are empty text nodes; the output is byte-identical for every template',
 'C04-findnexttag-end':'only an opener in the last two bytes of the source is affected, i.e. an unclosed tag at end of input, whose treatment the statement leaves open',
 'C05-set-no-bounds':'equivalent: the token stream always ends with an EOF token, which the second disjunct of the guard rejects before the index can pass the end (checks/c05/NOTES.md, M7)',
}
mr={}
p=f'{here}/mutants/results.json'
if os.path.exists(p): mr=json.load(open(p))
if mr:
    det+=['**Own mutants** (`mutants/selftest.py`, quick tier):','','| mutant | property | twig suite | check | first violating case |','|---|---|---|---|---|']
    for k in sorted(mr,key=lambda k:(mr[k].get('property',''),k)):
        r=mr[k]
        fc=r.get('first_case','').replace('|','\\|')[:120]
        if r.get('status')=='MISSED' and k in EQUIV: fc='*not observable:* '+EQUIV[k]
        det.append(f"| {k} | {r.get('property')} | {r.get('suite','—')[:40]} | {r.get('status')} | {fc} |")
    det.append('')
sd=sorted(glob.glob(f'{here}/seeded/*/meta.json'))
if sd:
    det+=['**Seeded changes written by independent sub-agents** (`seeded/<id>/`):','','| id | what it needs to manifest | check verdicts |','|---|---|---|']
    for f in sd:
        m=json.load(open(f))
        v=', '.join(f"{c}: {d['verdict']} ({d['tier']})" for c,d in m.get('checks',{}).items())
        det.append(f"| {os.path.basename(os.path.dirname(f))} | {m.get('needs_to_manifest','see AGENT_README.md').replace('|','/')} | {v} |")
    det.append('')
s=re.sub(r'(<!-- BEGIN GENERATED: detection -->\n).*?(<!-- END GENERATED: detection -->)',lambda m:m.group(1)+'\n'.join(det)+'\n'+m.group(2),s,flags=re.S)
cp=f'{here}/coverage_snapshot.json'
if os.path.exists(cp):
    snap=json.load(open(cp))
    rows=['| check | quick: cases | non-trivial | outcome classes | wall | thorough: cases | non-trivial | outcome classes | wall | thorough completed |','|---|---|---|---|---|---|---|---|---|---|']
    for c in sorted(snap):
        q=snap[c].get('quick',{}); t=snap[c].get('thorough',{})
        f=lambda d,k: f"{d[k]:,}".replace(',',' ') if k in d else '—'
        w=lambda d: f"{d['wall_s']:.0f} s" if 'wall_s' in d else '—'
        rows.append(f"| {c} | {f(q,'evaluations')} | {f(q,'nontrivial')} | {f(q,'classes')} | {w(q)} | {f(t,'evaluations')} | {f(t,'nontrivial')} | {f(t,'classes')} | {w(t)} | {('yes' if t.get('exhaustive') else 'no — deadline, see below') if t else '—'} |")
    s=re.sub(r'(<!-- BEGIN GENERATED: coverage -->\n).*?(<!-- END GENERATED: coverage -->)',lambda m:m.group(1)+'\n'.join(rows)+'\n'+m.group(2),s,flags=re.S)
open(f'{here}/DESIGN.md','w').write(s)
print('tables regenerated')
