#!/bin/bash
# tools-revtest.sh <Cxx> <tier> <sha|patchfile> [more shas…]: revert fix commits (or apply a patch file) in a
# scratch worktree, confirm twig's own suite still passes there, run the check against it.
# Never touches /repo's working tree; evidence goes to a scratch dir.
ID=$1; TIER=$2; shift; shift
. /verif/env.sh
WT=/tmp/revtest-wt-$$; OUT=/tmp/revtest-out-$$
git -C /repo worktree add --detach -q $WT HEAD || exit 3
mkdir -p $OUT; cp /verif/known_findings.json $OUT/
for s in "$@"; do
  if [ -f "$s" ]; then (cd $WT && git apply "$s") || { echo "patch failed"; }
  else (cd $WT && git show $s | git apply -R) || echo "revert of $s failed"; fi
done
suite=$(cd $WT && $GO test -vet=off -count=1 . 2>&1 | tail -1)
echo "twig suite on mutant: $suite"
(cd /verif && VERIF_DIR=$OUT TWIG_REPO=$WT timeout 1800 ./run.sh $ID $TIER 2>&1 | grep -v '^    ' | cut -c1-300 | tail -${TAIL:-8})
echo "exit=${PIPESTATUS[0]}"
git -C /repo worktree remove --force $WT; rm -rf $OUT /verif/.build/$(echo -n $WT | md5sum | cut -c1-8)
