#!/bin/bash
# run.sh <Cxx> <quick|thorough> [--replay <file>]
# Rebuilds the check against the CURRENT working tree of the repository (default /repo; TWIG_REPO
# overrides it for experiments on scratch copies) and runs it. Exit 0 = property held on everything
# explored, 1 = VIOLATION line printed, 2 = the tree (or the harness) does not build.
set -u
cd "$(dirname "$0")"
VERIF=$(pwd)
. "$VERIF/env.sh"

ID=${1:?usage: run.sh Cxx quick|thorough}
TIER=${2:-quick}
shift; shift || true
id=$(echo "$ID" | tr 'A-Z' 'a-z')
REPO=${TWIG_REPO:-/repo}
export VERIF_DIR=${VERIF_DIR:-$VERIF}
export TWIG_REPO=$REPO

tag=$(echo -n "$REPO" | md5sum | cut -c1-8)
B=$VERIF/.build/$tag
mkdir -p "$B"
MODFLAG=()
if [ "$REPO" != "/repo" ]; then
  sed "s#=> /repo#=> $REPO#" "$VERIF/go.mod" > "$B/alt.mod"
  : > "$B/alt.sum"
  MODFLAG=(-modfile="$B/alt.mod")
fi

OVFLAG=()
TAGS=()
if [ -f "$VERIF/checks/$id/overlay.conf" ]; then
  # build-time instrumentation generated from the current tree (never committed to the repo)
  "$GO" build -o "$VERIF/.build/vgen" ./cmd/vgen || exit 2
  if ! "$VERIF/.build/vgen" -repo "$REPO" -out "$B/ov-$id" -conf "$VERIF/checks/$id/overlay.conf" -shim "$VERIF/shim"; then
    echo "[$ID] overlay generation failed" >&2
    exit 2
  fi
  OVFLAG=(-overlay "$B/ov-$id/overlay.json")
fi

if [ -f "$VERIF/checks/$id/prebuild.sh" ]; then
  "$GO" build -o "$VERIF/.build/vgen" ./cmd/vgen || exit 2
  . "$VERIF/checks/$id/prebuild.sh"
fi

if ! "$GO" build "${MODFLAG[@]}" "${OVFLAG[@]}" -o "$B/$id" "./checks/$id" 2> "$B/$id.buildlog" && [ -f "$VERIF/checks/$id/overlay.fallback.conf" ]; then
  # the overlay-only export file does not compile against this tree: degrade to black-box mode
  echo "[$ID] note: overlay export does not build against this tree; falling back to black-box mode" >&2
  "$VERIF/.build/vgen" -repo "$REPO" -out "$B/ov-$id" -conf "$VERIF/checks/$id/overlay.fallback.conf" -shim "$VERIF/shim" || exit 2
  TAGS=(-tags blackbox)
fi
if ! "$GO" build "${MODFLAG[@]}" "${OVFLAG[@]}" "${TAGS[@]}" -o "$B/$id" "./checks/$id" 2> "$B/$id.buildlog"; then
  cat "$B/$id.buildlog" >&2
  echo "[$ID] BUILD FAILED: the repository tree (or the harness against it) does not compile; no verdict" >&2
  exit 2
fi
if [ "${VERIF_SETUP_ONLY:-}" = 1 ]; then exit 0; fi
exec "$B/$id" --tier "$TIER" "$@"
