#!/usr/bin/env python3
"""integrate.py C06 C10 …: copy checks/cXX/manifest.json into checks.json and regenerate MANIFEST.json"""
import json, sys, os, subprocess
c=json.load(open('/verif/checks.json'))
for pid in sys.argv[1:]:
    m=json.load(open(f'/verif/checks/{pid.lower()}/manifest.json'))
    c[pid]={"level":m['level'],"technique":m['technique'],"text":m['text'],"note":m['note']}
json.dump(c,open('/verif/checks.json','w'),indent=1,ensure_ascii=False)
subprocess.run(['python3','/verif/mkmanifest.py'])
