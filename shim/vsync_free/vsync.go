// Package vsync (free-running variant): the same API surface the C02 harness uses, but logical
// threads are real goroutines and nothing is scheduled or modelled. Package twig keeps using the
// real package sync in this build; it exists so that the scenario bodies can be run under Go's race
// detector (`go build -race`), which is blind under the cooperative scheduler.
package vsync

import (
	"runtime"
	"sync"
)

type Exec struct {
	fs []func()
}

func NewExec(prefix []int) *Exec { return &Exec{} }
func (x *Exec) Go(f func())      { x.fs = append(x.fs, f) }
func (x *Exec) Run() {
	var wg sync.WaitGroup
	start := make(chan struct{})
	for _, f := range x.fs {
		f := f
		wg.Add(1)
		go func() {
			defer wg.Done()
			<-start
			f()
		}()
	}
	close(start)
	wg.Wait()
}

func DropAll() {}

// Yield: in the free-running build a slow writer really yields the processor.
func Yield() { runtime.Gosched() }
