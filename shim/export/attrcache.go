package twig

// Added to package twig by the verification overlay only (never committed to the repository):
// read/reset access to the process-wide attribute cache for check C20. If this file stops
// compiling against an edited tree, C20 falls back to black-box mode.

import "reflect"

type VerifAttrEntry struct {
	Type        reflect.Type
	Attr        string
	FieldIndex  int
	FieldPath   []int
	IsMethod    bool
	MethodIndex int
	PtrMethod   bool
	AccessCount int
	LastAccess  int64
}

func VerifAttrCacheSetMax(n int) int {
	attributeCache.Lock()
	defer attributeCache.Unlock()
	old := attributeCache.maxSize
	attributeCache.maxSize = n
	return old
}

func VerifAttrCacheReset() {
	attributeCache.Lock()
	defer attributeCache.Unlock()
	for k := range attributeCache.m {
		delete(attributeCache.m, k)
	}
	attributeCache.currSize = 0
}

func VerifAttrCacheDump() (entries []VerifAttrEntry, currSize, maxSize int) {
	attributeCache.RLock()
	defer attributeCache.RUnlock()
	for k, v := range attributeCache.m {
		entries = append(entries, VerifAttrEntry{k.typ, k.attr, v.fieldIndex, v.fieldPath, v.isMethod, v.methodIndex, v.ptrMethod, v.accessCount, v.lastAccess.UnixNano()})
	}
	return entries, attributeCache.currSize, attributeCache.maxSize
}
