// Package vsync replaces package sync inside package twig when a check is built through the overlay
// (import "sync" is rewritten to this package under the name sync). It owns every source of
// nondeterminism that twig's use of sync can observe:
//
//   - which goroutine runs next (cooperative scheduler: every Pool, Mutex, RWMutex and Access step is
//     a scheduling point; exactly one logical thread runs at a time),
//   - which object Pool.Get returns (any pooled item, or "pool empty": both are legal for sync.Pool),
//
// and it computes happens-before with vector clocks from the modelled synchronisation operations
// only (mutex release→acquire, pool Put→Get), so that unordered accesses to watched plain fields are
// reported as data races on every explored schedule. The scheduler's own hand-offs are not
// happens-before edges.
//
// Outside an execution (Cur == nil) everything degrades to deterministic sequential behaviour:
// pools are LIFO lists, locks only track their state.
package vsync

import (
	"fmt"
	realsync "sync"
	"unsafe"
)

// Re-exports so that any use of package sync keeps compiling through the overlay.
type (
	Once      = realsync.Once
	WaitGroup = realsync.WaitGroup
	Map       = realsync.Map
	Cond      = realsync.Cond
	Locker    = realsync.Locker
)

func NewCond(l Locker) *Cond               { return realsync.NewCond(l) }
func OnceFunc(f func()) func()             { return realsync.OnceFunc(f) }
func OnceValue[T any](f func() T) func() T { return realsync.OnceValue(f) }

// ---------------------------------------------------------------------------------------------
// choices

// Choice is one recorded choice point of an execution.
type Choice struct {
	Kind byte // 'T' thread switch, 'P' pool answer
	N    int  // number of alternatives
	C    int  // alternative taken
	// CurEnabled: for 'T' — the running thread was still enabled (taking C != 0 is a preemption).
	CurEnabled bool
	Label      string
}

type VC []int

func (a VC) copy() VC { return append(VC(nil), a...) }
func (a VC) join(b VC) VC {
	for len(a) < len(b) {
		a = append(a, 0)
	}
	for i := range b {
		if b[i] > a[i] {
			a[i] = b[i]
		}
	}
	return a
}
func (a VC) leq(b VC) bool {
	for i := range a {
		bi := 0
		if i < len(b) {
			bi = b[i]
		}
		if a[i] > bi {
			return false
		}
	}
	return true
}

type thread struct {
	id      int
	wake    chan struct{}
	done    bool
	blocked func() bool
	vc      VC
}

type locState struct {
	lastWrite VC
	writeTid  int
	hasWrite  bool
	reads     map[int]VC
}

// Exec is one execution under the explorer.
type Exec struct {
	Prefix  []int
	Choices []Choice
	// PoolChoices: Pool.Get is a choice point (otherwise LIFO).
	PoolChoices bool
	// PoolAlts: 2 = {newest, empty}; 3 = {newest, oldest, empty}; 0 = every item and empty.
	PoolAlts int
	// HotFields: Access on a field class is a scheduling point only if the class is in this set
	// (classes written during the concurrent phase of an earlier run); writes always are.
	HotFields map[string]bool
	// WrittenFields collects the classes written while threads were running.
	WrittenFields map[string]bool

	Steps      int
	MaxSteps   int
	Deadlock   bool
	Livelock   bool
	Diverged   string
	Races      []string
	LockMisuse []string

	threads []*thread
	cur     *thread
	main    chan struct{}
	locs    map[unsafe.Pointer]*locState
	running bool
}

// Cur is the execution in progress (nil: sequential deterministic mode).
var Cur *Exec

func NewExec(prefix []int) *Exec {
	return &Exec{Prefix: prefix, main: make(chan struct{}), locs: map[unsafe.Pointer]*locState{}, WrittenFields: map[string]bool{}, MaxSteps: 200000}
}

func (x *Exec) choose(kind byte, n int, curEnabled bool, label string) int {
	i := len(x.Choices)
	c := 0
	if i < len(x.Prefix) {
		c = x.Prefix[i]
		if c >= n || c < 0 {
			x.Diverged = fmt.Sprintf("replay divergence at choice %d: %d of %d (%c %s)", i, c, n, kind, label)
			c = 0
		}
	}
	x.Choices = append(x.Choices, Choice{Kind: kind, N: n, C: c, CurEnabled: curEnabled, Label: label})
	return c
}

// Go registers a logical thread. Call before Run.
func (x *Exec) Go(f func()) {
	t := &thread{id: len(x.threads), wake: make(chan struct{})}
	t.vc = make(VC, t.id+1)
	t.vc[t.id] = 1
	x.threads = append(x.threads, t)
	go func() {
		<-t.wake
		f()
		t.done = true
		x.switchFrom(t)
	}()
}

// Run executes the registered threads to completion (or deadlock) under the scheduler.
func (x *Exec) Run() {
	Cur = x
	x.running = true
	if len(x.threads) > 0 {
		x.cur = x.threads[0]
		x.cur.wake <- struct{}{}
		<-x.main
	}
	x.running = false
	Cur = nil
}

// Begin/End bracket a single-threaded execution in which only pool answers are explored.
func (x *Exec) Begin() { Cur = x }
func (x *Exec) End()   { Cur = nil }

func (x *Exec) enabled() []*thread {
	var out []*thread
	if x.cur != nil && !x.cur.done && (x.cur.blocked == nil || !x.cur.blocked()) {
		out = append(out, x.cur)
	}
	for _, t := range x.threads {
		if t == x.cur || t.done {
			continue
		}
		if t.blocked != nil && t.blocked() {
			continue
		}
		out = append(out, t)
	}
	return out
}

func (x *Exec) switchFrom(t *thread) {
	en := x.enabled()
	if len(en) == 0 {
		for _, o := range x.threads {
			if !o.done {
				x.Deadlock = true
			}
		}
		x.main <- struct{}{}
		return
	}
	x.Steps++
	idx := 0
	if x.Steps > x.MaxSteps {
		x.Livelock = true
	} else if len(en) > 1 {
		cur := en[0] == t && !t.done
		idx = x.choose('T', len(en), cur, "")
	}
	next := en[idx]
	if next == t {
		return
	}
	x.cur = next
	next.blocked = nil
	next.wake <- struct{}{}
	if !t.done {
		<-t.wake
	}
}

func point() {
	if x := Cur; x != nil && x.running {
		x.switchFrom(x.cur)
	}
}

func tick() {
	if x := Cur; x != nil && x.running {
		t := x.cur
		for len(t.vc) <= t.id {
			t.vc = append(t.vc, 0)
		}
		t.vc[t.id]++
	}
}

func blockWhile(cond func() bool) {
	x := Cur
	if x == nil || !x.running {
		return
	}
	t := x.cur
	if cond() {
		t.blocked = cond
		x.switchFrom(t)
	}
}

func acquire(vc VC) {
	if x := Cur; x != nil && x.running {
		x.cur.vc = x.cur.vc.join(vc)
	}
}

func release() VC {
	if x := Cur; x != nil && x.running {
		vc := x.cur.vc.copy()
		tick()
		return vc
	}
	return nil
}

// Yield is a scheduling point for harness code (e.g. a writer that may be slow: the scheduler may
// run another thread in the middle of its Write).
func Yield() { point() }

// Access is inserted by the overlay generator before statements that read or write a watched
// plain field: a scheduling point plus a happens-before check.
func Access(p unsafe.Pointer, write bool, name string) {
	x := Cur
	if x == nil || !x.running {
		return
	}
	if write {
		x.WrittenFields[name] = true
	}
	if write || x.HotFields == nil || x.HotFields[name] {
		point()
	}
	t := x.cur
	l := x.locs[p]
	if l == nil {
		l = &locState{reads: map[int]VC{}}
		x.locs[p] = l
	}
	kind := "read"
	if write {
		kind = "write"
	}
	if l.hasWrite && l.writeTid != t.id && !l.lastWrite.leq(t.vc) {
		x.Races = append(x.Races, fmt.Sprintf("%s: write by T%d unordered with %s by T%d", name, l.writeTid, kind, t.id))
	}
	if write {
		for tid, rvc := range l.reads {
			if tid != t.id && !rvc.leq(t.vc) {
				x.Races = append(x.Races, fmt.Sprintf("%s: read by T%d unordered with write by T%d", name, tid, t.id))
			}
		}
		l.lastWrite, l.writeTid, l.hasWrite = t.vc.copy(), t.id, true
		l.reads = map[int]VC{}
	} else {
		l.reads[t.id] = t.vc.copy()
	}
	tick()
}

// ---------------------------------------------------------------------------------------------
// Pool

type poolItem struct {
	x  interface{}
	vc VC
}

type Pool struct {
	noCopy [0]realsync.Mutex
	New    func() interface{}
	items  []poolItem
	reg    bool
}

var pools []*Pool

// Stats for the release-discipline invariant.
var (
	Gets, Puts int64
)

// DropAll empties every pool (what a garbage collection may do to sync.Pool).
func DropAll() {
	for _, p := range pools {
		p.items = nil
	}
}

// PooledCount is the number of objects currently held by all pools.
func PooledCount() int {
	n := 0
	for _, p := range pools {
		n += len(p.items)
	}
	return n
}

// EachPooled calls f for every object currently inside a pool.
func EachPooled(f func(x interface{})) {
	for _, p := range pools {
		for _, it := range p.items {
			f(it.x)
		}
	}
}

func (p *Pool) Get() interface{} {
	if !p.reg {
		p.reg = true
		pools = append(pools, p)
	}
	point()
	Gets++
	n := len(p.items)
	c := 0
	if x := Cur; x != nil && x.PoolChoices && n > 0 {
		// alternatives: 0 = newest (LIFO, what a single P does), ..., last = behave as empty
		switch {
		case x.PoolAlts == 2 || n == 1:
			c = x.choose('P', 2, false, "")
			if c == 1 {
				c = n // empty
			}
		case x.PoolAlts == 3:
			c = x.choose('P', 3, false, "")
			if c == 1 {
				c = n - 1 // oldest
			} else if c == 2 {
				c = n
			}
		default:
			c = x.choose('P', n+1, false, "")
		}
	}
	if n == 0 || c >= n {
		if p.New != nil {
			return p.New()
		}
		return nil
	}
	idx := n - 1 - c
	it := p.items[idx]
	p.items = append(p.items[:idx], p.items[idx+1:]...)
	acquire(it.vc)
	return it.x
}

func (p *Pool) Put(x interface{}) {
	if !p.reg {
		p.reg = true
		pools = append(pools, p)
	}
	if x == nil {
		return
	}
	point()
	Puts++
	p.items = append(p.items, poolItem{x, release()})
}

// ---------------------------------------------------------------------------------------------
// Mutex / RWMutex

type Mutex struct {
	held bool
	vc   VC
}

func (m *Mutex) Lock() {
	point()
	blockWhile(func() bool { return m.held })
	m.held = true
	acquire(m.vc)
}

func (m *Mutex) TryLock() bool {
	point()
	if m.held {
		return false
	}
	m.held = true
	acquire(m.vc)
	return true
}

func (m *Mutex) Unlock() {
	point()
	if !m.held {
		if x := Cur; x != nil {
			x.LockMisuse = append(x.LockMisuse, "sync: unlock of unlocked mutex")
		} else {
			panic("sync: unlock of unlocked mutex")
		}
	}
	m.vc = release()
	m.held = false
}

type RWMutex struct {
	w     bool
	r     int
	wwait int // writers blocked in Lock: like the real RWMutex, they exclude new readers
	vc    VC  // released by writers
	rvc   VC  // released by readers
}

func (m *RWMutex) Lock() {
	point()
	m.wwait++
	blockWhile(func() bool { return m.w || m.r > 0 })
	m.wwait--
	m.w = true
	acquire(m.vc)
	acquire(m.rvc)
}

func (m *RWMutex) Unlock() {
	point()
	if !m.w {
		if x := Cur; x != nil {
			x.LockMisuse = append(x.LockMisuse, "sync: Unlock of unlocked RWMutex")
		} else {
			panic("sync: Unlock of unlocked RWMutex")
		}
	}
	m.vc = release()
	m.w = false
}

func (m *RWMutex) RLock() {
	point()
	blockWhile(func() bool { return m.w || m.wwait > 0 })
	m.r++
	acquire(m.vc)
}

func (m *RWMutex) RUnlock() {
	point()
	if m.r <= 0 {
		if x := Cur; x != nil {
			x.LockMisuse = append(x.LockMisuse, "sync: RUnlock of unlocked RWMutex")
		} else {
			panic("sync: RUnlock of unlocked RWMutex")
		}
		return
	}
	if x := Cur; x != nil && x.running {
		m.rvc = m.rvc.join(x.cur.vc)
		tick()
	}
	m.r--
}

func (m *RWMutex) RLocker() Locker { return (*rlocker)(m) }

type rlocker RWMutex

func (r *rlocker) Lock()   { (*RWMutex)(r).RLock() }
func (r *rlocker) Unlock() { (*RWMutex)(r).RUnlock() }
