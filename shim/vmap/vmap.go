// Package vmap is the map-iteration-order oracle. In checks built with the "map" rewrite every
// `for k, v := range m` over a map (except provably order-blind clear/copy loops) and every
// reflect MapKeys() call in package twig asks this package for the key order, so that the order
// Go's runtime would pick at random becomes an explorer-owned choice: the default is a canonical
// sorted order, a deviation picks one of the other permutations.
package vmap

import (
	"fmt"
	"reflect"
	"sort"
)

// Choice is one recorded order choice.
type Choice struct {
	N    int // number of alternatives (n! for n<=4, otherwise rotations+reversal+transpositions)
	C    int
	Keys int // number of keys at this iteration point
}

type Explorer struct {
	Prefix  []int
	Choices []Choice
	Active  bool
}

var X = &Explorer{}

// Native: do not impose an order at all (Go's own random iteration order) — used only for the
// supplementary sampling pass.
var Native bool

func fact(n int) int {
	f := 1
	for i := 2; i <= n; i++ {
		f *= i
	}
	return f
}

func choose(n, keys int) int {
	if !X.Active || n <= 1 {
		return 0
	}
	i := len(X.Choices)
	c := 0
	if i < len(X.Prefix) {
		c = X.Prefix[i]
		if c >= n {
			c = 0
		}
	}
	X.Choices = append(X.Choices, Choice{n, c, keys})
	return c
}

// permute returns the idx-th permutation (factorial number system) of 0..n-1; idx 0 = identity
func permute(n, idx int) []int {
	items := make([]int, n)
	for i := range items {
		items[i] = i
	}
	out := make([]int, 0, n)
	for k := n; k >= 1; k-- {
		f := fact(k - 1)
		q := idx / f
		idx %= f
		out = append(out, items[q])
		items = append(items[:q], items[q+1:]...)
	}
	return out
}

// Alternatives for more than 4 keys: identity, n-1 rotations, reversal, all transpositions.
func bigAlternatives(n int) int { return n + 1 + n*(n-1)/2 }

func order(n int) []int {
	if n <= 1 {
		return make([]int, n)
	}
	if n > 4 {
		c := choose(bigAlternatives(n), n)
		out := make([]int, n)
		for i := range out {
			out[i] = i
		}
		switch {
		case c < n: // rotation by c (0 = identity)
			for i := range out {
				out[i] = (i + c) % n
			}
		case c == n: // reversal
			for i := range out {
				out[i] = n - 1 - i
			}
		default: // transposition number c-n-1
			k := c - n - 1
			for a := 0; a < n; a++ {
				for b := a + 1; b < n; b++ {
					if k == 0 {
						out[a], out[b] = out[b], out[a]
					}
					k--
				}
			}
		}
		return out
	}
	return permute(n, choose(fact(n), n))
}

func canon(v interface{}) string { return fmt.Sprintf("%T:%#v", v, v) }

// Keys returns the keys of m in the order chosen by the explorer.
func Keys[K comparable, V any](m map[K]V) []K {
	keys := make([]K, 0, len(m))
	for k := range m {
		keys = append(keys, k)
	}
	if Native {
		return keys
	}
	sort.Slice(keys, func(i, j int) bool { return canon(keys[i]) < canon(keys[j]) })
	out := make([]K, len(keys))
	for i, p := range order(len(keys)) {
		out[i] = keys[p]
	}
	return out
}

// ReflectKeys reorders the result of reflect.Value.MapKeys().
func ReflectKeys(keys []reflect.Value) []reflect.Value {
	if Native {
		return keys
	}
	sort.Slice(keys, func(i, j int) bool {
		return canon(keys[i].Interface()) < canon(keys[j].Interface())
	})
	out := make([]reflect.Value, len(keys))
	for i, p := range order(len(keys)) {
		out[i] = keys[p]
	}
	return out
}
