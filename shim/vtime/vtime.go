// Package vtime is the logical clock that replaces time.Now() inside package twig in checks built
// with the "time" rewrite: every call returns a strictly later instant, so ordering by time is
// deterministic and owned by the harness.
package vtime

import "time"

var (
	base = time.Date(2024, 1, 2, 3, 4, 5, 0, time.UTC)
	tick int64
	// Frozen: when true Now() does not advance (all events happen "at once").
	Frozen bool
)

func Now() time.Time {
	if !Frozen {
		tick++
	}
	return base.Add(time.Duration(tick) * time.Second)
}

func Reset() { tick = 0 }
