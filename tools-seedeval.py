#!/usr/bin/env python3
"""tools-seedeval.py <Cxx> <A|B> [--checks C01,C02] [--tier quick] [--keep]
Confirms a seeded property-breaking change written by an independent sub-agent
(/tmp/seed-cxx-out/<A|B>.patch + <A|B>_demo_test.go) in a scratch worktree:
  1. the demonstration passes on the unchanged tree,
  2. the change applies, builds, and twig's own suite still passes,
  3. the demonstration fails with the change,
  4. runs the owning check (and any extra checks) against the changed tree.
With --keep the change is stored under /verif/seeded/<Cxx>-<A|B>/ with meta.json."""
import subprocess, os, sys, json, shutil, re, time
prop, which = sys.argv[1], sys.argv[2]
args = sys.argv[3:]
checks = [prop]; tier = 'quick'; keep = False; src = None; store_as = None
while args:
    a = args.pop(0)
    if a == '--checks': checks = args.pop(0).split(',')
    elif a == '--tier': tier = args.pop(0)
    elif a == '--keep': keep = True
    elif a == '--src': src = args.pop(0)
    elif a == '--as': store_as = args.pop(0)
src = src or f'/tmp/seed-{prop.lower()}-out'
patch = f'{src}/{which}.patch'; demo = f'{src}/{which}_demo_test.go'
if os.path.exists(f'{src}/patch.diff'):
    # layout of /verif/seeded/<id>/: copy to a scratch dir under the original names
    import tempfile
    tmp = tempfile.mkdtemp(prefix='seedsrc-')
    shutil.copy(f'{src}/patch.diff', f'{tmp}/{which}.patch'); shutil.copy(f'{src}/demo_test.go', f'{tmp}/{which}_demo_test.go')
    if os.path.exists(f'{src}/AGENT_README.md'): shutil.copy(f'{src}/AGENT_README.md', f'{tmp}/README.md')
    src = tmp; patch = f'{src}/{which}.patch'; demo = f'{src}/{which}_demo_test.go'
GO = subprocess.run(['bash', '-c', '. /verif/env.sh; echo $GO'], capture_output=True, text=True).stdout.strip()
env = dict(os.environ, GOFLAGS='-mod=mod', GOPROXY='off', GOTOOLCHAIN='local')
wt = f'/tmp/seedeval-wt-{os.getpid()}'; out = f'/tmp/seedeval-out-{os.getpid()}'
subprocess.run(['git', '-C', '/repo', 'worktree', 'add', '--detach', '-q', wt, 'HEAD'], check=True)
os.makedirs(out, exist_ok=True); shutil.copy('/verif/known_findings.json', out)
meta = {'property': prop, 'variant': store_as or which, 'repo_head': subprocess.run(['git', '-C', '/repo', 'log', '-1', '--format=%h'], capture_output=True, text=True).stdout.strip(), 'ran': []}
def run(cmd, **kw):
    r = subprocess.run(cmd, capture_output=True, text=True, **kw)
    return r
def demo_run():
    fns = re.findall(r'func (TestSeed\w+)\(', open(demo).read())
    pat = '^(' + '|'.join(fns) + ')$' if fns else 'TestSeed'
    return run([GO, 'test', '-vet=off', '-count=1', '-run', pat, '.'], cwd=wt, env=env, timeout=600), pat
try:
    shutil.copy(demo, os.path.join(wt, os.path.basename(demo)))
    r, pat = demo_run()
    meta['demo_on_unchanged'] = 'passes' if r.returncode == 0 else 'FAILS'
    meta['ran'].append(f'go test -run {pat} . (unchanged tree): ' + meta['demo_on_unchanged'])
    a = run(['git', 'apply', patch], cwd=wt)
    if a.returncode != 0:
        meta['status'] = 'patch-does-not-apply: ' + a.stderr[:200]; raise StopIteration
    os.remove(os.path.join(wt, os.path.basename(demo)))
    b = run([GO, 'build', './...'], cwd=wt, env=env)
    if b.returncode != 0:
        meta['status'] = 'build-fails'; raise StopIteration
    t = run([GO, 'test', '-vet=off', '-count=1', '.'], cwd=wt, env=env, timeout=900)
    meta['suite_with_change'] = 'passes' if t.returncode == 0 else 'FAILS: ' + ','.join(sorted(set(re.findall(r'--- FAIL: (\S+)', t.stdout))))[:200]
    meta['ran'].append('go test -vet=off -count=1 . (with change): ' + meta['suite_with_change'])
    shutil.copy(demo, os.path.join(wt, os.path.basename(demo)))
    r, pat = demo_run()
    meta['demo_with_change'] = 'fails' if r.returncode != 0 else 'PASSES'
    meta['ran'].append(f'go test -run {pat} . (with change): ' + meta['demo_with_change'])
    os.remove(os.path.join(wt, os.path.basename(demo)))
    meta['valid'] = (meta['demo_on_unchanged'] == 'passes' and meta['suite_with_change'] == 'passes' and meta['demo_with_change'] == 'fails')
    meta['checks'] = {}
    for c in checks:
        t0 = time.time()
        e2 = dict(env, VERIF_DIR=out, TWIG_REPO=wt)
        cr = run(['/verif/run.sh', c, tier], env=e2, cwd='/verif', timeout=3600)
        v = [l for l in cr.stdout.splitlines() if l.startswith('VIOLATION')]
        vc = [l for l in cr.stdout.splitlines() if 'violating case:' in l]
        meta['checks'][c] = {'tier': tier, 'exit': cr.returncode, 'violation_lines': len(v), 'first_case': vc[0][:240] if vc else '', 'wall_s': round(time.time() - t0, 1),
                             'verdict': 'CAUGHT' if cr.returncode == 1 and v else ('MISSED' if cr.returncode == 0 else f'exit-{cr.returncode}')}
        meta['ran'].append(f'TWIG_REPO=<changed tree> ./run.sh {c} {tier}: ' + meta['checks'][c]['verdict'])
    meta['status'] = 'evaluated'
except StopIteration:
    pass
except subprocess.TimeoutExpired as e:
    meta['status'] = f'timeout: {e}'
finally:
    subprocess.run(['git', '-C', '/repo', 'worktree', 'remove', '--force', wt])
    shutil.rmtree(out, ignore_errors=True)
    tag = subprocess.run(['bash', '-c', f'echo -n {wt} | md5sum | cut -c1-8'], capture_output=True, text=True).stdout.strip()
    shutil.rmtree(f'/verif/.build/{tag}', ignore_errors=True)
print(json.dumps(meta, indent=1))
if keep and meta.get('valid'):
    d = f'/verif/seeded/{prop}-{store_as or which}'
    os.makedirs(d, exist_ok=True)
    shutil.copy(patch, f'{d}/patch.diff'); shutil.copy(demo, f'{d}/demo_test.go')
    rd = f'{src}/README.md'
    if os.path.exists(rd): shutil.copy(rd, f'{d}/AGENT_README.md')
    old = {}
    if os.path.exists(f'{d}/meta.json'):
        old = json.load(open(f'{d}/meta.json'))
    for k in ('needs_to_manifest', 'what'):
        if k in old: meta[k] = old[k]
    nf = '/verif/seeded/notes.json'
    if os.path.exists(nf):
        n = json.load(open(nf)).get(f'{prop}-{store_as or which}')
        if n: meta['what'], meta['needs_to_manifest'] = n[0], n[1]
    json.dump(meta, open(f'{d}/meta.json', 'w'), indent=1)
if src.startswith('/tmp/seedsrc-'): shutil.rmtree(src, ignore_errors=True)
