#!/usr/bin/env python3
"""tools-snapshot.py <quick|thorough> <logdir>: reads the first summary line of <logdir>/Cxx.log (quick: q-Cxx.log)
and stores evaluations / non-trivial / classes / exhaustive / wall per check in coverage_snapshot.json,
from which mkdesign_tables.py renders the table in DESIGN.md §4."""
import sys, re, json, os, glob
tier, d = sys.argv[1], sys.argv[2]
f = '/verif/coverage_snapshot.json'
snap = json.load(open(f)) if os.path.exists(f) else {}
for i in range(1, 21):
    c = f'C{i:02d}'
    for p in (f'{d}/{c}.log', f'{d}/q-{c}.log'):
        if os.path.exists(p):
            m = re.search(r'tier=(\w+) evaluations=(\d+) distinct_nontrivial=(\d+) outcome_classes=(\d+) exhaustive=(\w+) wall=([\d.]+)s', open(p).read())
            if m and m.group(1) == tier:
                snap.setdefault(c, {})[tier] = {'evaluations': int(m.group(2)), 'nontrivial': int(m.group(3)), 'classes': int(m.group(4)), 'exhaustive': m.group(5) == 'true', 'wall_s': float(m.group(6))}
json.dump(snap, open(f, 'w'), indent=1, sort_keys=True)
print(len(snap), 'checks in snapshot')
