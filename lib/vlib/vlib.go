// Package vlib is the shared runtime of every check: sharded exhaustive enumeration in
// expendable worker subprocesses, known-finding matching, replay files, evidence files.
//
// A check is a Go program that calls vlib.Main(spec). spec.Run enumerates *every* case of the
// bounded space in a fixed order and hands each one to t.Case(key, fn). The parent process starts
// N workers (the same binary, VLIB_WORKER=i/N); a worker executes exactly the cases whose key hashes
// to its shard, so the union of the workers is the whole space and duplicates of a key always land
// in the same worker (which lets distinct cases be counted exactly). Nothing is sampled.
package vlib

import (
	"bufio"
	"crypto/sha1"
	"encoding/hex"
	"encoding/json"
	"flag"
	"fmt"
	"hash/fnv"
	"os"
	"os/exec"
	"path/filepath"
	"runtime"
	"runtime/debug"
	"sort"
	"strconv"
	"strings"
	"sync"
	"time"
)

// VerifDir is where evidence/, replays/ and known_findings.json live.
func VerifDir() string {
	if d := os.Getenv("VERIF_DIR"); d != "" {
		return d
	}
	return "/verif"
}

// Outcome is what one case reports.
type Outcome struct {
	// Nontrivial: the case reaches the code the property is about (rule stated in Spec.Rule).
	Nontrivial bool
	// Class is an optional label; the number of distinct classes is reported as "distinct_outcomes"
	// (vacuity guard: one class from many cases means nothing collided).
	Class string
	// Violation is empty when the property held on this case.
	Violation string
	// Known is the id of a known_findings.json entry whose predicate holds for this case and whose
	// quirk predicts exactly what was observed. Only honoured when that entry is listed and open.
	Known string
	// Detail is written into the replay file of a violation.
	Detail interface{}
	// Extra counters (states, transitions, ...), summed over all cases.
	Counters map[string]int64
}

// OK is the outcome of a case on which the property held.
func OK(nontrivial bool) *Outcome { return &Outcome{Nontrivial: nontrivial} }

// Spec describes one check.
type Spec struct {
	ID          string // property id, e.g. "C08"
	Level       string // evidence level
	Rule        string // how cases are generated and what makes one non-trivial
	Assumptions []string
	// Run enumerates all cases for t.Tier() in a deterministic order.
	Run func(t *T)
	// Workers overrides the default worker count (number of CPUs, max 16). 1 = no subprocesses.
	Workers int
	// Deadline per tier in seconds (0 = default 240 quick / 1500 thorough). When it is reached the
	// run stops with exhaustive:false and exit code 0.
	QuickDeadline, ThoroughDeadline int
	// Extra lets a check add keys to coverage in the parent after merging.
	Extra func(tier string, cov map[string]interface{})
}

// T is the handle given to Spec.Run.
type T struct {
	spec      *Spec
	tier      string
	shard, n  int
	replayKey string
	careful   bool // print every key before running it (crash isolation)
	skipKeys  map[string]bool
	deadline  time.Time
	lastMem   time.Time

	out       *bufio.Writer
	seen      map[uint64]struct{}
	res       workerResult
	lastFlush time.Time
	lastTick  time.Time
	seq       int64
	stopped   bool
	mu        sync.Mutex
	replayHit bool
}

type violation struct {
	Seq       int64       `json:"seq"` // position in the enumeration (simplest first)
	Key       string      `json:"key"`
	Violation string      `json:"violation"`
	Detail    interface{} `json:"detail,omitempty"`
}

type workerResult struct {
	Evaluations int64             `json:"evaluations"`
	Nontrivial  int64             `json:"nontrivial"`
	Classes     map[string]int64  `json:"classes"`
	Counters    map[string]int64  `json:"counters"`
	Known       map[string]int64  `json:"known"`
	KnownEx     map[string]string `json:"known_ex"`
	Violations  []violation       `json:"violations"`
	NViol       int64             `json:"nviol"`
	Samples     []string          `json:"samples"`
	TimedOut    bool              `json:"timed_out"`
	Notes       []string          `json:"notes"`
}

func (t *T) Tier() string   { return t.tier }
func (t *T) Thorough() bool { return t.tier == "thorough" }
func (t *T) Stopped() bool  { return t.stopped }

// memCap: live-heap cap per worker (VLIB_MEM_CAP_MIB, default 2560 MiB: 16 workers stay below 40 GiB)
func memCap() uint64 {
	if v, err := strconv.ParseUint(os.Getenv("VLIB_MEM_CAP_MIB"), 10, 64); err == nil && v > 0 {
		return v << 20
	}
	return 2560 << 20
}

// Progress tells the parent that this worker is alive (use inside long single cases or long
// pre-computations so that the hang guard does not fire).
func (t *T) Progress() {
	if time.Since(t.lastFlush) > time.Second {
		t.lastFlush = time.Now()
		fmt.Fprintf(t.out, "P \"\"\n")
		t.out.Flush()
	}
}

// Note records a free-text remark that ends up in the evidence file (e.g. a cap that was hit).
func (t *T) Note(s string) {
	if t.shard == 0 {
		t.res.Notes = append(t.res.Notes, s)
	}
}

func hash64(s string) uint64 {
	h := fnv.New64a()
	h.Write([]byte(s))
	return h.Sum64()
}

// Owns reports whether this worker executes the case with this key. Checks may use it to avoid
// building expensive case data for cases they do not own.
func (t *T) Owns(key string) bool {
	if t.replayKey != "" {
		return key == t.replayKey
	}
	return int(hash64(key)%uint64(t.n)) == t.shard
}

// Case hands one case of the enumeration to the framework. fn runs only in the owning worker.
func (t *T) Case(key string, fn func() *Outcome) {
	t.seq++
	if t.stopped {
		return
	}
	if !t.Owns(key) {
		return
	}
	if t.skipKeys[key] {
		return
	}
	if t.replayKey != "" {
		t.replayHit = true
	}
	if t.careful {
		fmt.Fprintf(t.out, "K %s\n", strconv.Quote(key))
		t.out.Flush()
	}
	o := t.runGuarded(key, fn)
	t.res.Evaluations++
	if o.Nontrivial {
		h := hash64(key)
		if _, dup := t.seen[h]; !dup {
			if len(t.seen) < 4_000_000 {
				t.seen[h] = struct{}{}
			}
			t.res.Nontrivial++
		}
	}
	if o.Class != "" {
		if len(t.res.Classes) < 5000 || t.res.Classes[o.Class] > 0 {
			t.res.Classes[o.Class]++
		}
	}
	for k, v := range o.Counters {
		t.res.Counters[k] += v
	}
	if len(t.res.Samples) < 3 && (o.Nontrivial || t.res.Evaluations > 50) {
		t.res.Samples = append(t.res.Samples, key)
	}
	if o.Violation != "" {
		// determinism: the same case must fail again before it is believed
		stable := true
		if t.replayKey == "" {
			for i := 0; i < 2; i++ {
				o2 := t.runGuarded(key, fn)
				if o2.Violation == "" {
					stable = false
				}
			}
		}
		if !stable {
			t.res.Notes = append(t.res.Notes, "nondeterministic case (failed once, passed on re-run), not reported: "+key+": "+o.Violation)
		} else if o.Known != "" && KnownOpen(t.spec.ID, o.Known) {
			t.res.Known[o.Known]++
			if _, ok := t.res.KnownEx[o.Known]; !ok {
				t.res.KnownEx[o.Known] = key
			}
		} else {
			t.res.NViol++
			if len(t.res.Violations) < 20 {
				t.res.Violations = append(t.res.Violations, violation{t.seq, key, o.Violation, o.Detail})
			}
		}
	}
	if t.res.Evaluations%64 == 0 || time.Since(t.lastTick) > 200*time.Millisecond {
		now := time.Now()
		t.lastTick = now
		if now.After(t.deadline) {
			t.stopped = true
			t.res.TimedOut = true
		}
		// memory guard: a harness that leaks must end as "not exhaustive", never by starving the
		// machine (16 workers share it). Checked every few seconds; a forced collection first.
		if now.Sub(t.lastMem) > 3*time.Second {
			t.lastMem = now
			var ms runtime.MemStats
			runtime.ReadMemStats(&ms)
			if ms.HeapAlloc > memCap() {
				debug.FreeOSMemory()
				runtime.ReadMemStats(&ms)
				if ms.HeapAlloc > memCap() {
					t.stopped = true
					t.res.TimedOut = true
					t.res.Notes = append(t.res.Notes, fmt.Sprintf("worker %d stopped enumerating: live heap %d MiB above the cap of %d MiB", t.shard, ms.HeapAlloc>>20, memCap()>>20))
				}
			}
		}
		if !t.careful && now.Sub(t.lastFlush) > 2*time.Second {
			t.lastFlush = now
			fmt.Fprintf(t.out, "P %s\n", strconv.Quote(key))
			t.out.Flush()
		}
	}
}

func (t *T) runGuarded(key string, fn func() *Outcome) (o *Outcome) {
	defer func() {
		if r := recover(); r != nil {
			o = &Outcome{Nontrivial: true, Violation: fmt.Sprintf("panic: %v\n%s", r, trimStack(debug.Stack()))}
		}
	}()
	o = fn()
	if o == nil {
		o = &Outcome{}
	}
	return o
}

func trimStack(b []byte) string {
	s := string(b)
	if len(s) > 3000 {
		s = s[:3000]
	}
	return s
}

// ---- known findings ----

type KFEntry struct {
	ID       string      `json:"id"`
	Property string      `json:"property"`
	Status   string      `json:"status"` // "open" | "fixed"
	What     string      `json:"what"`
	Witness  interface{} `json:"witness,omitempty"`
	Quirk    string      `json:"quirk,omitempty"`
	Commit   string      `json:"commit,omitempty"`
}

var (
	kfOnce sync.Once
	kfList []KFEntry
)

func loadKF() {
	kfOnce.Do(func() {
		paths := []string{filepath.Join(VerifDir(), "known_findings.json")}
		more, _ := filepath.Glob(filepath.Join("/verif", "checks", "*", "known_findings.json"))
		paths = append(paths, more...)
		for _, p := range paths {
			b, err := os.ReadFile(p)
			if err != nil {
				continue
			}
			var f struct {
				Findings []KFEntry `json:"findings"`
			}
			if json.Unmarshal(b, &f) == nil {
				kfList = append(kfList, f.Findings...)
			}
		}
	})
}

// KnownOpen: is there an open (recorded, unrepaired) finding with this id for this property?
func KnownOpen(prop, id string) bool {
	loadKF()
	for _, e := range kfList {
		if e.ID == id && e.Property == prop && e.Status == "open" {
			return true
		}
	}
	return false
}

func kfWhat(id string) string {
	loadKF()
	for _, e := range kfList {
		if e.ID == id {
			return e.What
		}
	}
	return ""
}

// ---- main ----

func Main(spec Spec) {
	tier := flag.String("tier", "quick", "quick|thorough")
	replay := flag.String("replay", "", "replay file")
	flag.Parse()
	if v := os.Getenv("VERIF_TIER"); v == "quick" || v == "thorough" {
		*tier = v
	}
	if *tier != "quick" && *tier != "thorough" {
		*tier = "quick"
	}
	if w := os.Getenv("VLIB_WORKER"); w != "" {
		workerMain(&spec, *tier, w)
		return
	}
	if *replay != "" {
		os.Exit(replayMain(&spec, *replay))
	}
	os.Exit(parentMain(&spec, *tier))
}

func deadlineFor(spec *Spec, tier string) time.Duration {
	d := 240
	if tier == "thorough" {
		d = 1500
		if spec.ThoroughDeadline > 0 {
			d = spec.ThoroughDeadline
		}
	} else if spec.QuickDeadline > 0 {
		d = spec.QuickDeadline
	}
	if v := os.Getenv("VERIF_DEADLINE_S"); v != "" {
		if n, err := strconv.Atoi(v); err == nil {
			d = n
		}
	}
	return time.Duration(d) * time.Second
}

func newT(spec *Spec, tier string, shard, n int) *T {
	t := &T{spec: spec, tier: tier, shard: shard, n: n, seen: map[uint64]struct{}{}, out: bufio.NewWriter(os.Stdout)}
	t.res.Classes = map[string]int64{}
	t.res.Counters = map[string]int64{}
	t.res.Known = map[string]int64{}
	t.res.KnownEx = map[string]string{}
	t.deadline = time.Now().Add(deadlineFor(spec, tier))
	// the parent's hard stop (twice the deadline after ITS start) also bounds re-runs of a shard
	// after a worker death, which would otherwise each get a fresh deadline
	if v, err := strconv.ParseInt(os.Getenv("VLIB_HARD_STOP"), 10, 64); err == nil && v > 0 {
		if hs := time.Unix(v, 0); hs.Before(t.deadline) {
			t.deadline = hs
		}
	}
	t.lastFlush = time.Now()
	t.lastTick = time.Now()
	return t
}

func workerMain(spec *Spec, tier, w string) {
	var shard, n int
	fmt.Sscanf(w, "%d/%d", &shard, &n)
	debug.SetGCPercent(200)
	t := newT(spec, tier, shard, n)
	t.careful = os.Getenv("VLIB_CAREFUL") == "1"
	if sk := os.Getenv("VLIB_SKIP_KEYS"); sk != "" {
		var keys []string
		if json.Unmarshal([]byte(sk), &keys) == nil {
			t.skipKeys = map[string]bool{}
			for _, k := range keys {
				t.skipKeys[k] = true
			}
		}
	}
	spec.Run(t)
	b, _ := json.Marshal(t.res)
	fmt.Fprintf(t.out, "R %s\n", b)
	t.out.Flush()
}

func replayMain(spec *Spec, path string) int {
	b, err := os.ReadFile(path)
	if err != nil {
		fmt.Println("cannot read replay file:", err)
		return 2
	}
	var r struct {
		Key  string `json:"key"`
		Tier string `json:"tier"`
	}
	if err := json.Unmarshal(b, &r); err != nil || r.Key == "" {
		fmt.Println("bad replay file")
		return 2
	}
	if r.Tier == "" {
		r.Tier = "thorough"
	}
	t := newT(spec, r.Tier, 0, 1)
	t.replayKey = r.Key
	t.deadline = time.Now().Add(24 * time.Hour)
	spec.Run(t)
	if !t.replayHit {
		fmt.Printf("replay: case %q is not part of the %s enumeration any more\n", r.Key, r.Tier)
		return 2
	}
	if t.res.NViol > 0 {
		v := t.res.Violations[0]
		fmt.Printf("replay: case %s\n  %s\n", v.Key, v.Violation)
		fmt.Printf("VIOLATION property=%s replay=%s\n", spec.ID, path)
		return 1
	}
	for id := range t.res.Known {
		fmt.Printf("KNOWN-FINDING: property=%s %s %s\n", spec.ID, id, kfWhat(id))
	}
	fmt.Println("replay: property holds on this case")
	return 0
}

func nWorkers(spec *Spec) int {
	n := runtime.NumCPU()
	if n > 16 {
		n = 16
	}
	if spec.Workers > 0 {
		n = spec.Workers
	}
	if v := os.Getenv("VERIF_WORKERS"); v != "" {
		if k, err := strconv.Atoi(v); err == nil && k > 0 {
			n = k
		}
	}
	return n
}

type shardState struct {
	res     workerResult
	crashes []violation
	lastKey string
}

func runWorker(spec *Spec, tier string, shard, n int, careful bool, skipKeys []string) (res *workerResult, lastKey string, stderrTail string, err error) {
	cmd := exec.Command(os.Args[0], "--tier", tier)
	cmd.Env = append(os.Environ(), fmt.Sprintf("VLIB_WORKER=%d/%d", shard, n), "GOMAXPROCS=2")
	if careful {
		cmd.Env = append(cmd.Env, "VLIB_CAREFUL=1")
	}
	if len(skipKeys) > 0 {
		b, _ := json.Marshal(skipKeys)
		cmd.Env = append(cmd.Env, "VLIB_SKIP_KEYS="+string(b))
	}
	var errBuf tailBuf
	cmd.Stderr = &errBuf
	stdout, _ := cmd.StdoutPipe()
	if err = cmd.Start(); err != nil {
		return nil, "", "", err
	}
	progress := make(chan struct{}, 1)
	done := make(chan struct{})
	hung := false
	go func() {
		// hang guard: no progress line for hangSeconds → kill
		hangAfter := 120 * time.Second
		if careful {
			hangAfter = 25 * time.Second
		}
		timer := time.NewTimer(hangAfter)
		for {
			select {
			case <-progress:
				if !timer.Stop() {
					select {
					case <-timer.C:
					default:
					}
				}
				timer.Reset(hangAfter)
			case <-timer.C:
				hung = true
				cmd.Process.Kill()
				return
			case <-done:
				return
			}
		}
	}()
	sc := bufio.NewScanner(stdout)
	sc.Buffer(make([]byte, 1<<20), 1<<28)
	for sc.Scan() {
		line := sc.Text()
		select {
		case progress <- struct{}{}:
		default:
		}
		switch {
		case strings.HasPrefix(line, "K "), strings.HasPrefix(line, "P "):
			if s, e := strconv.Unquote(line[2:]); e == nil {
				if line[0] == 'K' {
					lastKey = s
				}
			}
		case strings.HasPrefix(line, "R "):
			var r workerResult
			if e := json.Unmarshal([]byte(line[2:]), &r); e == nil {
				res = &r
			}
		}
	}
	werr := cmd.Wait()
	close(done)
	if res == nil {
		if hung {
			return nil, lastKey, errBuf.String(), fmt.Errorf("worker unresponsive (killed)")
		}
		return nil, lastKey, errBuf.String(), fmt.Errorf("worker died: %v", werr)
	}
	return res, lastKey, "", nil
}

type tailBuf struct {
	mu sync.Mutex
	b  []byte
}

func (t *tailBuf) Write(p []byte) (int, error) {
	t.mu.Lock()
	defer t.mu.Unlock()
	t.b = append(t.b, p...)
	if len(t.b) > 6000 {
		// keep head (the fatal error message) and tail
		t.b = append(t.b[:3000:3000], t.b[len(t.b)-3000:]...)
	}
	return len(p), nil
}
func (t *tailBuf) String() string { t.mu.Lock(); defer t.mu.Unlock(); return string(t.b) }

func mergeInto(dst *workerResult, src *workerResult) {
	dst.Evaluations += src.Evaluations
	dst.Nontrivial += src.Nontrivial
	for k, v := range src.Classes {
		dst.Classes[k] += v
	}
	for k, v := range src.Counters {
		dst.Counters[k] += v
	}
	for k, v := range src.Known {
		dst.Known[k] += v
		if _, ok := dst.KnownEx[k]; !ok {
			dst.KnownEx[k] = src.KnownEx[k]
		}
	}
	dst.Violations = append(dst.Violations, src.Violations...)
	dst.NViol += src.NViol
	dst.Samples = append(dst.Samples, src.Samples...)
	dst.TimedOut = dst.TimedOut || src.TimedOut
	dst.Notes = append(dst.Notes, src.Notes...)
}

// Scratch is a directory shared by all workers of one run (created by the parent, removed at the
// end); empty when there is none (replay mode).
func Scratch() string { return os.Getenv("VLIB_SCRATCH") }

func parentMain(spec *Spec, tier string) int {
	t0 := time.Now()
	if dir, err := os.MkdirTemp("", "vlib-scratch-"); err == nil {
		os.Setenv("VLIB_SCRATCH", dir)
		defer os.RemoveAll(dir)
	}
	hardStop := t0.Add(2 * deadlineFor(spec, tier))
	os.Setenv("VLIB_HARD_STOP", strconv.FormatInt(hardStop.Unix(), 10))
	n := nWorkers(spec)
	seed := int64(0)
	if v := os.Getenv("VERIF_SEED"); v != "" {
		seed, _ = strconv.ParseInt(v, 10, 64)
	}
	total := workerResult{Classes: map[string]int64{}, Counters: map[string]int64{}, Known: map[string]int64{}, KnownEx: map[string]string{}}
	var mu sync.Mutex
	var wg sync.WaitGroup
	for s := 0; s < n; s++ {
		wg.Add(1)
		go func(shard int) {
			defer wg.Done()
			res, _, errTail, err := runWorker(spec, tier, shard, n, false, nil)
			if err == nil {
				mu.Lock()
				mergeInto(&total, res)
				mu.Unlock()
				return
			}
			// The worker died (Go fatal error, runaway recursion, hang). Isolate the culprit: re-run
			// the shard printing every key before it is executed; each death names one case, which is
			// confirmed twice more on its own and then skipped.
			fmt.Fprintf(os.Stderr, "[%s] worker %d/%d: %v — isolating\n%s\n", spec.ID, shard, n, err, lastLines(errTail, 6))
			var skip []string
			for round := 0; round < 12; round++ {
				if time.Now().After(hardStop) {
					mu.Lock()
					total.Notes = append(total.Notes, fmt.Sprintf("worker %d: isolation abandoned, twice the deadline has passed", shard))
					total.TimedOut = true
					mu.Unlock()
					return
				}
				res, lastKey, errTail2, err2 := runWorker(spec, tier, shard, n, true, skip)
				if err2 == nil {
					mu.Lock()
					mergeInto(&total, res)
					mu.Unlock()
					return
				}
				if lastKey == "" || (len(skip) > 0 && lastKey == skip[len(skip)-1]) {
					mu.Lock()
					total.Notes = append(total.Notes, fmt.Sprintf("worker %d died without naming a case: %v", shard, err2))
					mu.Unlock()
					return
				}
				// confirm on its own
				confirmed := 0
				for i := 0; i < 2; i++ {
					if crashesAlone(spec, tier, lastKey) {
						confirmed++
					}
				}
				mu.Lock()
				if confirmed == 2 {
					total.NViol++
					total.Violations = append(total.Violations, violation{0, lastKey, "process died or hung while executing this case: " + err2.Error() + "\n" + lastLines(errTail2, 12), nil})
				} else {
					total.Notes = append(total.Notes, "worker death not reproducible on case alone, not reported: "+lastKey)
				}
				mu.Unlock()
				skip = append(skip, lastKey)
			}
		}(s)
	}
	wg.Wait()
	return finish(spec, tier, seed, &total, t0, n)
}

func lastLines(s string, n int) string {
	ls := strings.Split(strings.TrimRight(s, "\n"), "\n")
	if len(ls) > n {
		ls = ls[:n]
	}
	return strings.Join(ls, "\n")
}

func crashesAlone(spec *Spec, tier, key string) bool {
	f, err := os.CreateTemp("", "vlib-replay-*.json")
	if err != nil {
		return false
	}
	defer os.Remove(f.Name())
	b, _ := json.Marshal(map[string]string{"key": key, "tier": tier})
	f.Write(b)
	f.Close()
	cmd := exec.Command(os.Args[0], "--replay", f.Name())
	stdout, _ := cmd.StdoutPipe()
	if err := cmd.Start(); err != nil {
		return false
	}
	// the case may legitimately run long: it is only taken for hung when it prints nothing
	// (no Progress heartbeat, no result) for 60 s
	alive := make(chan struct{}, 1)
	go func() {
		sc := bufio.NewScanner(stdout)
		sc.Buffer(make([]byte, 1<<20), 1<<26)
		for sc.Scan() {
			select {
			case alive <- struct{}{}:
			default:
			}
		}
	}()
	done := make(chan error, 1)
	go func() { done <- cmd.Wait() }()
	for {
		select {
		case err := <-done:
			if err == nil {
				return false
			}
			if ee, ok := err.(*exec.ExitError); ok && ee.ExitCode() == 0 {
				return false
			}
			return true // exit 1 (violation, e.g. a recovered panic), 2 (fatal error) or a signal
		case <-alive:
		case <-time.After(60 * time.Second):
			cmd.Process.Kill()
			<-done
			return true
		}
	}
}

func finish(spec *Spec, tier string, seed int64, total *workerResult, t0 time.Time, n int) int {
	dir := VerifDir()
	os.MkdirAll(filepath.Join(dir, "evidence"), 0o755)
	os.MkdirAll(filepath.Join(dir, "replays"), 0o755)
	sort.Slice(total.Violations, func(i, j int) bool {
		if total.Violations[i].Seq != total.Violations[j].Seq {
			return total.Violations[i].Seq < total.Violations[j].Seq
		}
		return total.Violations[i].Key < total.Violations[j].Key
	})
	exhaustive := !total.TimedOut
	cov := map[string]interface{}{
		"evaluations":         total.Evaluations,
		"distinct_nontrivial": total.Nontrivial,
		"rule":                spec.Rule,
		"exhaustive":          exhaustive,
		"distinct_outcomes":   len(total.Classes),
		"workers":             n,
	}
	samples := total.Samples
	if len(samples) > 8 {
		samples = samples[:8]
	}
	sl := make([]interface{}, 0, len(samples))
	for _, s := range samples {
		sl = append(sl, s)
	}
	if len(sl) == 0 {
		sl = append(sl, "(no case executed)")
	}
	cov["samples"] = sl
	for k, v := range total.Counters {
		cov[k] = v
	}
	if len(total.Classes) > 0 && len(total.Classes) <= 40 {
		cov["outcome_classes"] = total.Classes
	} else if len(total.Classes) > 40 {
		type kv struct {
			k string
			v int64
		}
		var all []kv
		for k, v := range total.Classes {
			all = append(all, kv{k, v})
		}
		sort.Slice(all, func(i, j int) bool { return all[i].v > all[j].v || (all[i].v == all[j].v && all[i].k < all[j].k) })
		top := map[string]int64{}
		for _, e := range all[:40] {
			top[e.k] = e.v
		}
		cov["outcome_classes_top40"] = top
	}
	if total.TimedOut {
		cov["cap_hit"] = fmt.Sprintf("internal deadline of %s reached; cases are enumerated in a fixed order, simplest first, and everything before the cut was covered", deadlineFor(spec, tier))
	}
	if len(total.Notes) > 0 {
		cov["notes"] = total.Notes
	}
	if len(total.Known) > 0 {
		cov["known_findings_matched"] = total.Known
	}
	if spec.Extra != nil {
		spec.Extra(tier, cov)
	}
	ev := map[string]interface{}{
		"property_id": spec.ID,
		"tier":        tier,
		"seed":        seed,
		"level":       spec.Level,
		"coverage":    cov,
		"assumptions": spec.Assumptions,
		"wall_s":      time.Since(t0).Seconds(),
		"violations":  total.NViol,
	}
	b, _ := json.MarshalIndent(ev, "", " ")
	os.WriteFile(filepath.Join(dir, "evidence", spec.ID+".json"), append(b, '\n'), 0o644)

	fmt.Printf("[%s] tier=%s evaluations=%d distinct_nontrivial=%d outcome_classes=%d exhaustive=%v wall=%.1fs\n",
		spec.ID, tier, total.Evaluations, total.Nontrivial, len(total.Classes), exhaustive, time.Since(t0).Seconds())
	for k, v := range total.Counters {
		fmt.Printf("[%s]   %s=%d\n", spec.ID, k, v)
	}
	for _, nn := range total.Notes {
		fmt.Printf("[%s] note: %s\n", spec.ID, nn)
	}
	ids := make([]string, 0, len(total.Known))
	for id := range total.Known {
		ids = append(ids, id)
	}
	sort.Strings(ids)
	for _, id := range ids {
		fmt.Printf("KNOWN-FINDING: property=%s %s %s (cases=%d, e.g. %s)\n", spec.ID, id, kfWhat(id), total.Known[id], total.KnownEx[id])
	}
	if total.NViol == 0 {
		return 0
	}
	shown := 0
	for _, v := range total.Violations {
		h := sha1.Sum([]byte(v.Key))
		path := filepath.Join(dir, "replays", spec.ID+"-"+hex.EncodeToString(h[:6])+".json")
		rb, _ := json.MarshalIndent(map[string]interface{}{"property": spec.ID, "tier": tier, "key": v.Key, "violation": v.Violation, "detail": v.Detail}, "", " ")
		os.WriteFile(path, rb, 0o644)
		if shown < 5 {
			fmt.Printf("[%s] violating case: %s\n    %s\n", spec.ID, v.Key, strings.ReplaceAll(v.Violation, "\n", "\n    "))
			fmt.Printf("VIOLATION property=%s replay=%s\n", spec.ID, path)
			shown++
		}
	}
	fmt.Printf("[%s] %d violating cases in total\n", spec.ID, total.NViol)
	return 1
}
