// Package twx holds helpers shared by the checks that look inside live twig objects from outside
// the package: structural hashing of node trees (reflect only, fields located by type), and access
// to the engine's template cache.
package twx

import (
	"fmt"
	"hash/fnv"
	"reflect"
	"sort"
	"unsafe"

	"github.com/semihalev/twig"
)

// CachedTemplates returns the engine's cache (the field of type map[string]*Template) without
// calling any engine method.
func CachedTemplates(e *twig.Engine) map[string]*twig.Template {
	v := reflect.ValueOf(e).Elem()
	want := reflect.TypeOf(map[string]*twig.Template{})
	for i := 0; i < v.NumField(); i++ {
		f := v.Field(i)
		if f.Type() == want {
			p := unsafe.Pointer(f.UnsafeAddr())
			return *(*map[string]*twig.Template)(p)
		}
	}
	return nil
}

// skipTypes: back-references from a template to its engine/environment/loader are not part of the
// template's own structure.
func skipType(t reflect.Type) bool {
	switch t {
	case reflect.TypeOf((*twig.Engine)(nil)), reflect.TypeOf((*twig.Environment)(nil)):
		return true
	}
	if t.Kind() == reflect.Interface && t.Name() == "Loader" {
		return true
	}
	return false
}

// identity numbers skipped objects (engines, environments) in the order they are first seen in this
// process, so that a template re-bound to another engine hashes differently
// Keys are plain addresses (uintptr), NOT pointers: the table must not keep the engines of
// finished histories alive. ResetIdentities is called when a new world is built; inside one world
// all engines are alive at the same time, so addresses are unambiguous.
var identities = map[uintptr]int{}

func identity(p unsafe.Pointer) int {
	id, ok := identities[uintptr(p)]
	if !ok {
		id = len(identities) + 1
		identities[uintptr(p)] = id
	}
	return id
}

// ResetIdentities forgets the numbering (call between independent worlds).
func ResetIdentities() { identities = map[uintptr]int{} }

type hasher struct {
	h    interface{ Write([]byte) (int, error) }
	seen map[unsafe.Pointer]int
	ptrs map[unsafe.Pointer]bool // every pointer reached (for pool-overlap checks)
}

func (hs *hasher) str(s string) { hs.h.Write([]byte(s)); hs.h.Write([]byte{0}) }

func (hs *hasher) walk(v reflect.Value, depth int) {
	if depth > 200 {
		hs.str("<deep>")
		return
	}
	if !v.IsValid() {
		hs.str("<invalid>")
		return
	}
	if skipType(v.Type()) {
		// not walked, but WHICH engine / environment a template is bound to is part of its state
		if v.Kind() == reflect.Ptr && !v.IsNil() {
			hs.str(fmt.Sprintf("<skip #%d>", identity(unsafe.Pointer(v.Pointer()))))
			return
		}
		hs.str("<skip>")
		return
	}
	switch v.Kind() {
	case reflect.Bool:
		hs.str(fmt.Sprint(v.Bool()))
	case reflect.Int, reflect.Int8, reflect.Int16, reflect.Int32, reflect.Int64:
		hs.str(fmt.Sprint(v.Int()))
	case reflect.Uint, reflect.Uint8, reflect.Uint16, reflect.Uint32, reflect.Uint64, reflect.Uintptr:
		hs.str(fmt.Sprint(v.Uint()))
	case reflect.Float32, reflect.Float64:
		hs.str(fmt.Sprint(v.Float()))
	case reflect.Complex64, reflect.Complex128:
		hs.str(fmt.Sprint(v.Complex()))
	case reflect.String:
		hs.str("s:" + v.String())
	case reflect.Ptr:
		if v.IsNil() {
			hs.str("nil")
			return
		}
		p := unsafe.Pointer(v.Pointer())
		if id, ok := hs.seen[p]; ok {
			hs.str(fmt.Sprintf("<ref %d>", id))
			return
		}
		hs.seen[p] = len(hs.seen)
		hs.ptrs[p] = true
		hs.str("&" + v.Type().Elem().String())
		hs.walk(v.Elem(), depth+1)
	case reflect.Interface:
		if v.IsNil() {
			hs.str("nil")
			return
		}
		hs.str("i:" + v.Elem().Type().String())
		hs.walk(v.Elem(), depth+1)
	case reflect.Struct:
		hs.str("{" + v.Type().String())
		for i := 0; i < v.NumField(); i++ {
			hs.walk(v.Field(i), depth+1)
		}
		hs.str("}")
	case reflect.Slice:
		if v.IsNil() {
			hs.str("nilslice")
			return
		}
		fallthrough
	case reflect.Array:
		hs.str(fmt.Sprintf("[%d", v.Len()))
		for i := 0; i < v.Len(); i++ {
			hs.walk(v.Index(i), depth+1)
		}
		hs.str("]")
	case reflect.Map:
		if v.IsNil() {
			hs.str("nilmap")
			return
		}
		// order-independent: hash each entry separately, sort
		var ents []string
		it := v.MapRange()
		for it.Next() {
			sub := &hasher{h: fnv.New64a(), seen: hs.seen, ptrs: hs.ptrs}
			sub.walk(it.Key(), depth+1)
			sub.walk(it.Value(), depth+1)
			ents = append(ents, fmt.Sprint(sub.h.(interface{ Sum64() uint64 }).Sum64()))
		}
		sort.Strings(ents)
		hs.str(fmt.Sprintf("map%d%v", len(ents), ents))
	case reflect.Func, reflect.Chan, reflect.UnsafePointer:
		hs.str("<opaque>")
	}
}

// DeepHash returns an address-independent structural hash of x (typically a *twig.Template) and the
// set of all pointers reachable from it.
func DeepHash(x interface{}) (uint64, map[unsafe.Pointer]bool) {
	h := fnv.New64a()
	hs := &hasher{h: h, seen: map[unsafe.Pointer]int{}, ptrs: map[unsafe.Pointer]bool{}}
	hs.walk(reflect.ValueOf(x), 0)
	return h.Sum64(), hs.ptrs
}

// PointerOf returns the address held by an interface value that contains a pointer (nil otherwise).
func PointerOf(x interface{}) unsafe.Pointer {
	v := reflect.ValueOf(x)
	if v.Kind() == reflect.Ptr && !v.IsNil() {
		return unsafe.Pointer(v.Pointer())
	}
	return nil
}
