#!/bin/bash
# Run once after a fresh restore (offline): warms the Go build cache by building every check once
# against the current repository tree. Nothing here is needed for correctness — run.sh rebuilds
# whatever it needs on every invocation.
cd "$(dirname "$0")"
. ./env.sh
mkdir -p evidence replays .build
"$GO" version || { echo "no Go toolchain"; exit 1; }
"$GO" build -o .build/vgen ./cmd/vgen || exit 1
for d in checks/c*/; do
  id=$(basename "$d")
  VERIF_SETUP_ONLY=1 ./run.sh "$id" build >/dev/null 2>&1 || true
done
echo "setup done"
