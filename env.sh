# sourced by run.sh / setup.sh: offline Go environment for building against the repository
export GOFLAGS=-mod=mod GOPROXY=off GOSUMDB=off GOTOOLCHAIN=local GONOSUMDB=* GONOSUMCHECK=1 GOFLAGS=-mod=mod
GO=$(ls -d "$(go env GOMODCACHE 2>/dev/null || echo /root/go/pkg/mod)"/golang.org/toolchain@v0.0.1-go1.24.1.linux-amd64/bin/go 2>/dev/null | head -1)
if [ -z "$GO" ] || [ ! -x "$GO" ]; then
  GO=$(command -v go1.26 || command -v go)
fi
export GO
